(* C08 -- proofs about the channel maps (Ident/Maps.v) over the tables regenerated from /repo.
   Quantification over ALL run numbers is symbolic: `dispatch` is a chain of comparisons, so it is constant
   between the points named by its arms (dispatch_rep); the finite checks then run over those points only. *)
From Coq Require Import Sorting.Permutation.
From AG Require Import Base.Prelude Base.Res Base.Bytes Ident.Dispatch Ident.Names Ident.Maps
  Gen.Boards Gen.WireMaps Gen.PadMaps.

(* ---- small list facts ------------------------------------------------------------------------- *)
Lemma list_eqb_eq a b : list_eqb a b = true <-> a = b.
Proof.
  revert b; induction a as [|x a IH]; destruct b as [|y b]; cbn; split; intro H; try discriminate; auto.
  - apply andb_true_iff in H as [H1 H2]. apply N.eqb_eq in H1. apply IH in H2. congruence.
  - inv H. rewrite N.eqb_refl. cbn. apply IH. reflexivity.
Qed.

Lemma In_range_from f s w : In w (range_from f s) <-> s <= w < s + N.of_nat f.
Proof.
  revert s; induction f as [|f IH]; intro s; cbn [range_from].
  - split; [intros []|lia].
  - cbn [In]. rewrite IH. lia.
Qed.
Lemma In_rangeN w n : In w (rangeN n) <-> w < n.
Proof. unfold rangeN. rewrite In_range_from. lia. Qed.

Lemma NoDup_range_from f s : NoDup (range_from f s).
Proof.
  revert s; induction f as [|f IH]; intro s; cbn [range_from]; constructor; auto.
  rewrite In_range_from. lia.
Qed.
Lemma NoDup_rangeN n : NoDup (rangeN n).
Proof. apply NoDup_range_from. Qed.

Lemma NoDup_map_inj {A B} (f : A -> B) l x y :
  NoDup (map f l) -> In x l -> In y l -> f x = f y -> x = y.
Proof.
  induction l as [|a l IH]; cbn; intros ND Hx Hy E; [contradiction|].
  inv ND. destruct Hx as [->|Hx], Hy as [->|Hy]; auto.
  - exfalso. apply H1. rewrite E. apply in_map. exact Hy.
  - exfalso. apply H1. rewrite <- E. apply in_map. exact Hx.
Qed.

Lemma perm_of_range_spec n vals : perm_of_range n vals = true -> Permutation vals (rangeN n).
Proof.
  unfold perm_of_range. intro H. apply list_eqb_eq in H. rewrite <- H. apply NSort.Permuted_sort.
Qed.

(* a map whose value list is a permutation of 0..n-1 is a bijection of its domain onto [0,n) *)
Lemma bij_from_perm {D} (f : D -> N) (dom : list D) n :
  Permutation (map f dom) (rangeN n) ->
  (forall x, In x dom -> f x < n)
  /\ (forall x y, In x dom -> In y dom -> f x = f y -> x = y)
  /\ (forall w, w < n -> exists x, In x dom /\ f x = w).
Proof.
  intro P. split; [|split].
  - intros x Hx. apply In_rangeN. eapply Permutation_in; [exact P|]. apply in_map. exact Hx.
  - intros x y Hx Hy E. eapply NoDup_map_inj; eauto.
    eapply Permutation_NoDup; [apply Permutation_sym; exact P|apply NoDup_rangeN].
  - intros w Hw. apply In_rangeN in Hw. eapply Permutation_in in Hw; [|apply Permutation_sym; exact P].
    apply in_map_iff in Hw as (x & E & Hx). eauto.
Qed.

(* ---- dispatch is constant between the points of its arms ------------------------------------------ *)
Lemma rep_le pts run : rep pts run <= run.
Proof. induction pts as [|p pts IH]; cbn [rep]; [lia|]. case_if; lia. Qed.
Lemma rep_ge pts run p : In p pts -> p <= run -> p <= rep pts run.
Proof.
  induction pts as [|q pts IH]; cbn [rep In]; [contradiction|].
  intros [->|H] L.
  - case_if; lia.
  - specialize (IH H L). case_if; lia.
Qed.
Lemma rep_in pts run : In (rep pts run) (0 :: pts).
Proof.
  induction pts as [|q pts IH]; cbn [rep]; [left; reflexivity|].
  case_if.
  - destruct (N.max_spec q (rep pts run)) as [[_ ->]|[_ ->]].
    + destruct IH as [E0|I]; [left; exact E0|right; right; exact I].
    + right; left; reflexivity.
  - destruct IH as [E0|I]; [left; exact E0|right; right; exact I].
Qed.
Lemma rep_eq_point pts run p : In (p + 1) pts -> rep pts run = p -> run = p.
Proof.
  intros I E. pose proof (rep_le pts run) as L.
  destruct (N.eq_dec run p) as [|NE]; [assumption|].
  assert (p + 1 <= run) as G by lia. pose proof (rep_ge pts run (p + 1) I G). lia.
Qed.

Lemma pat_rep pts p run : incl (pat_points p) pts -> pat_matches p run = pat_matches p (rep pts run).
Proof.
  intro I. pose proof (rep_le pts run) as L. destruct p as [n|n|]; cbn [pat_matches pat_points] in *.
  - assert (In n pts) as In1 by (apply I; left; reflexivity).
    assert (In (n + 1) pts) as In2 by (apply I; right; left; reflexivity).
    destruct (N.eqb_spec run n) as [->|NE].
    + pose proof (rep_ge pts n n In1 (N.le_refl n)). symmetry. apply N.eqb_eq. lia.
    + symmetry. apply N.eqb_neq. intro E. apply NE. eapply rep_eq_point; eauto.
  - assert (In n pts) as In1 by (apply I; left; reflexivity).
    destruct (N.leb_spec n run) as [G|G].
    + pose proof (rep_ge pts run n In1 G). symmetry. apply N.leb_le. assumption.
    + symmetry. apply N.leb_gt. lia.
  - reflexivity.
Qed.

Lemma dispatch_rep {A} (arms : list (rpat * option A)) pts run :
  incl (arm_points arms) pts -> dispatch arms run = dispatch arms (rep pts run).
Proof.
  induction arms as [|[p b] arms IH]; cbn [dispatch]; intro I; [reflexivity|].
  unfold arm_points in I. cbn [flat_map fst] in I.
  rewrite <- (pat_rep pts p run) by (intros x Hx; apply I; apply in_or_app; left; exact Hx).
  rewrite IH by (intros x Hx; apply I; apply in_or_app; right; exact Hx). reflexivity.
Qed.

(* ---- the points of this source tree ---------------------------------------------------------------- *)
Definition all_points : list N :=
  sim_run :: sim_run + 1 :: 5000 :: 5001 ::
  arm_points preamp_arms ++ arm_points channel_arms ++ arm_points pwb_arms
  ++ arm_points preamp_doc_arms ++ arm_points channel_doc_arms ++ arm_points pwb_doc_arms.
Definition probe_runs : list N := 0 :: all_points.

Ltac in_app := solve [ assumption | apply in_or_app; left; in_app | apply in_or_app; right; in_app ].
Ltac in_points := let x := fresh "x" in let Hx := fresh "Hx" in
  unfold all_points; intros x Hx; do 4 right; in_app.

Lemma wire_dispatch_rep run : wire_dispatch run = wire_dispatch (rep all_points run).
Proof.
  unfold wire_dispatch.
  rewrite <- (dispatch_rep preamp_arms all_points run) by in_points.
  rewrite <- (dispatch_rep channel_arms all_points run) by in_points.
  reflexivity.
Qed.
Lemma pwb_dispatch_rep run : pwb_dispatch run = pwb_dispatch (rep all_points run).
Proof. unfold pwb_dispatch. apply dispatch_rep. in_points. Qed.

Lemma rep_not_sim run : run <> sim_run -> rep all_points run <> sim_run.
Proof. intros NE E. apply NE. eapply rep_eq_point; [|exact E]. unfold all_points. right; left; reflexivity. Qed.

Lemma wire_req_rep run : run <> sim_run -> wire_dispatch_req run = wire_dispatch_req (rep all_points run).
Proof.
  intro NE. pose proof (rep_not_sim run NE) as NE'. unfold wire_dispatch_req, doc_run.
  replace (run =? sim_run) with false by (symmetry; apply N.eqb_neq; exact NE).
  replace (rep all_points run =? sim_run) with false by (symmetry; apply N.eqb_neq; exact NE').
  rewrite <- (dispatch_rep preamp_doc_arms all_points run) by in_points.
  rewrite <- (dispatch_rep channel_doc_arms all_points run) by in_points.
  reflexivity.
Qed.
Lemma pwb_req_rep run : run <> sim_run -> pwb_dispatch_req run = pwb_dispatch_req (rep all_points run).
Proof.
  intro NE. pose proof (rep_not_sim run NE) as NE'. unfold pwb_dispatch_req, doc_run.
  replace (run =? sim_run) with false by (symmetry; apply N.eqb_neq; exact NE).
  replace (rep all_points run =? sim_run) with false by (symmetry; apply N.eqb_neq; exact NE').
  apply dispatch_rep. in_points.
Qed.

(* a property of the dispatch result that holds at every probe run holds at every run *)
Lemma all_runs {A} (d : N -> option A) (Q : N -> option A -> bool) :
  (forall run, d run = d (rep all_points run)) ->
  (forall run q, q = rep all_points run -> Q run (d q) = Q q (d q)) ->
  forallb (fun q => Q q (d q)) probe_runs = true -> forall run, Q run (d run) = true.
Proof.
  intros R QQ F run. rewrite R. rewrite (QQ run _ eq_refl).
  rewrite forallb_forall in F. apply F. apply rep_in.
Qed.

Fixpoint dedup {A} (eqb : A -> A -> bool) (l : list A) : list A :=
  match l with [] => [] | x :: r => if existsb (eqb x) r then dedup eqb r else x :: dedup eqb r end.
Lemma forallb_dedup {A} (eqb : A -> A -> bool) (P : A -> bool) l :
  (forall x y, eqb x y = true -> x = y) ->
  forallb P (dedup eqb l) = true -> forall x, In x l -> P x = true.
Proof.
  intros EQ. induction l as [|a r IH]; cbn [dedup]; intros F x I; [contradiction|].
  destruct (existsb (eqb a) r) eqn:E.
  - destruct I as [<-|I]; [|auto]. apply existsb_exists in E as (y & Iy & Ey). apply EQ in Ey. subst y. auto.
  - cbn [forallb] in F. apply andb_true_iff in F as [F1 F2]. destruct I as [<-|I]; auto.
Qed.

Definition optN_eqb (a b : option N) : bool :=
  match a, b with Some x, Some y => x =? y | None, None => true | _, _ => false end.
Definition optNN_eqb (a b : option (N * N)) : bool :=
  match a, b with Some (x, x'), Some (y, y') => (x =? y) && (x' =? y') | None, None => true | _, _ => false end.
Lemma optN_eqb_eq a b : optN_eqb a b = true -> a = b.
Proof. destruct a, b; cbn; try discriminate; auto. intro H. apply N.eqb_eq in H. congruence. Qed.
Lemma optNN_eqb_eq a b : optNN_eqb a b = true -> a = b.
Proof.
  destruct a as [[x x']|], b as [[y y']|]; cbn; try discriminate; auto.
  intro H. apply andb_true_iff in H as [H1 H2]. apply N.eqb_eq in H1, H2. congruence.
Qed.


(* ---- wire map -------------------------------------------------------------------------------------- *)
Definition opt_check {A} (f : A -> bool) (o : option A) : bool := match o with Some a => f a | None => true end.

Lemma wire_check_all : forall run id, wire_dispatch run = Some id -> wire_bij_check id = true.
Proof.
  assert (forallb (opt_check wire_bij_check) (dedup optNN_eqb (map wire_dispatch probe_runs)) = true) as F
    by (vm_cast_no_check (eq_refl true)).
  intros run id E. rewrite wire_dispatch_rep in E.
  pose proof (forallb_dedup optNN_eqb _ _ optNN_eqb_eq F (wire_dispatch (rep all_points run))
                (in_map wire_dispatch _ _ (rep_in all_points run))) as G.
  rewrite E in G. exact G.
Qed.

Lemma In_wire_domain p b ch : In (b, ch) (wire_domain p) <-> In b (wire_boards p) /\ ch < 32.
Proof.
  unfold wire_domain. rewrite in_flat_map. split.
  - intros (b' & Hb & H). apply in_map_iff in H as (c & E & Hc). inv E. apply In_rangeN in Hc. auto.
  - intros [Hb Hc]. exists b. split; [exact Hb|]. apply in_map_iff. exists ch. split; [reflexivity|].
    apply In_rangeN. exact Hc.
Qed.

Lemma res_val_lt r n v : res_val r n = v -> v < n -> r = Ok v.
Proof. destruct r; cbn; intros; subst; try lia; reflexivity. Qed.

Theorem wire_map_bijective_lemma : forall run id, wire_dispatch run = Some id ->
  (forall b ch, In b (wire_boards (fst id)) -> ch < 32 ->
     exists w, wire_position run b ch = Ok w /\ w < gen_TPC_ANODE_WIRES)
  /\ (forall b ch b' ch', In b (wire_boards (fst id)) -> In b' (wire_boards (fst id)) -> ch < 32 -> ch' < 32 ->
        wire_position run b ch = wire_position run b' ch' -> b = b' /\ ch = ch')
  /\ (forall w, w < gen_TPC_ANODE_WIRES ->
        exists b ch, In b (wire_boards (fst id)) /\ ch < 32 /\ wire_position run b ch = Ok w).
Proof.
  intros run id E. pose proof (wire_check_all run id E) as C.
  unfold wire_bij_check in C. apply perm_of_range_spec in C. unfold wire_values in C.
  apply bij_from_perm in C as (C1 & C2 & C3).
  unfold wire_position. rewrite E. split; [|split].
  - intros b ch Hb Hc. assert (In (b, ch) (wire_domain (fst id))) as I by (apply In_wire_domain; auto).
    specialize (C1 _ I). cbn [fst snd] in C1. eexists. split; [|exact C1].
    eapply res_val_lt; [reflexivity|exact C1].
  - intros b ch b' ch' Hb Hb' Hc Hc' EQ.
    assert (In (b, ch) (wire_domain (fst id))) as I by (apply In_wire_domain; auto).
    assert (In (b', ch') (wire_domain (fst id))) as I' by (apply In_wire_domain; auto).
    specialize (C2 _ _ I I'). cbn [fst snd] in C2. rewrite EQ in C2. specialize (C2 eq_refl). inv C2. auto.
  - intros w Hw. destruct (C3 w Hw) as ([b ch] & I & EQ). cbn [fst snd] in EQ.
    apply In_wire_domain in I as [Hb Hc]. exists b, ch. repeat split; auto.
    eapply res_val_lt; [exact EQ|exact Hw].
Qed.

(* ---- pad map ---------------------------------------------------------------------------------------- *)
Definition pad_check (t : N) : bool :=
  pad_bij_check t && (lenN (pwb_installed t) =? gen_TPC_PWB_COLUMNS * gen_TPC_PWB_ROWS).

Lemma pad_check_all : forall run t, pwb_dispatch run = Some t -> pad_check t = true.
Proof.
  assert (forallb (opt_check pad_check) (dedup optN_eqb (map pwb_dispatch probe_runs)) = true) as F
    by (vm_cast_no_check (eq_refl true)).
  intros run t E. rewrite pwb_dispatch_rep in E.
  pose proof (forallb_dedup optN_eqb _ _ optN_eqb_eq F (pwb_dispatch (rep all_points run))
                (in_map pwb_dispatch _ _ (rep_in all_points run))) as G.
  rewrite E in G. exact G.
Qed.

Lemma In_pad_domain t b a ch :
  In (b, (a, ch)) (pad_domain t) <-> In b (pwb_installed t) /\ In a gen_after_ids /\ In ch pad_channels.
Proof.
  unfold pad_domain. rewrite in_flat_map. split.
  - intros (b' & Hb & H). apply in_flat_map in H as (a' & Ha & H). apply in_map_iff in H as (c & E & Hc). inv E. auto.
  - intros (Hb & Ha & Hc). exists b. split; [exact Hb|]. apply in_flat_map. exists a. split; [exact Ha|].
    apply in_map_iff. exists ch. auto.
Qed.

Lemma In_pad_channels ch : In ch pad_channels <-> gen_pad_channel_lo <= ch <= gen_pad_channel_hi.
Proof.
  unfold pad_channels. rewrite in_map_iff. split.
  - intros (k & E & Hk). apply In_rangeN in Hk. lia.
  - intros H. exists (ch - gen_pad_channel_lo). split; [lia|]. apply In_rangeN. lia.
Qed.

Lemma pads_product : gen_TPC_PADS = gen_TPC_PAD_COLUMNS * gen_TPC_PAD_ROWS.
Proof. reflexivity. Qed.

Lemma pad_index_lt r v : pad_index r = v -> v < gen_TPC_PADS ->
  exists c w, r = Ok (c, w) /\ w < gen_TPC_PAD_ROWS /\ c < gen_TPC_PAD_COLUMNS /\ v = c * gen_TPC_PAD_ROWS + w.
Proof.
  unfold pad_index. destruct r as [[c w]|k|]; try (intros; subst; lia).
  destruct (N.ltb_spec w gen_TPC_PAD_ROWS) as [L|L]; [|intros; subst; lia].
  intros <- H. exists c, w. repeat split; auto. rewrite pads_product in H. nia.
Qed.

Theorem pad_map_bijective_lemma : forall run t, pwb_dispatch run = Some t ->
  lenN (pwb_installed t) = gen_TPC_PWB_COLUMNS * gen_TPC_PWB_ROWS
  /\ (forall b a ch, In b (pwb_installed t) -> In a gen_after_ids -> In ch pad_channels ->
        exists c w, pad_position run b a ch = Ok (c, w) /\ c < gen_TPC_PAD_COLUMNS /\ w < gen_TPC_PAD_ROWS)
  /\ (forall b a ch b' a' ch', In b (pwb_installed t) -> In a gen_after_ids -> In ch pad_channels ->
        In b' (pwb_installed t) -> In a' gen_after_ids -> In ch' pad_channels ->
        pad_position run b a ch = pad_position run b' a' ch' -> b = b' /\ a = a' /\ ch = ch')
  /\ (forall c w, c < gen_TPC_PAD_COLUMNS -> w < gen_TPC_PAD_ROWS ->
        exists b a ch, In b (pwb_installed t) /\ In a gen_after_ids /\ In ch pad_channels
                       /\ pad_position run b a ch = Ok (c, w)).
Proof.
  intros run t E. pose proof (pad_check_all run t E) as C.
  unfold pad_check in C. apply andb_true_iff in C as [C L]. apply N.eqb_eq in L.
  unfold pad_bij_check in C. apply perm_of_range_spec in C. unfold pad_values in C.
  apply bij_from_perm in C as (C1 & C2 & C3).
  unfold pad_position, pad_position_d. rewrite E. split; [exact L|]. split; [|split].
  - intros b a ch Hb Ha Hc.
    assert (In (b, (a, ch)) (pad_domain t)) as I by (apply In_pad_domain; auto).
    specialize (C1 _ I). cbn [fst snd] in C1.
    destruct (pad_index_lt _ _ eq_refl C1) as (c & w & EQ & Hw & Hcc & _). exists c, w. auto.
  - intros b a ch b' a' ch' Hb Ha Hc Hb' Ha' Hc' EQ.
    assert (In (b, (a, ch)) (pad_domain t)) as I by (apply In_pad_domain; auto).
    assert (In (b', (a', ch')) (pad_domain t)) as I' by (apply In_pad_domain; auto).
    specialize (C2 _ _ I I'). cbn [fst snd] in C2. rewrite EQ in C2. specialize (C2 eq_refl). inv C2. auto.
  - intros c w Hc Hw.
    assert (c * gen_TPC_PAD_ROWS + w < gen_TPC_PADS) as Hv by (rewrite pads_product; nia).
    destruct (C3 _ Hv) as ([b [a ch]] & I & EQ). cbn [fst snd] in EQ.
    apply In_pad_domain in I as (Hb & Ha & Hch). exists b, a, ch. repeat split; auto.
    destruct (pad_index_lt _ _ EQ Hv) as (c' & w' & EQ' & Hw' & Hc' & V).
    rewrite EQ'. assert (c' = c /\ w' = w) as [-> ->]; [|reflexivity].
    unfold gen_TPC_PAD_ROWS in *. lia.
Qed.

(* ---- simulation, early runs -------------------------------------------------------------------------- *)
Theorem sim_like_5000_lemma :
  (forall b ch, wire_position sim_run b ch = wire_position 5000 b ch)
  /\ (forall b a ch, pad_position sim_run b a ch = pad_position 5000 b a ch).
Proof.
  split; intros.
  - unfold wire_position. replace (wire_dispatch sim_run) with (wire_dispatch 5000) by (vm_compute; reflexivity).
    reflexivity.
  - unfold pad_position. replace (pwb_dispatch sim_run) with (pwb_dispatch 5000) by (vm_compute; reflexivity).
    reflexivity.
Qed.

Definition is_none {A} (o : option A) : bool := match o with None => true | Some _ => false end.

Lemma early_none {A} (d : N -> option A) thr :
  (forall run, d run = d (rep all_points run)) ->
  forallb (fun q => if (q <? thr) && negb (q =? sim_run) then is_none (d q) else true) probe_runs = true ->
  forall run, run < thr -> run <> sim_run -> d run = None.
Proof.
  intros R F run L NE. rewrite R. rewrite forallb_forall in F.
  specialize (F _ (rep_in all_points run)). cbv beta in F.
  pose proof (rep_le all_points run) as LE.
  assert (rep all_points run <> sim_run) as NE'.
  { apply rep_not_sim. exact NE. }
  replace (rep all_points run <? thr) with true in F by (symmetry; apply N.ltb_lt; lia).
  replace (rep all_points run =? sim_run) with false in F by (symmetry; apply N.eqb_neq; exact NE').
  cbn [andb negb] in F. destruct (d (rep all_points run)); [cbn in F; discriminate|reflexivity].
Qed.

Theorem early_runs_error_lemma : forall run, run <> sim_run ->
  (run < wire_first_threshold -> forall b ch, exists k, wire_position run b ch = Err k)
  /\ (run < pad_first_threshold -> forall b a ch, exists k, pad_position run b a ch = Err k).
Proof.
  assert (forallb (fun q => if (q <? wire_first_threshold) && negb (q =? sim_run) then is_none (wire_dispatch q) else true)
                  probe_runs = true) as FW by (vm_cast_no_check (eq_refl true)).
  assert (forallb (fun q => if (q <? pad_first_threshold) && negb (q =? sim_run) then is_none (pwb_dispatch q) else true)
                  probe_runs = true) as FP by (vm_cast_no_check (eq_refl true)).
  intros run NE. split; intros L **.
  - unfold wire_position. rewrite (early_none wire_dispatch wire_first_threshold wire_dispatch_rep FW run L NE).
    cbn. eauto.
  - unfold pad_position, pad_position_d.
    rewrite (early_none pwb_dispatch pad_first_threshold pwb_dispatch_rep FP run L NE).
    cbn. eauto.
Qed.

(* the `_` arm of every run-number match is an error, never a map *)
Theorem no_catch_all_guess_lemma : forall arms, In arms [preamp_arms; channel_arms; pwb_arms] ->
  forall b, In (PAny, b) arms -> b = None.
Proof.
  assert (forallb (fun arms => forallb (fun a => match a with (PAny, Some _) => false | _ => true end) arms)
                  [preamp_arms; channel_arms; pwb_arms] = true) as F by (vm_cast_no_check (eq_refl true)).
  intros arms I b Hb. rewrite forallb_forall in F. specialize (F _ I). rewrite forallb_forall in F.
  specialize (F _ Hb). cbn in F. destruct b; [discriminate|reflexivity].
Qed.

(* ---- geometry ------------------------------------------------------------------------------------------ *)
Theorem column_geometry_lemma : forall w, w < gen_TPC_ANODE_WIRES ->
  let c := wire_to_pad_column w in
  c < gen_TPC_PAD_COLUMNS
  /\ 2 * c * gen_TPC_ANODE_WIRES <= wire_phi_num w * gen_TPC_PAD_COLUMNS
  /\ wire_phi_num w * gen_TPC_PAD_COLUMNS < (2 * c + 2) * gen_TPC_ANODE_WIRES.
Proof.
  assert (forallb (fun w => (wire_to_pad_column w <? gen_TPC_PAD_COLUMNS) && wire_in_column w (wire_to_pad_column w))
                  (rangeN gen_TPC_ANODE_WIRES) = true) as F by (vm_cast_no_check (eq_refl true)).
  intros w Hw c. rewrite forallb_forall in F. specialize (F w (proj2 (In_rangeN _ _) Hw)).
  apply andb_true_iff in F as [F1 F2]. unfold wire_in_column in F2. apply andb_true_iff in F2 as [F2 F3].
  apply N.ltb_lt in F1. apply N.leb_le in F2. apply N.ltb_lt in F3. auto.
Qed.

Theorem column_wires_inverse_lemma : forall c, c < gen_TPC_PAD_COLUMNS ->
  pad_column_first c + gen_WIRES_PER_COLUMN <= gen_TPC_ANODE_WIRES
  /\ forall w, w < gen_TPC_ANODE_WIRES -> (In w (pad_column_to_wires c) <-> wire_to_pad_column w = c).
Proof.
  assert (forallb (fun c => (pad_column_first c + gen_WIRES_PER_COLUMN <=? gen_TPC_ANODE_WIRES)
            && forallb (fun w => Bool.eqb (existsb (N.eqb w) (pad_column_to_wires c)) (wire_to_pad_column w =? c))
                       (rangeN gen_TPC_ANODE_WIRES)) (rangeN gen_TPC_PAD_COLUMNS) = true) as F
    by (vm_cast_no_check (eq_refl true)).
  intros c Hc. rewrite forallb_forall in F. specialize (F c (proj2 (In_rangeN _ _) Hc)).
  apply andb_true_iff in F as [F1 F2]. apply N.leb_le in F1. split; [exact F1|].
  intros w Hw. rewrite forallb_forall in F2. specialize (F2 w (proj2 (In_rangeN _ _) Hw)).
  apply Bool.eqb_prop in F2. split.
  - intro I. apply N.eqb_eq. rewrite <- F2. apply existsb_exists. exists w. split; [exact I|apply N.eqb_refl].
  - intro E. apply N.eqb_eq in E. rewrite <- F2 in E. apply existsb_exists in E as (x & I & Ex).
    apply N.eqb_eq in Ex. subst x. exact I.
Qed.

(* ---- no gap after the first map, no orphan table ------------------------------------------------------ *)
Lemma from_threshold {A} (d : N -> option A) thr :
  (forall run, d run = d (rep all_points run)) ->
  existsb (N.eqb thr) probe_runs = true ->
  forallb (fun q => if thr <=? q then is_some (d q) else true) probe_runs = true ->
  forall run, thr <= run -> d run <> None.
Proof.
  intros R T F run L. rewrite R. rewrite forallb_forall in F.
  specialize (F _ (rep_in all_points run)). cbv beta in F.
  assert (thr <= rep all_points run) as G.
  { apply existsb_exists in T as (x & I & E). apply N.eqb_eq in E. subst x.
    destruct I as [<-|I]; [lia|]. apply rep_ge; assumption. }
  replace (thr <=? rep all_points run) with true in F by (symmetry; apply N.leb_le; exact G).
  destruct (d (rep all_points run)); [discriminate|]. cbn in F. discriminate.
Qed.

Theorem maps_no_gap_lemma : forall run,
  (wire_first_threshold <= run -> wire_dispatch run <> None)
  /\ (pad_first_threshold <= run -> pwb_dispatch run <> None).
Proof.
  intro run. split.
  - apply (from_threshold wire_dispatch wire_first_threshold wire_dispatch_rep); vm_compute; reflexivity.
  - apply (from_threshold pwb_dispatch pad_first_threshold pwb_dispatch_rep); vm_compute; reflexivity.
Qed.

Definition used_check (arms : list (rpat * option N)) (ntables : N) : bool :=
  forallb (fun t => existsb (fun q => opt_eqb (dispatch arms q) (Some t)) probe_runs) (rangeN ntables).
Lemma used_spec arms n : used_check arms n = true -> forall t, t < n -> exists run, dispatch arms run = Some t.
Proof.
  unfold used_check. intros F t L. rewrite forallb_forall in F. specialize (F t (proj2 (In_rangeN _ _) L)).
  apply existsb_exists in F as (q & _ & E). exists q. destruct (dispatch arms q) as [x|]; cbn in E; [|discriminate].
  apply N.eqb_eq in E. congruence.
Qed.

(* every translated table is selected by some run number (a new table with a forgotten arm is caught here) *)
Theorem every_table_used_lemma :
  (forall t, t < lenN preamp_tables -> exists run, dispatch preamp_arms run = Some t)
  /\ (forall t, t < lenN channel_tables -> exists run, dispatch channel_arms run = Some t)
  /\ (forall t, t < lenN pwb_tables -> exists run, pwb_dispatch run = Some t).
Proof. repeat split; apply used_spec; vm_compute; reflexivity. Qed.

(* ---- the observations printed by the model runner are the ones the property requires ------------------- *)
Definition obs_eqb (a b : N * N * bool) : bool :=
  (fst (fst a) =? fst (fst b)) && (snd (fst a) =? snd (fst b)) && Bool.eqb (snd a) (snd b).
Lemma obs_eqb_eq a b : obs_eqb a b = true -> a = b.
Proof.
  destruct a as [[a1 a2] a3], b as [[b1 b2] b3]. unfold obs_eqb. cbn [fst snd].
  rewrite !andb_true_iff. intros [[H1 H2] H3]. apply N.eqb_eq in H1, H2. apply Bool.eqb_prop in H3. congruence.
Qed.

Theorem required_is_actual_lemma : forall run,
  wire_dispatch_req run = wire_dispatch run /\ pwb_dispatch_req run = pwb_dispatch run
  /\ wire_table_obs_req (wire_dispatch run) = wire_table_obs (wire_dispatch run)
  /\ pad_table_obs_req (pwb_dispatch run) = pad_table_obs (pwb_dispatch run).
Proof.
  assert (forallb (fun q => (q =? sim_run) || optNN_eqb (wire_dispatch_req q) (wire_dispatch q)) probe_runs = true)
    as FW by (vm_cast_no_check (eq_refl true)).
  assert (forallb (fun q => (q =? sim_run) || optN_eqb (pwb_dispatch_req q) (pwb_dispatch q)) probe_runs = true)
    as FP by (vm_cast_no_check (eq_refl true)).
  assert (forallb (fun d => let t := wire_table d in
                            obs_eqb (table_obs_req gen_TPC_ANODE_WIRES t) (table_obs gen_TPC_ANODE_WIRES t))
                  (dedup optNN_eqb (map wire_dispatch probe_runs)) = true) as OW by (vm_cast_no_check (eq_refl true)).
  assert (forallb (fun d => let t := pad_table d in obs_eqb (table_obs_req gen_TPC_PADS t) (table_obs gen_TPC_PADS t))
                  (dedup optN_eqb (map pwb_dispatch probe_runs)) = true) as OP by (vm_cast_no_check (eq_refl true)).
  intro run. repeat split.
  - destruct (N.eq_dec run sim_run) as [->|NE]; [vm_compute; reflexivity|].
    rewrite (wire_req_rep run NE), (wire_dispatch_rep run).
    rewrite forallb_forall in FW. specialize (FW _ (rep_in all_points run)). cbv beta in FW.
    replace (rep all_points run =? sim_run) with false in FW
      by (symmetry; apply N.eqb_neq; apply rep_not_sim; exact NE).
    apply optNN_eqb_eq. exact FW.
  - destruct (N.eq_dec run sim_run) as [->|NE]; [vm_compute; reflexivity|].
    rewrite (pwb_req_rep run NE), (pwb_dispatch_rep run).
    rewrite forallb_forall in FP. specialize (FP _ (rep_in all_points run)). cbv beta in FP.
    replace (rep all_points run =? sim_run) with false in FP
      by (symmetry; apply N.eqb_neq; apply rep_not_sim; exact NE).
    apply optN_eqb_eq. exact FP.
  - apply obs_eqb_eq.
    apply (forallb_dedup optNN_eqb (fun d => let t := wire_table d in
             obs_eqb (table_obs_req gen_TPC_ANODE_WIRES t) (table_obs gen_TPC_ANODE_WIRES t)) _ optNN_eqb_eq OW).
    rewrite wire_dispatch_rep. apply in_map. apply rep_in.
  - apply obs_eqb_eq.
    apply (forallb_dedup optN_eqb (fun d => let t := pad_table d in
             obs_eqb (table_obs_req gen_TPC_PADS t) (table_obs gen_TPC_PADS t)) _ optN_eqb_eq OP).
    rewrite pwb_dispatch_rep. apply in_map. apply rep_in.
Qed.
