(* Run-number dispatch: the generic interpreter of the `match run_number { .. }` arms that the translator
   (tools/genx_maps.py) writes into Gen/WireMaps.v and Gen/PadMaps.v in source order.
   Definitions only. *)
From AG Require Import Base.Prelude.

(* patterns the translator knows: a literal (`u32::MAX`, `123`), a half-open range `k..`, and `_` *)
Inductive rpat := PEq (n : N) | PGe (n : N) | PAny.

Definition pat_matches (p : rpat) (run : N) : bool :=
  match p with
  | PEq n => run =? n
  | PGe n => n <=? run
  | PAny => true
  end.

(* first matching arm, as Rust's `match`; a body `return Err(..)` is None.
   (rustc checks exhaustiveness; falling off the end is None here) *)
Fixpoint dispatch {A} (arms : list (rpat * option A)) (run : N) : option A :=
  match arms with
  | [] => None
  | (p, b) :: rest => if pat_matches p run then b else dispatch rest run
  end.

(* the run numbers at which the arms can change their answer *)
Definition pat_points (p : rpat) : list N :=
  match p with
  | PEq n => [n; n + 1]
  | PGe n => [n]
  | PAny => []
  end.
Definition arm_points {A} (arms : list (rpat * option A)) : list N :=
  flat_map (fun a => pat_points (fst a)) arms.

(* representative of a run number: the largest point below or at it (0 when there is none) *)
Fixpoint rep (pts : list N) (run : N) : N :=
  match pts with
  | [] => 0
  | p :: rest => if p <=? run then N.max p (rep rest run) else rep rest run
  end.

(* the smallest lower bound of a `k..` arm that yields a map / the literal arms that yield one *)
Fixpoint first_threshold {A} (arms : list (rpat * option A)) : option N :=
  match arms with
  | [] => None
  | (PGe n, Some _) :: rest =>
      match first_threshold rest with Some m => Some (N.min n m) | None => Some n end
  | _ :: rest => first_threshold rest
  end.

(* ---- the dispatch the table names document ------------------------------------------------------------- *)
(* A table named X_<k> is "the map as of run k (included)": it applies from run k up to the next table's first run.
   doc_arms builds that dispatch from the first runs alone (table index = position), as arms for `dispatch`. *)
Fixpoint tag_from (i : N) (l : list N) : list (N * N) :=
  match l with [] => [] | k :: r => (k, i) :: tag_from (i + 1) r end.
Fixpoint insert_desc (x : N * N) (l : list (N * N)) : list (N * N) :=
  match l with
  | [] => [x]
  | y :: r => if fst y <=? fst x then x :: l else y :: insert_desc x r
  end.
Definition sort_desc (l : list (N * N)) : list (N * N) := fold_right insert_desc [] l.
Definition doc_arms (first_runs : list N) : list (rpat * option N) :=
  map (fun ki => (PGe (fst ki), Some (snd ki))) (sort_desc (tag_from 0 first_runs)) ++ [(PAny, None)].
