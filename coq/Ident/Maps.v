(* C08 -- channel maps: wire position = f(run, board, channel), pad position = f(run, board, chip, pad channel),
   wire <-> pad column association, as executable functions over the tables and match arms that the
   translator regenerates from /repo (Gen/WireMaps.v, Gen/PadMaps.v).  Definitions only. *)
From Coq Require Import Sorting.Mergesort Orders.
From AG Require Import Base.Prelude Base.Res Base.Bytes Ident.Dispatch Ident.Names
  Gen.Boards Gen.WireMaps Gen.PadMaps.

(* ---- HashMap built by inserting rows in order: a later row with the same key replaces an earlier one ---- *)
Fixpoint hm_get {K V} (eqb : K -> K -> bool) (k : K) (rows : list (K * V)) (acc : option V) : option V :=
  match rows with
  | [] => acc
  | (k', v) :: r => hm_get eqb k r (if eqb k k' then Some v else acc)
  end.
Definition opt_eqb (a b : option N) : bool :=
  match a, b with Some x, Some y => x =? y | _, _ => false end.
Definition is_some {A} (o : option A) : bool := match o with Some _ => true | None => false end.

(* ============================ anode wires (aw_map.rs) ============================================= *)
Definition sim_run : N := 4294967295.        (* u32::MAX *)

(* aw_map.rs:163-177: the two `match run_number`; Err when either has no map *)
Definition wire_dispatch (run : N) : option (N * N) :=
  match dispatch preamp_arms run with
  | None => None
  | Some p => match dispatch channel_arms run with None => None | Some c => Some (p, c) end
  end.

(* aw_map.rs:41 preamps_map: keys are BoardId::try_from(name).unwrap() -- a name that is not an Alpha16 board
   poisons the lazy_static (every later use panics) *)
Definition preamp_keys_ok (pm : list (list N * (N * N))) : bool :=
  forallb (fun r => is_some (find_a16 (fst r))) pm.
Definition preamp_rows (pm : list (list N * (N * N))) : list (option N * (N * N)) :=
  map (fun r => (find_a16 (fst r), snd r)) pm.

Fixpoint find_arm (arms : list (N * N * (N * N * N))) (mc : N) : option (N * N * N) :=
  match arms with
  | [] => None
  | (lo, hi, body) :: r => if (lo <=? mc) && (mc <=? hi) then Some body else find_arm r mc
  end.

(* aw_map.rs:179-192 for given maps; board = row of ALPHA16BOARDS, ch = Adc32ChannelId *)
Definition wire_position_in (pm : list (list N * (N * N))) (cm : list N) (board ch : N) : res N :=
  if negb (preamp_keys_ok pm) then Panic
  else
    do pp <- or_err (hm_get opt_eqb (Some board) (preamp_rows pm) None) 2;   (* BoardIdNotFound *)
    do mc <- idx cm ch;                                                       (* channel_map[channel_id.0] *)
    match find_arm wire_pos_arms mc with
    | None => Panic                                                           (* unreachable!() *)
    | Some (which, mul, sub) =>
        if mc <? sub then Panic                                               (* usize subtraction *)
        else Ok ((if which =? 1 then fst pp else snd pp) * mul + (mc - sub))
    end.

Definition wire_position_d (d : option (N * N)) (board ch : N) : res N :=
  match d with
  | None => Err 1                                                             (* Missing{Preamp,Wire}Map *)
  | Some (p, c) =>
      do pm <- unwrap (nthN preamp_tables p);
      do cm <- unwrap (nthN channel_tables c);
      wire_position_in pm cm board ch
  end.
(* TpcWirePosition::try_new *)
Definition wire_position (run board ch : N) : res N := wire_position_d (wire_dispatch run) board ch.

(* boards installed in a preamp table, as rows of ALPHA16BOARDS *)
Definition wire_boards (p : N) : list N :=
  match nthN preamp_tables p with
  | None => []
  | Some pm => flat_map (fun r => match find_a16 (fst r) with Some b => [b] | None => [] end) pm
  end.

(* ============================ pads (padwing/map.rs) ================================================= *)
Definition pwb_dispatch (run : N) : option N := dispatch pwb_arms run.

(* padwing/map.rs:106 inverse_pwb_map: rows (key, (column, row)) in insertion order *)
Definition pwb_rows (tbl : list (list (list N))) : list (option N * (N * N)) :=
  flat_map (fun ic => map (fun jr => (find_pwb (snd jr), (fst ic, fst jr))) (enum (snd ic))) (enum tbl).
(* the unwraps inside inverse_pwb_map: every name is a PadWing board, column < TPC_PWB_COLUMNS, row < TPC_PWB_ROWS *)
Definition pwb_rows_ok (tbl : list (list (list N))) : bool :=
  forallb (fun r => is_some (fst r) && (fst (snd r) <? gen_TPC_PWB_COLUMNS) && (snd (snd r) <? gen_TPC_PWB_ROWS))
          (pwb_rows tbl).

(* the lazy_static INV_PADWING_BOARDS_<x>: built once; a failing unwrap poisons it *)
Definition pwb_map (tbl : list (list (list N))) : res (list (option N * (N * N))) :=
  if negb (pwb_rows_ok tbl) then Panic else Ok (pwb_rows tbl).

(* TpcPwbPosition::try_new (padwing/map.rs:186) for a given map *)
Definition pwb_position_in (m : list (option N * (N * N))) (board : N) : res (N * N) :=
  or_err (hm_get opt_eqb (Some board) m None) 2.                            (* BoardIdNotFound *)

(* PwbPadPosition::try_new (padwing/map.rs:381): INV_PADS_0.get(&(after, channel)).unwrap() *)
Definition pad_in_pwb (after ch : N) : res (N * N) :=
  unwrap (hm_get (fun a b => (fst a =? fst b) && (snd a =? snd b)) (after, ch) inv_pads_0 None).

(* TpcPadPosition::new (padwing/map.rs:569): the two try_from(..).unwrap() *)
Definition pad_combine (bp pp : N * N) : res (N * N) :=
  let col := fst bp * gen_PWB_PAD_COLUMNS + fst pp in
  let row := snd bp * gen_PWB_PAD_ROWS + snd pp in
  if negb (col <? gen_TPC_PAD_COLUMNS) then Panic
  else if negb (row <? gen_TPC_PAD_ROWS) then Panic
  else Ok (col, row).

(* the map selected by `match run_number` *)
Definition pad_ctx (d : option N) : res (list (option N * (N * N))) :=
  match d with
  | None => Err 1                                                             (* MissingMap *)
  | Some t => do tbl <- unwrap (nthN pwb_tables t); pwb_map tbl
  end.
Definition pad_position_c (ctx : res (list (option N * (N * N)))) (board after ch : N) : res (N * N) :=
  do m <- ctx;
  do bp <- pwb_position_in m board;
  do pp <- pad_in_pwb after ch;
  pad_combine bp pp.
Definition pad_position_d (d : option N) := pad_position_c (pad_ctx d).
(* TpcPadPosition::try_new (padwing/map.rs:598); after in gen_after_ids, ch a PadChannelId *)
Definition pad_position (run board after ch : N) : res (N * N) := pad_position_d (pwb_dispatch run) board after ch.

Definition pwb_installed (t : N) : list N :=
  match nthN pwb_tables t with
  | None => []
  | Some tbl => flat_map (fun r => match fst r with Some b => [b] | None => [] end) (pwb_rows tbl)
  end.
Definition pad_channels : list N :=
  map (fun k => gen_pad_channel_lo + k) (rangeN (gen_pad_channel_hi + 1 - gen_pad_channel_lo)).

(* ============================ wire <-> pad column (physics/src/matching.rs) ========================== *)
Definition wrapping_sub64 (a b : N) : N := (a + 2 ^ 64 - b) mod 2 ^ 64.
(* matching.rs:21 *)
Definition wire_to_pad_column (wire : N) : N :=
  N.land (wrapping_sub64 wire gen_WIRE_SHIFT) gen_w2c_mask / gen_WIRES_PER_COLUMN.
(* matching.rs:35: first .. first + WIRES_PER_COLUMN *)
Definition pad_column_first (c : N) : N := N.land (c * gen_WIRES_PER_COLUMN + gen_WIRE_SHIFT) gen_c2w_mask.
Definition pad_column_to_wires (c : N) : list N :=
  map (fun k => pad_column_first c + k) (rangeN gen_WIRES_PER_COLUMN).

(* geometry (aw_map.rs:209, padwing/map.rs:476), exact:
     phi(wire w)   = (2 s + 1) * pi / TPC_ANODE_WIRES   with s = (w - shift) land mask
     column c covers [2 c * pi / TPC_PAD_COLUMNS, (2 c + 2) * pi / TPC_PAD_COLUMNS) (centre (2c+1) pi / TPC_PAD_COLUMNS) *)
Definition wire_phi_index (w : N) : N := N.land (wrapping_sub64 w gen_wire_phi_shift) gen_wire_phi_mask.
Definition wire_phi_num (w : N) : N := 2 * wire_phi_index w + 1.
(* wire w lies in the phi interval of column c, compared after multiplying out the denominators *)
Definition wire_in_column (w c : N) : bool :=
  (2 * c * gen_TPC_ANODE_WIRES <=? wire_phi_num w * gen_TPC_PAD_COLUMNS)
  && (wire_phi_num w * gen_TPC_PAD_COLUMNS <? (2 * c + 2) * gen_TPC_ANODE_WIRES).

(* ============================ finite checks (used by the theorems and by the differential) =========== *)
Module NOrder <: TotalLeBool.
  Definition t := N.
  Definition leb := N.leb.
  Theorem leb_total : forall a1 a2, leb a1 a2 = true \/ leb a2 a1 = true.
  Proof. intros a b. unfold leb. destruct (N.leb_spec a b); [left; reflexivity|right]. apply N.leb_le. lia. Qed.
End NOrder.
Module NSort := Sort NOrder.

(* the values are exactly 0 .. n-1, each once *)
Definition perm_of_range (n : N) (vals : list N) : bool := list_eqb (NSort.sort vals) (rangeN n).

Definition wire_domain (p : N) : list (N * N) :=
  flat_map (fun b => map (fun ch => (b, ch)) (rangeN 32)) (wire_boards p).
Definition res_val (r : res N) (bad : N) : N := match r with Ok v => v | _ => bad end.
Definition wire_values (id : N * N) : list N :=
  map (fun bc => res_val (wire_position_d (Some id) (fst bc) (snd bc)) gen_TPC_ANODE_WIRES) (wire_domain (fst id)).
Definition wire_bij_check (id : N * N) : bool :=
  perm_of_range gen_TPC_ANODE_WIRES (wire_values id).

Definition pad_domain (t : N) : list (N * (N * N)) :=
  flat_map (fun b => flat_map (fun a => map (fun ch => (b, (a, ch))) pad_channels) gen_after_ids) (pwb_installed t).
Definition pad_index (r : res (N * N)) : N :=
  match r with Ok (c, w) => if w <? gen_TPC_PAD_ROWS then c * gen_TPC_PAD_ROWS + w else gen_TPC_PADS | _ => gen_TPC_PADS end.
Definition pad_values (t : N) : list N :=
  let ctx := pad_ctx (Some t) in
  map (fun x => pad_index (pad_position_c ctx (fst x) (fst (snd x)) (snd (snd x)))) (pad_domain t).
Definition pad_bij_check (t : N) : bool := perm_of_range gen_TPC_PADS (pad_values t).

(* ---- observations for the differential check ------------------------------------------------------ *)
(* polynomial rolling hash mod 2^61 - 1 (the harness implements the same) *)
Definition hash_p : N := 2305843009213693951.
Definition hash_step (h v : N) : N := (h * 1000003 + v + 1) mod hash_p.
Definition hash_list (l : list N) : N := fold_left hash_step l 0.

(* candidate board names in canonical order: all two-character strings over 0-9 A-Z, ascending *)
Definition name_alphabet : list N := map (fun k => 48 + k) (rangeN 10) ++ map (fun k => 65 + k) (rangeN 26).
Definition candidate_names : list (list N) := flat_map (fun a => map (fun b => [a; b]) name_alphabet) name_alphabet.
Definition a16_known : list N := flat_map (fun n => match find_a16 n with Some b => [b] | None => [] end) candidate_names.
Definition pwb_known : list N := flat_map (fun n => match find_pwb n with Some b => [b] | None => [] end) candidate_names.

(* complete table of a dispatch result: one entry per (known board, channel) in canonical order;
   entry = position, or the number of positions for Err, or that + 1 for Panic *)
Definition res_code (r : res N) (n : N) : N := match r with Ok v => v | Err _ => n | Panic => n + 1 end.
Definition wire_table (d : option (N * N)) : list N :=
  flat_map (fun b => map (fun ch => res_code (wire_position_d d b ch) gen_TPC_ANODE_WIRES) (rangeN 32)) a16_known.
Definition pad_code (r : res (N * N)) : res N :=
  match r with Ok (c, w) => Ok (c * gen_TPC_PAD_ROWS + w) | Err k => Err k | Panic => Panic end.
Definition pad_table (d : option N) : list N :=
  let ctx := pad_ctx d in
  flat_map (fun b => flat_map (fun a => map (fun ch => res_code (pad_code (pad_position_c ctx b a ch)) gen_TPC_PADS)
                                            pad_channels) gen_after_ids) pwb_known.
(* (number of Ok entries, hash of the table, the Ok entries are each position exactly once) *)
Definition table_obs (n : N) (tbl : list N) : N * N * bool :=
  let oks := filter (fun v => v <? n) tbl in
  (lenN oks, hash_list tbl, perm_of_range n oks).
Definition wire_table_obs (d : option (N * N)) := table_obs gen_TPC_ANODE_WIRES (wire_table d).
Definition pad_table_obs (d : option N) := table_obs gen_TPC_PADS (pad_table d).

(* single lookups as the harness performs them: None when the ids cannot be constructed through the public API *)
Definition wpos_obs (run : N) (name : list N) (ch : N) : option (res N) :=
  match find_a16 name, adc32_channel ch with
  | Some b, Some c => Some (wire_position run b c)
  | _, _ => None
  end.
Definition ppos_obs (run : N) (name : list N) (after ch : N) : option (res (N * N)) :=
  match find_pwb name with
  | Some b =>
      if existsb (N.eqb after) gen_after_ids && (gen_pad_channel_lo <=? ch) && (ch <=? gen_pad_channel_hi)
      then Some (pad_position run b after ch) else None
  | None => None
  end.
Definition wcol_obs (w : N) : option (N * N) :=
  if w <? gen_TPC_ANODE_WIRES then Some (wire_phi_index w, wire_to_pad_column w) else None.

(* ---- what the property REQUIRES of a run number (model side of the differential) ------------------------ *)
(* thresholds computed from the generated arms: the smallest `k..` arm that yields a map *)
Definition wire_first_threshold : N :=
  match first_threshold preamp_arms, first_threshold channel_arms with
  | Some a, Some b => N.max a b
  | _, _ => 0
  end.
Definition pad_first_threshold : N :=
  match first_threshold pwb_arms with Some a => a | None => 0 end.


(* C08: each table applies from the run its name documents until the next table's first run, runs before the first
   map are errors, the simulation run maps like run 5000, and a selected map is a bijection.  Maps_proofs.v proves
   that these "required" versions coincide with the model of the source arms (required_is_actual); the runner prints
   the required ones, so that if a regenerated arm or table breaks a theorem, the differential run names the run
   number on which the implementation departs from the property. *)
Definition preamp_doc_arms := doc_arms preamp_table_runs.
Definition channel_doc_arms := doc_arms channel_table_runs.
Definition pwb_doc_arms := doc_arms pwb_table_runs.
(* the simulation run number stands for run 5000 *)
Definition doc_run (run : N) : N := if run =? sim_run then 5000 else run.
(* the dispatch that the table names document -- independent of the `match run_number` arms *)
Definition wire_dispatch_req (run : N) : option (N * N) :=
  match dispatch preamp_doc_arms (doc_run run) with
  | None => None
  | Some p => match dispatch channel_doc_arms (doc_run run) with None => None | Some c => Some (p, c) end
  end.
Definition pwb_dispatch_req (run : N) : option N := dispatch pwb_doc_arms (doc_run run).
Definition table_obs_req (n : N) (tbl : list N) : N * N * bool :=
  let oks := filter (fun v => v <? n) tbl in
  (lenN oks, hash_list tbl, negb (lenN oks =? 0)).
Definition wire_table_obs_req (d : option (N * N)) := table_obs_req gen_TPC_ANODE_WIRES (wire_table d).
Definition pad_table_obs_req (d : option N) := table_obs_req gen_TPC_PADS (pad_table d).
Definition wpos_obs_req (run : N) (name : list N) (ch : N) : option (res N) :=
  match find_a16 name, adc32_channel ch with
  | Some b, Some c => Some (wire_position_d (wire_dispatch_req run) b c)
  | _, _ => None
  end.
Definition ppos_obs_req (run : N) (name : list N) (after ch : N) : option (res (N * N)) :=
  match find_pwb name with
  | Some b =>
      if existsb (N.eqb after) gen_after_ids && (gen_pad_channel_lo <=? ch) && (ch <=? gen_pad_channel_hi)
      then Some (pad_position_d (pwb_dispatch_req run) b after ch) else None
  | None => None
  end.
