(* Proofs about the model of alpha-g-chronobox-timestamps (Apps/CbTime.v) and the hardware model (Apps/CbHardware.v). *)
From AG Require Import Base.Prelude Base.Res Base.Bytes Base.Mask Codec.Chrono Codec.Chrono_proofs
  Apps.CbTime Apps.CbHardware.

(* ================================================================================================
   1. the row loops (split_inclusive / split_last / previous_marker threading) = rows_spec
   ================================================================================================ *)
Definition is_ts (e : entry) : bool := negb (is_mk e).

Lemma split_inclusive_nil {A} (f : A -> bool) l : split_inclusive f l = [] -> l = [].
Proof.
  destruct l as [|x t]; [reflexivity|]. cbn [split_inclusive].
  destruct (f x); [discriminate|]. destruct (split_inclusive f t); discriminate.
Qed.

(* the first chunk: non-empty, everything before its last element is a timestamp, and its last element is the first
   marker of the list if there is one *)
Lemma si_first : forall l c cs, split_inclusive is_mk l = c :: cs ->
  exists last init, split_last c = Some (last, init) /\ forallb is_ts init = true /\
    match last with
    | MK top cn => first_mk l = Some (top, cn)
    | TS _ _ _ => first_mk l = None /\ forallb is_ts c = true
    end.
Proof.
  induction l as [|x t IH]; intros c cs; cbn [split_inclusive]; [discriminate|].
  destruct x as [ch tr ts|top cn]; cbn [is_mk].
  - destruct (split_inclusive is_mk t) as [|c' cs'] eqn:Es.
    + intros [= <- <-]. apply split_inclusive_nil in Es. subst t.
      exists (TS ch tr ts), []. cbn. auto.
    + intros [= <- <-]. destruct (IH c' cs' eq_refl) as (last & init & Hl & Hi & Hm).
      exists last, (TS ch tr ts :: init). cbn [split_last]. rewrite Hl. split; [reflexivity|].
      split; [cbn; assumption|]. cbn [first_mk]. destruct last; [|assumption].
      destruct Hm as [Hm1 Hm2]. split; [assumption|]. cbn. assumption.
  - intros [= <- <-]. exists (MK top cn), []. cbn. auto.
Qed.

Lemma chunk_rows_cons b p n ch tr ts t :
  chunk_rows b p n (TS ch tr ts :: t) =
  do rs <- chunk_rows b p n t; Ok (Row b ch (negb tr) (chronobox_time ts p n) :: rs).
Proof. reflexivity. Qed.

Lemma split_last_cons {A} (x : A) c last init :
  split_last c = Some (last, init) -> split_last (x :: c) = Some (last, x :: init).
Proof. intros H. cbn [split_last]. rewrite H. reflexivity. Qed.

Theorem chunks_rows_spec : forall b l previous,
  chunks_rows b previous (split_inclusive is_mk l) = Ok (rows_spec b previous l).
Proof.
  induction l as [|x t IH]; intros previous; [reflexivity|].
  cbn [split_inclusive]. destruct x as [ch tr ts|top cn]; cbn [is_mk].
  - destruct (split_inclusive is_mk t) as [|c cs] eqn:Es.
    + apply split_inclusive_nil in Es. subst t. reflexivity.
    + destruct (si_first t c cs Es) as (last & init & Hl & Hi & Hm).
      specialize (IH previous). cbn [chunks_rows] in IH |- *. rewrite Hl in IH.
      rewrite (split_last_cons _ _ _ _ Hl). cbn [rows_spec].
      destruct last as [ch' tr' ts'|top' cn'].
      * destruct Hm as [Hm Hc]. rewrite Hm.
        rewrite chunk_rows_cons.
        destruct (chunk_rows b previous None c) as [rs| |] eqn:E1; cbn [bind] in IH |- *; try discriminate IH.
        destruct (chunks_rows b None cs) as [rs'| |] eqn:E2; cbn [bind] in IH |- *; try discriminate IH.
        injection IH as IH. rewrite <- IH. reflexivity.
      * rewrite Hm. rewrite chunk_rows_cons.
        destruct (chunk_rows b previous (Some (top', cn')) init) as [rs| |] eqn:E1; cbn [bind] in IH |- *;
          try discriminate IH.
        destruct (chunks_rows b (Some (top', cn')) cs) as [rs'| |] eqn:E2; cbn [bind] in IH |- *; try discriminate IH.
        injection IH as IH. rewrite <- IH. reflexivity.
  - cbn [chunks_rows split_last chunk_rows bind rows_spec]. rewrite IH. reflexivity.
Qed.

Corollary board_rows_spec b fifo : board_rows b fifo = Ok (rows_spec b None fifo).
Proof. apply chunks_rows_spec. Qed.

(* ---------- one row per timestamp entry, in order, with the right board / channel / edge ---------- *)


Lemma rows_spec_keys b : forall l previous, map row_key (rows_spec b previous l) = ts_keys b l.
Proof.
  induction l as [|[ch tr ts|top c] t IH]; intros previous; cbn [rows_spec ts_keys map]; [reflexivity| |apply IH].
  rewrite IH. reflexivity.
Qed.

Lemma rows_spec_length b : forall l previous, length (rows_spec b previous l) = count_ts l.
Proof.
  induction l as [|[ch tr ts|top c] t IH]; intros previous; cbn [rows_spec count_ts length]; auto.
Qed.

(* the row of a timestamp entry: its time is computed from the LAST marker before it and the FIRST marker after it *)
Lemma rows_spec_nth b : forall l1 previous ch tr ts l2,
  nth_error (rows_spec b previous (l1 ++ TS ch tr ts :: l2)) (count_ts l1) =
  Some (Row b ch (negb tr) (chronobox_time ts (last_mk previous l1) (first_mk l2))).
Proof.
  induction l1 as [|[ch' tr' ts'|top c] t IH]; intros previous ch tr ts l2; cbn [app rows_spec count_ts last_mk nth_error].
  - reflexivity.
  - apply IH.
  - apply IH.
Qed.

(* ================================================================================================
   2. chronobox_time: value and emptiness
   ================================================================================================ *)
(* two consecutive, consistent markers: counters differ by one and the top bits alternate *)
Definition enclosed (previous next : option marker) : Prop :=
  exists ptop pcnt ntop, previous = Some (ptop, pcnt) /\ next = Some (ntop, pcnt + 1) /\ ntop <> ptop.
Definition ts_top (ts : N) : bool := ts / 8388608 =? 1.

Lemma chronobox_time_some ts previous next t :
  chronobox_time ts previous next = Some t <->
  exists ptop pcnt ntop, previous = Some (ptop, pcnt) /\ next = Some (ntop, pcnt + 1) /\ ntop <> ptop /\ ts_top ts <> ptop /\ t = ts + (pcnt + 1) / 2 * 16777216.
Proof.
  unfold chronobox_time, ts_top, TIMESTAMP_BITS. change (2 ^ (24 - 1)) with 8388608. change (2 ^ 24) with 16777216.
  split.
  - destruct previous as [[ptop pcnt]|]; [|discriminate]. destruct next as [[ntop ncnt]|]; [|discriminate].
    destruct (N.eqb_spec (pcnt + 1) ncnt) as [En|En]; cbn [andb]; [|discriminate].
    destruct (Bool.eqb ptop ntop) eqn:Eb; cbn [negb]; [discriminate|].
    destruct (Bool.eqb (ts / 8388608 =? 1) ptop) eqn:Et; cbn [negb]; [discriminate|].
    intros [= <-]. exists ptop, pcnt, ntop. subst ncnt.
    apply eqb_false_iff in Eb. apply eqb_false_iff in Et. repeat split; auto.
  - intros (ptop & pcnt & ntop & -> & -> & Hn & Ht & ->).
    rewrite N.eqb_refl. cbn [andb].
    replace (Bool.eqb ptop ntop) with false by (symmetry; apply eqb_false_iff; congruence).
    replace (Bool.eqb (ts / 8388608 =? 1) ptop) with false by (symmetry; apply eqb_false_iff; assumption).
    reflexivity.
Qed.

Theorem chronobox_time_none_iff ts previous next :
  chronobox_time ts previous next = None <->
  ~ enclosed previous next \/ (exists ptop pcnt, previous = Some (ptop, pcnt) /\ ts_top ts = ptop).
Proof.
  split.
  - intros Hn. destruct previous as [[ptop pcnt]|].
    2:{ left. intros (a & b & c & H & _). discriminate. }
    destruct (bool_dec (ts_top ts) ptop) as [Ht|Ht]; [right; eauto|].
    left. intros (a & b & c & [= <- <-] & -> & Hc).
    assert (chronobox_time ts (Some (ptop, pcnt)) (Some (c, pcnt + 1)) = Some (ts + (pcnt + 1) / 2 * 16777216)) as Hs.
    { apply chronobox_time_some. exists ptop, pcnt, c. auto. }
    congruence.
  - intros H. destruct (chronobox_time ts previous next) as [t|] eqn:E; [|reflexivity]. exfalso.
    apply chronobox_time_some in E. destruct E as (ptop & pcnt & ntop & -> & -> & Hn & Ht & _).
    destruct H as [H|(a & b & [= <- <-] & H)].
    + apply H. exists ptop, pcnt, ntop. auto.
    + congruence.
Qed.

(* ================================================================================================
   3. one board: parse, skip to the counter-0 marker, first-marker check; failure conditions
   ================================================================================================ *)
Lemma position_from_first {A} (f : A -> bool) : forall l,
  match position f l with
  | Some i => from_first f l = Some (skipn i l)
  | None => from_first f l = None
  end.
Proof.
  induction l as [|x t IH]; cbn [position from_first]; [reflexivity|].
  destruct (f x); [reflexivity|]. destruct (position f t); cbn [skipn]; assumption.
Qed.

Lemma from_first_head {A} (f : A -> bool) : forall l s, from_first f l = Some s ->
  exists x t, s = x :: t /\ f x = true.
Proof.
  induction l as [|x t IH]; cbn [from_first]; intros s; [discriminate|].
  destruct (f x) eqn:E; [intros [= <-]; eauto|apply IH].
Qed.

Lemma from_first_none {A} (f : A -> bool) : forall l, from_first f l = None <-> forallb (fun x => negb (f x)) l = true.
Proof.
  induction l as [|x t IH]; cbn [from_first forallb]; [tauto|].
  destruct (f x); cbn [negb andb]; [split; discriminate|assumption].
Qed.

(* the suffix found is really a suffix, and nothing before it is a counter-0 marker *)
Lemma from_first_split {A} (f : A -> bool) : forall l s, from_first f l = Some s ->
  exists pre, l = pre ++ s /\ forallb (fun x => negb (f x)) pre = true.
Proof.
  induction l as [|x t IH]; cbn [from_first]; intros s; [discriminate|].
  destruct (f x) eqn:E.
  - intros [= <-]. exists []. split; reflexivity.
  - intros H. destruct (IH s H) as (pre & -> & Hp). exists (x :: pre). split; [reflexivity|].
    cbn [forallb]. rewrite E. assumption.
Qed.

(* cb_board_fifo as a function of the parse result *)
Lemma cb_board_fifo_eq buffer :
  cb_board_fifo buffer =
  match cb_fifo buffer with
  | (_, _ :: _) => Err E_BAD_FIFO
  | (fifo, []) =>
      match from_first is_mk0 fifo with
      | None => Err E_NO_EPOCH0
      | Some (MK true _ :: _) => Err E_BAD_FIRST
      | Some f => Ok f
      end
  end.
Proof.
  unfold cb_board_fifo. destruct (cb_fifo buffer) as [fifo input]. destruct input; [|reflexivity].
  pose proof (position_from_first is_mk0 fifo) as H. destruct (position is_mk0 fifo) as [i|]; rewrite H; [|reflexivity].
  destruct (from_first_head _ _ _ H) as (x & t & Hs & Hx). rewrite Hs.
  destruct x as [? ? ?|top c]; [discriminate|]. destruct top; reflexivity.
Qed.

Theorem cb_board_fifo_ok buffer f :
  cb_board_fifo buffer = Ok f <->
  exists es t, cb_fifo buffer = (es, []) /\ from_first is_mk0 es = Some f /\ f = MK false 0 :: t.
Proof.
  rewrite cb_board_fifo_eq. destruct (cb_fifo buffer) as [fifo input]. split.
  - destruct input; [|discriminate]. destruct (from_first is_mk0 fifo) as [s|] eqn:Ef; [|discriminate].
    destruct (from_first_head _ _ _ Ef) as (x & t & -> & Hx).
    destruct x as [? ? ?|top c]; [discriminate|]. cbn [is_mk0] in Hx. apply N.eqb_eq in Hx. subst c.
    destruct top; [discriminate|]. intros [= <-]. eauto.
  - intros (es & t & [= -> ->] & -> & ->). reflexivity.
Qed.

Lemma cb_board_fifo_no_panic buffer : cb_board_fifo buffer <> Panic.
Proof.
  rewrite cb_board_fifo_eq. destruct (cb_fifo buffer) as [fifo input]. destruct input; [|discriminate].
  destruct (from_first is_mk0 fifo) as [s|] eqn:Ef; [|discriminate].
  destruct (from_first_head _ _ _ Ef) as (x & t & -> & Hx).
  destruct x as [? ? ?|top c]; [discriminate|]. destruct top; discriminate.
Qed.

(* the parse of  p ++ r  when p is a sequence of complete elements and r does not start with one *)
Lemma cb_fifo_elems p es : Elems p es -> forall r, next r = None -> cb_fifo (p ++ r) = (es, r).
Proof.
  induction 1 as [|b0 b1 b2 b3 e p es Hw _ IH|blk p es Hb _ IH]; intros r Hr.
  - apply cb_stuck_fix. assumption.
  - rewrite cb_step. cbn [app next]. rewrite Hw. rewrite (IH r Hr). reflexivity.
  - rewrite cb_step. cbn [app next]. change (word 60 0 0 254) with (@None entry).
    cbn [N.eqb Pos.eqb andb].
    replace (SCALERS_BODY <=? lenN ((blk ++ p) ++ r)) with true
      by (symmetry; apply N.leb_le; rewrite !lenN_app, Hb; unfold SCALERS_BODY, NUM_INPUT_CHANNELS; lia).
    rewrite <- app_assoc. rewrite (dropN_app_exact blk (p ++ r) SCALERS_BODY) by (rewrite Hb; reflexivity).
    apply IH. assumption.
Qed.

(* --- the three ways a stream can be malformed (property text), each leaves a non-empty remainder --- *)
(* (a) the stream ends inside a 4-byte entry *)
Lemma next_short r : (length r < 4)%nat -> next r = None.
Proof. destruct r as [|b0 [|b1 [|b2 [|b3 t]]]]; cbn [length]; try reflexivity. lia. Qed.
(* (b) the stream ends inside a scaler block *)
Lemma next_partial_scalers t : lenN t < 240 -> next (0x3C :: 0 :: 0 :: 0xFE :: t) = None.
Proof.
  intros H. cbn [next]. change (word 60 0 0 254) with (@None entry). cbn [N.eqb Pos.eqb andb].
  replace (SCALERS_BODY <=? lenN t) with false; [reflexivity|].
  symmetry. apply N.leb_gt. unfold SCALERS_BODY, NUM_INPUT_CHANNELS. lia.
Qed.
(* (c) a word that is neither a timestamp, a marker nor the tag of a scaler block *)
Lemma next_bad_word b0 b1 b2 b3 t :
  word b0 b1 b2 b3 = None -> (b0, b1, b2, b3) <> (0x3C, 0, 0, 0xFE) -> next (b0 :: b1 :: b2 :: b3 :: t) = None.
Proof.
  intros Hw Ht. cbn [next]. rewrite Hw.
  destruct (N.eqb_spec b0 60); destruct (N.eqb_spec b1 0); destruct (N.eqb_spec b2 0); destruct (N.eqb_spec b3 254);
    cbn [andb]; try reflexivity. subst. congruence.
Qed.

Theorem cb_board_fail_remainder p es r :
  Elems p es -> r <> [] -> next r = None -> cb_board_fifo (p ++ r) = Err E_BAD_FIFO.
Proof.
  intros He Hr Hn. rewrite cb_board_fifo_eq, (cb_fifo_elems p es He r Hn). destruct r; [congruence|reflexivity].
Qed.

Theorem cb_board_fail_no_epoch0 p es :
  Elems p es -> forallb (fun e => negb (is_mk0 e)) es = true -> cb_board_fifo p = Err E_NO_EPOCH0.
Proof.
  intros He Hf. rewrite cb_board_fifo_eq. rewrite <- (app_nil_r p), (cb_fifo_elems p es He [] eq_refl).
  apply from_first_none in Hf. rewrite Hf. reflexivity.
Qed.

Theorem cb_board_fail_bad_first p pre c post :
  Elems p (pre ++ MK true c :: post) -> forallb (fun e => negb (is_mk0 e)) pre = true -> c = 0 ->
  cb_board_fifo p = Err E_BAD_FIRST.
Proof.
  intros He Hf ->. rewrite cb_board_fifo_eq. rewrite <- (app_nil_r p), (cb_fifo_elems p _ He [] eq_refl).
  assert (from_first is_mk0 (pre ++ MK true 0 :: post) = Some (MK true 0 :: post)) as ->; [|reflexivity].
  clear He. induction pre as [|x t IH]; [reflexivity|]. cbn [forallb] in Hf. apply andb_true_iff in Hf. destruct Hf as [Hx Hf].
  cbn [app from_first]. destruct (is_mk0 x); [discriminate|]. apply IH. assumption.
Qed.

(* ================================================================================================
   4. all boards; the whole program
   ================================================================================================ *)

Lemma all_rows_spec : forall fs, all_rows fs = Ok (rows_of_fifos fs).
Proof.
  induction fs as [|[b f] fs IH]; [reflexivity|].
  cbn [all_rows rows_of_fifos flat_map fst snd]. rewrite board_rows_spec, IH. reflexivity.
Qed.

(* the per-board results, in the order of the buffers *)
Lemma cb_fifos_ok : forall m fs, cb_fifos m = Ok fs <->
  Forall2 (fun bb bf => fst bf = fst bb /\ cb_board_fifo (snd bb) = Ok (snd bf)) m fs.
Proof.
  induction m as [|[b buf] m IH]; intros fs; cbn [cb_fifos].
  - split; [intros [= <-]; constructor|]. intros H. inversion H. reflexivity.
  - split.
    + destruct (cb_board_fifo buf) as [f| |] eqn:Eb; cbn [bind]; try discriminate.
      destruct (cb_fifos m) as [fs'| |] eqn:Ef; cbn [bind]; try discriminate.
      intros [= <-]. constructor; [split; [reflexivity|assumption]|]. apply IH. reflexivity.
    + intros H. inversion H as [|bb [b' f] m' fs' [Hb Hf] Hr]; subst. cbn [fst snd] in *. subst b'.
      rewrite Hf. cbn [bind]. apply IH in Hr. rewrite Hr. reflexivity.
Qed.

Lemma cb_fifos_no_panic : forall m, cb_fifos m <> Panic.
Proof.
  induction m as [|[b buf] m IH]; cbn [cb_fifos]; [discriminate|].
  pose proof (cb_board_fifo_no_panic buf). destruct (cb_board_fifo buf); cbn [bind]; try congruence.
  destruct (cb_fifos m); cbn [bind]; congruence.
Qed.

Lemma cb_fifos_fail : forall m b buf k, In (b, buf) m -> cb_board_fifo buf = Err k -> exists k', cb_fifos m = Err k'.
Proof.
  induction m as [|[b' buf'] m IH]; intros b buf k Hi He; [destruct Hi|]. cbn [cb_fifos].
  destruct Hi as [[= -> ->]|Hi].
  - rewrite He. cbn [bind]. eauto.
  - pose proof (cb_board_fifo_no_panic buf'). destruct (cb_board_fifo buf'); cbn [bind]; try congruence; eauto.
    destruct (IH b buf k Hi He) as (k' & ->). cbn [bind]. eauto.
Qed.

Theorem cb_program_ok pieces rows :
  cb_program pieces = Ok rows <->
  exists fs, cb_fifos (cb_buffers pieces) = Ok fs /\ rows = rows_of_fifos fs.
Proof.
  unfold cb_program. split.
  - destruct (cb_fifos (cb_buffers pieces)) as [fs| |]; cbn [bind]; try discriminate.
    rewrite all_rows_spec. intros [= <-]. eauto.
  - intros (fs & -> & ->). cbn [bind]. apply all_rows_spec.
Qed.

Theorem cb_program_no_panic pieces : cb_program pieces <> Panic.
Proof.
  unfold cb_program. pose proof (cb_fifos_no_panic (cb_buffers pieces)).
  destruct (cb_fifos (cb_buffers pieces)); cbn [bind]; try congruence. rewrite all_rows_spec. discriminate.
Qed.

Theorem cb_program_fail pieces b buf k :
  In (b, buf) (cb_buffers pieces) -> cb_board_fifo buf = Err k -> exists k', cb_program pieces = Err k'.
Proof.
  intros Hi He. unfold cb_program. destruct (cb_fifos_fail _ _ _ _ Hi He) as (k' & ->). cbn [bind]. eauto.
Qed.

(* ================================================================================================
   5. the hardware model: its stream parses back to its entries
   ================================================================================================ *)
Lemma le32_split hi m : hi < 256 -> m < 16777216 ->
  exists b0 b1 b2, le32 (hi * 16777216 + m) = [b0; b1; b2; hi] /\ b0 < 256 /\ b1 < 256 /\ b2 < 256 /\
    b0 + 256 * b1 + 65536 * b2 = m /\ b0 mod 2 = m mod 2 /\ (128 <=? b2) = (8388608 <=? m).
Proof.
  intros Hh Hm. unfold le32.
  exists ((hi * 16777216 + m) mod 256), ((hi * 16777216 + m) / 256 mod 256), ((hi * 16777216 + m) / 65536 mod 256).
  split; [do 3 f_equal; f_equal; lia|].
  split; [lia|]. split; [lia|]. split; [lia|]. split; [lia|]. split; [lia|].
  destruct (N.leb_spec 8388608 m); [apply N.leb_le | apply N.leb_gt]; lia.
Qed.

Lemma hw_edge_word T ch tr rest : ch < 59 ->
  exists b0 b1 b2 b3, hw_bytes (HEdge T ch tr) ++ rest = b0 :: b1 :: b2 :: b3 :: rest /\
    word b0 b1 b2 b3 = Some (TS ch tr (T mod TURN / 2 * 2)).
Proof.
  intros Hc. cbn [hw_bytes]. unfold edge_word, TURN.
  set (m := T mod 16777216 / 2 * 2 + (if tr then 1 else 0)).
  assert (Hm : m < 16777216) by (subst m; destruct tr; lia).
  destruct (le32_split (128 + ch) m ltac:(lia) Hm) as (b0 & b1 & b2 & Hl & H0 & H1 & H2 & Hs & Hp & _).
  rewrite <- N.add_assoc. fold m. rewrite Hl. exists b0, b1, b2, (128 + ch). split; [reflexivity|].
  rewrite cb_classify_word_lemma by lia. unfold word_spec, temp24.
  replace (128 <=? 128 + ch) with true by (symmetry; apply N.leb_le; lia).
  replace (128 + ch <? 128 + 59) with true by (symmetry; apply N.ltb_lt; lia). cbn [andb].
  f_equal. f_equal.
  - lia.
  - subst m. destruct tr; [apply N.eqb_eq | apply N.eqb_neq]; lia.
  - rewrite Hs. subst m. destruct tr; lia.
Qed.

Lemma oddN_cases c : (oddN c = true /\ c mod 2 = 1) \/ (oddN c = false /\ c mod 2 = 0).
Proof. unfold oddN. destruct (N.eqb_spec (c mod 2) 1); [left|right]; split; auto; lia. Qed.

Lemma hw_marker_word c rest :
  exists b0 b1 b2 b3, hw_bytes (HMarker c) ++ rest = b0 :: b1 :: b2 :: b3 :: rest /\
    word b0 b1 b2 b3 = Some (MK (oddN c) (c mod HALF)).
Proof.
  cbn [hw_bytes]. unfold marker_word, TURN, HALF.
  set (m := (if oddN c then 8388608 else 0) + c mod 8388608).
  assert (Hm : m < 16777216) by (subst m; destruct (oddN c); lia).
  destruct (le32_split 255 m ltac:(lia) Hm) as (b0 & b1 & b2 & Hl & H0 & H1 & H2 & Hs & _ & Ht).
  rewrite <- N.add_assoc. fold m. rewrite Hl. exists b0, b1, b2, 255. split; [reflexivity|].
  rewrite cb_classify_word_lemma by lia. unfold word_spec, temp24.
  change ((128 <=? 255) && (255 <? 128 + 59)) with false. change (255 =? 255) with true. cbn iota.
  rewrite Hs, Ht. f_equal. f_equal.
  - subst m. destruct (oddN c); [apply N.leb_le | apply N.leb_gt]; lia.
  - subst m. destruct (oddN c); lia.
Qed.

Lemma hw_elems : forall evs k, hw_wf k evs -> Elems (hw_stream evs) (hw_entries evs).
Proof.
  induction evs as [|ev r IH]; intros k Hw; cbn [hw_stream hw_entries]; [constructor|].
  destruct ev as [T ch tr|c|body]; cbn [hw_wf] in Hw.
  - destruct Hw as (Hc & _ & _ & Hw).
    destruct (hw_edge_word T ch tr (hw_stream r) Hc) as (b0 & b1 & b2 & b3 & -> & Hword).
    econstructor; [exact Hword|]. eapply IH; eassumption.
  - destruct Hw as (_ & _ & Hw).
    destruct (hw_marker_word c (hw_stream r)) as (b0 & b1 & b2 & b3 & -> & Hword).
    econstructor; [exact Hword|]. eapply IH; eassumption.
  - destruct Hw as (Hb & Hw). cbn [hw_bytes app]. constructor; [assumption|]. eapply IH; eassumption.
Qed.

Theorem hw_parse evs k : hw_wf k evs -> cb_fifo (hw_stream evs) = (hw_entries evs, []).
Proof.
  intros Hw. rewrite <- (app_nil_r (hw_stream evs)). apply cb_fifo_elems; [|reflexivity]. eapply hw_elems; eassumption.
Qed.

(* ================================================================================================
   6. the arithmetic core: chronobox_time on a hardware timestamp between markers k-1 and k
   ================================================================================================ *)
(* T is the absolute tick of the edge; it sits in the FIFO between marker k-1 (written at tick k*HALF, top bit
   = (k-1) odd) and marker k (written at (k+1)*HALF), displaced by less than HALF from that window.
   Then the program's time is the true time exactly when the edge really belongs to the window, and empty otherwise. *)
Theorem hw_time_core k T : 1 <= k ->
  k * HALF <= T + HALF -> T < (k + 1) * HALF + HALF ->
  chronobox_time (T mod TURN / 2 * 2) (Some (oddN (k - 1), k - 1)) (Some (oddN k, k)) =
  if (k * HALF <=? T) && (T <? (k + 1) * HALF) then Some (true_time T) else None.
Proof.
  intros Hk Hlo Hhi. unfold chronobox_time, TIMESTAMP_BITS, true_time, HALF, TURN in *.
  change (2 ^ (24 - 1)) with 8388608. change (2 ^ 24) with 16777216.
  replace (k - 1 + 1) with k by lia. rewrite N.eqb_refl. cbn [andb].
  destruct (oddN_cases (k - 1)) as [[E1 M1]|[E1 M1]]; destruct (oddN_cases k) as [[E2 M2]|[E2 M2]];
    rewrite E1, E2; cbn [Bool.eqb negb]; try (exfalso; lia).
  - (* k-1 odd, k even: the window is the lower half of a turn *)
    destruct (N.eqb_spec (T mod 16777216 / 2 * 2 / 8388608) 1) as [Et|Et]; cbn [Bool.eqb negb].
    + replace ((k * 8388608 <=? T) && (T <? (k + 1) * 8388608)) with false; [reflexivity|].
      symmetry. apply andb_false_iff.
      destruct (N.leb_spec (k * 8388608) T); [right; apply N.ltb_ge; lia | left; reflexivity].
    + replace ((k * 8388608 <=? T) && (T <? (k + 1) * 8388608)) with true.
      * f_equal. lia.
      * symmetry. apply andb_true_iff. split; [apply N.leb_le | apply N.ltb_lt]; lia.
  - (* k-1 even, k odd: the window is the upper half of a turn *)
    destruct (N.eqb_spec (T mod 16777216 / 2 * 2 / 8388608) 1) as [Et|Et]; cbn [Bool.eqb negb].
    + replace ((k * 8388608 <=? T) && (T <? (k + 1) * 8388608)) with true.
      * f_equal. lia.
      * symmetry. apply andb_true_iff. split; [apply N.leb_le | apply N.ltb_lt]; lia.
    + replace ((k * 8388608 <=? T) && (T <? (k + 1) * 8388608)) with false; [reflexivity|].
      symmetry. apply andb_false_iff.
      destruct (N.leb_spec (k * 8388608) T); [right; apply N.ltb_ge; lia | left; reflexivity].
Qed.

Lemma chronobox_time_no_next ts previous : chronobox_time ts previous None = None.
Proof. unfold chronobox_time. destruct previous as [[? ?]|]; reflexivity. Qed.

(* ================================================================================================
   7. the program on a hardware stream = the specification written from the events
   ================================================================================================ *)
Lemma hw_first_mk : forall r k, hw_wf k r ->
  first_mk (hw_entries r) = if has_marker r then Some (oddN k, k) else None.
Proof.
  induction r as [|ev r IH]; intros k Hw; [reflexivity|].
  destruct ev as [T ch tr|c|body]; cbn [hw_wf hw_entries first_mk has_marker] in *.
  - apply IH. tauto.
  - destruct Hw as (-> & Hk & _). unfold HALF in *. f_equal. f_equal. apply N.mod_small. lia.
  - apply IH. tauto.
Qed.

Lemma hw_rows_spec b : forall r k, 1 <= k -> hw_wf k r ->
  rows_spec b (Some (oddN (k - 1), k - 1)) (hw_entries r) = hw_rows_from b k r.
Proof.
  induction r as [|ev r IH]; intros k Hk Hw; [reflexivity|].
  destruct ev as [T ch tr|c|body]; cbn [hw_wf hw_entries rows_spec hw_rows_from] in *.
  - destruct Hw as (Hc & Hlo & Hhi & Hw).
    replace (k =? 0) with false by (symmetry; apply N.eqb_neq; lia).
    rewrite (IH k Hk Hw), (hw_first_mk r k Hw). f_equal. f_equal.
    destruct (has_marker r); cbn [andb].
    + apply hw_time_core; assumption.
    + apply chronobox_time_no_next.
  - destruct Hw as (-> & Hk1 & Hw).
    rewrite <- (IH (k + 1) ltac:(lia) Hw). replace (k + 1 - 1) with k by lia.
    unfold HALF in *. rewrite (N.mod_small k) by lia. reflexivity.
  - apply IH; tauto.
Qed.

(* everything before the first marker is skipped; the first marker of a hardware stream is (top clear, counter 0) *)
Fixpoint hw_after_first_marker (evs : list hw_event) : option (list hw_event) :=
  match evs with
  | [] => None
  | HMarker _ :: r => Some r
  | _ :: r => hw_after_first_marker r
  end.

Lemma hw_skip b : forall evs, hw_wf 0 evs ->
  match hw_after_first_marker evs with
  | Some r => from_first is_mk0 (hw_entries evs) = Some (MK false 0 :: hw_entries r) /\ hw_wf 1 r /\
              hw_rows_from b 0 evs = hw_rows_from b 1 r /\ has_marker evs = true
  | None => from_first is_mk0 (hw_entries evs) = None /\ has_marker evs = false
  end.
Proof.
  induction evs as [|ev r IH]; intros Hw; [split; reflexivity|].
  destruct ev as [T ch tr|c|body];
    cbn [hw_wf hw_entries from_first is_mk0 hw_after_first_marker hw_rows_from has_marker] in *.
  - change (0 =? 0) with true. cbn iota. apply IH. tauto.
  - destruct Hw as (-> & _ & Hw). change (0 mod HALF) with 0. change (0 =? 0) with true. cbn iota.
    change (oddN 0) with false. change (0 + 1) with 1 in *. auto.
  - apply IH. tauto.
Qed.

Theorem hw_board_correct b evs : hw_wf 0 evs ->
  (do f <- cb_board_fifo (hw_stream evs); board_rows b f) = hw_board b evs.
Proof.
  intros Hw. rewrite cb_board_fifo_eq, (hw_parse evs 0 Hw). unfold hw_board, hw_rows.
  pose proof (hw_skip b evs Hw) as Hs. destruct (hw_after_first_marker evs) as [r|].
  - destruct Hs as (-> & Hw1 & -> & ->). cbn [bind]. rewrite board_rows_spec. cbn [rows_spec].
    rewrite <- (hw_rows_spec b r 1 ltac:(lia) Hw1). reflexivity.
  - destruct Hs as (-> & ->). reflexivity.
Qed.

(* ================================================================================================
   8. the buffers: BTreeMap order, per-board concatenation, cut invariance
   ================================================================================================ *)
From Coq Require Import Sorted.

Definition sorted (m : buffers) : Prop := StronglySorted N.lt (keys m).

Lemma bt_extend_lb x : forall m b d, Forall (N.lt x) (keys m) -> x < b -> Forall (N.lt x) (keys (bt_extend m b d)).
Proof.
  induction m as [|[b' buf] m IH]; intros b d Hf Hx; cbn [bt_extend].
  - repeat constructor. assumption.
  - inversion Hf as [|? ? Hb' Hm]; subst. destruct (b <? b'); [|destruct (b =? b')]; cbn [keys map fst] in *.
    + constructor; [assumption|]. constructor; assumption.
    + constructor; assumption.
    + constructor; [assumption|]. apply IH; assumption.
Qed.

Lemma bt_extend_sorted : forall m b d, sorted m -> sorted (bt_extend m b d).
Proof.
  unfold sorted. induction m as [|[b' buf] m IH]; intros b d Hs; cbn [bt_extend].
  - repeat constructor.
  - cbn [keys map fst] in Hs. apply StronglySorted_inv in Hs. destruct Hs as [Hs Hf].
    destruct (N.ltb_spec b b') as [Hlt|Hge]; [|destruct (N.eqb_spec b b') as [He|Hne]]; cbn [keys map fst].
    + constructor; [constructor; assumption|]. constructor; [assumption|].
      eapply Forall_impl; [|exact Hf]. cbn. intros k Hk. lia.
    + constructor; assumption.
    + constructor; [apply IH; assumption|]. apply bt_extend_lb; [assumption|lia].
Qed.

Lemma bt_lookup_lb x : forall m b, Forall (N.lt x) (keys m) -> b <= x -> bt_lookup m b = None.
Proof.
  induction m as [|[b' buf] m IH]; intros b Hf Hb; [reflexivity|]. cbn [bt_lookup].
  inversion Hf as [|? ? Hb' Hm]; subst. cbn [fst] in Hb'.
  destruct (N.eqb_spec b b'); [lia|]. apply IH; assumption.
Qed.

Lemma bt_extend_lookup : forall m b d b', sorted m ->
  bt_lookup (bt_extend m b d) b' =
  if b' =? b then Some (match bt_lookup m b with Some buf => buf ++ d | None => d end) else bt_lookup m b'.
Proof.
  unfold sorted. induction m as [|[b0 buf] m IH]; intros b d b' Hs; cbn [bt_extend bt_lookup].
  - reflexivity.
  - cbn [keys map fst] in Hs. apply StronglySorted_inv in Hs. destruct Hs as [Hs Hf].
    destruct (N.ltb_spec b b0) as [Hlt|Hge]; [|destruct (N.eqb_spec b b0) as [He|Hne]]; cbn [bt_lookup].
    + destruct (N.eqb_spec b b0); [lia|]. rewrite (bt_lookup_lb b0 m b Hf) by lia. reflexivity.
    + subst b0. destruct (N.eqb_spec b' b); reflexivity.
    + rewrite (IH b d b' Hs). destruct (N.eqb_spec b' b0) as [E0|E0]; [|reflexivity].
      destruct (N.eqb_spec b' b); [lia|reflexivity].
Qed.

Definition bufs_from (m : buffers) (pieces : list (N * list N)) : buffers :=
  fold_left (fun m p => bt_extend m (fst p) (snd p)) pieces m.

Lemma bufs_from_sorted : forall pieces m, sorted m -> sorted (bufs_from m pieces).
Proof.
  induction pieces as [|[b d] ps IH]; intros m Hs; [assumption|]. cbn [bufs_from fold_left fst snd].
  apply IH. apply bt_extend_sorted. assumption.
Qed.

Lemma concat_of_cons b b0 d0 ps :
  concat_of b ((b0, d0) :: ps) = (if b0 =? b then d0 else []) ++ concat_of b ps.
Proof. unfold concat_of, pieces_of. cbn [filter fst]. destruct (b0 =? b); reflexivity. Qed.
Lemma present_cons b b0 (d0 : list N) ps : present b ((b0, d0) :: ps) = (b0 =? b) || present b ps.
Proof. reflexivity. Qed.

Lemma bufs_from_lookup : forall pieces m b, sorted m ->
  bt_lookup (bufs_from m pieces) b =
  match bt_lookup m b with
  | Some buf => Some (buf ++ concat_of b pieces)
  | None => if present b pieces then Some (concat_of b pieces) else None
  end.
Proof.
  induction pieces as [|[b0 d0] ps IH]; intros m b Hs.
  - cbn [bufs_from fold_left]. unfold concat_of, pieces_of. cbn.
    destruct (bt_lookup m b); [rewrite app_nil_r|]; reflexivity.
  - cbn [bufs_from fold_left fst snd]. fold (bufs_from (bt_extend m b0 d0) ps).
    rewrite (IH _ b (bt_extend_sorted m b0 d0 Hs)), (bt_extend_lookup m b0 d0 b Hs).
    rewrite concat_of_cons, present_cons, (N.eqb_sym b0 b).
    destruct (N.eqb_spec b b0) as [->|Hne]; cbn [orb].
    + destruct (bt_lookup m b0); [rewrite app_assoc|]; reflexivity.
    + destruct (bt_lookup m b); reflexivity.
Qed.

(* the buffers the program builds: ascending board order; a board is present iff it has at least one bank, and its
   buffer is the concatenation of its banks in bank order *)
Theorem cb_buffers_spec pieces :
  sorted (cb_buffers pieces) /\
  forall b, bt_lookup (cb_buffers pieces) b = if present b pieces then Some (concat_of b pieces) else None.
Proof.
  split.
  - apply (bufs_from_sorted pieces []). constructor.
  - intros b. apply (bufs_from_lookup pieces [] b). constructor.
Qed.

Lemma sorted_ext : forall m1 m2, sorted m1 -> sorted m2 ->
  (forall b, bt_lookup m1 b = bt_lookup m2 b) -> m1 = m2.
Proof.
  unfold sorted. induction m1 as [|[b1 buf1] m1 IH]; intros [|[b2 buf2] m2] Hs1 Hs2 He.
  - reflexivity.
  - specialize (He b2). cbn [bt_lookup] in He. rewrite N.eqb_refl in He. discriminate.
  - specialize (He b1). cbn [bt_lookup] in He. rewrite N.eqb_refl in He. discriminate.
  - cbn [keys map fst] in Hs1, Hs2. apply StronglySorted_inv in Hs1, Hs2.
    destruct Hs1 as [Hs1 Hf1]. destruct Hs2 as [Hs2 Hf2].
    assert (b1 = b2) as ->.
    { destruct (N.lt_trichotomy b1 b2) as [Hlt|[Heq|Hgt]]; [|assumption|]; exfalso.
      - specialize (He b1). cbn [bt_lookup] in He. rewrite N.eqb_refl in He.
        destruct (N.eqb_spec b1 b2); [lia|]. rewrite (bt_lookup_lb b2 m2 b1 Hf2) in He by lia. discriminate.
      - specialize (He b2). cbn [bt_lookup] in He. rewrite N.eqb_refl in He.
        destruct (N.eqb_spec b2 b1); [lia|]. rewrite (bt_lookup_lb b1 m1 b2 Hf1) in He by lia. discriminate. }
    pose proof (He b2) as Hb. cbn [bt_lookup] in Hb. rewrite N.eqb_refl in Hb. injection Hb as ->.
    f_equal. apply IH; try assumption. intros b. destruct (N.eqb_spec b b2) as [->|Hne].
    + rewrite (bt_lookup_lb b2 m1 b2 Hf1), (bt_lookup_lb b2 m2 b2 Hf2) by lia. reflexivity.
    + specialize (He b). cbn [bt_lookup] in He. destruct (N.eqb_spec b b2); [contradiction|assumption].
Qed.

(* cut invariance: the buffers, hence everything the program does, depend only on which boards have a bank and on
   the concatenation of each board's banks *)
Theorem cb_buffers_cut_invariant p1 p2 :
  (forall b, present b p1 = present b p2) -> (forall b, concat_of b p1 = concat_of b p2) ->
  cb_buffers p1 = cb_buffers p2.
Proof.
  intros Hp Hc. destruct (cb_buffers_spec p1) as [S1 L1]. destruct (cb_buffers_spec p2) as [S2 L2].
  apply sorted_ext; try assumption. intros b. rewrite L1, L2, Hp, Hc. reflexivity.
Qed.

Theorem cb_program_cut_invariant p1 p2 :
  (forall b, present b p1 = present b p2) -> (forall b, concat_of b p1 = concat_of b p2) ->
  cb_program p1 = cb_program p2.
Proof. intros Hp Hc. unfold cb_program. rewrite (cb_buffers_cut_invariant p1 p2 Hp Hc). reflexivity. Qed.

(* feeding a board's banks one at a time with the resume protocol of C07 gives the same entries as the single parse
   of the concatenation the program performs *)
Theorem cb_feed_is_concat b pieces : cb_feed [] (pieces_of b pieces) = cb_fifo (concat_of b pieces).
Proof. apply (cb_split_many_lemma (pieces_of b pieces) []). reflexivity. Qed.

(* ================================================================================================
   9. the whole program on hardware streams of several boards, under any cut pattern
   ================================================================================================ *)

Lemma hw_program_err : forall boards k, hw_program boards = Err k -> k = E_NO_EPOCH0.
Proof.
  destruct boards as [|[b evs] r]; intros k; cbn [hw_program]; [discriminate|].
  destruct (hw_board b evs); [destruct (hw_program r)| |]; intros [= <-]; reflexivity.
Qed.
Lemma hw_board_err b evs k : hw_board b evs = Err k -> k = E_NO_EPOCH0.
Proof. unfold hw_board. destruct (has_marker evs); intros [= <-]; reflexivity. Qed.

Lemma hw_fifos_rows : forall boards, Forall (fun be => hw_wf 0 (snd be)) boards ->
  (do fs <- cb_fifos (hw_pieces boards); all_rows fs) = hw_program boards.
Proof.
  induction boards as [|[b evs] r IH]; intros Hw; [reflexivity|].
  inversion Hw as [|? ? Hw0 Hwr]; subst. cbn [snd] in Hw0. specialize (IH Hwr).
  cbn [hw_pieces map fst snd cb_fifos hw_program]. fold (hw_pieces r).
  pose proof (hw_board_correct b evs Hw0) as Hb.
  pose proof (cb_board_fifo_no_panic (hw_stream evs)) as Hnp.
  destruct (cb_board_fifo (hw_stream evs)) as [f|k|]; cbn [bind] in Hb |- *; [| |congruence].
  - rewrite <- Hb. rewrite board_rows_spec.
    destruct (cb_fifos (hw_pieces r)) as [fs|k|] eqn:Ef; cbn [bind] in IH |- *.
    + cbn [all_rows]. rewrite board_rows_spec. cbn [bind]. rewrite all_rows_spec in IH |- *. rewrite <- IH. reflexivity.
    + rewrite <- IH. symmetry in IH. apply hw_program_err in IH. subst k. reflexivity.
    + exfalso. eapply cb_fifos_no_panic. eassumption.
  - rewrite <- Hb. symmetry in Hb. apply hw_board_err in Hb. subst k. reflexivity.
Qed.

(* boards : the hardware events of every board that has data, in ascending board order;
   pieces : ANY sequence of bank payloads whose per-board concatenation is the stream of that board *)
Theorem cb_program_hw boards pieces :
  StronglySorted N.lt (map fst boards) ->
  Forall (fun be => hw_wf 0 (snd be)) boards ->
  (forall b, (if present b pieces then Some (concat_of b pieces) else None) = bt_lookup (hw_pieces boards) b) ->
  cb_program pieces = hw_program boards.
Proof.
  intros Hs Hw Hl. unfold cb_program. destruct (cb_buffers_spec pieces) as [S L].
  assert (cb_buffers pieces = hw_pieces boards) as ->.
  { apply sorted_ext; [assumption| |intros b; rewrite L; apply Hl].
    unfold sorted, keys, hw_pieces. rewrite map_map. cbn [fst]. assumption. }
  apply hw_fifos_rows. assumption.
Qed.

(* ---------- rows_complete on the program level, for ANY input ---------- *)
Theorem cb_rows_complete_lemma pieces rows : cb_program pieces = Ok rows ->
  exists fs,
    map fst fs = keys (cb_buffers pieces) /\
    Forall2 (fun bb bf => exists es t, cb_fifo (snd bb) = (es, []) /\ from_first is_mk0 es = Some (snd bf) /\
                                      snd bf = MK false 0 :: t) (cb_buffers pieces) fs /\
    map row_key rows = flat_map (fun bf => ts_keys (fst bf) (snd bf)) fs /\
    rows = rows_of_fifos fs.
Proof.
  intros H. apply cb_program_ok in H. destruct H as (fs & Hf & ->). exists fs.
  apply cb_fifos_ok in Hf. split; [|split; [|split; [|reflexivity]]].
  - unfold keys. induction Hf as [|bb bf m fs' [Hk _] _ IH]; [reflexivity|]. cbn [map]. rewrite Hk, IH. reflexivity.
  - induction Hf as [|bb bf m fs' [_ Hb] _ IH]; constructor; [|assumption].
    apply cb_board_fifo_ok in Hb. destruct Hb as (es & t & H1 & H2 & H3). eauto.
  - clear Hf. induction fs as [|[b f] fs IH]; [reflexivity|].
    unfold rows_of_fifos in *. cbn [flat_map fst snd]. rewrite map_app, IH, rows_spec_keys. reflexivity.
Qed.

(* ---------- the specification rows, edge by edge ---------- *)

Lemma hw_rows_edges b : forall evs k, Forall2 (row_matches b) (hw_edges_from k evs) (hw_rows_from b k evs).
Proof.
  induction evs as [|ev r IH]; intros k; [constructor|].
  destruct ev as [T ch tr|c|body]; cbn [hw_edges_from hw_rows_from]; try apply IH.
  destruct (k =? 0); [apply IH|]. constructor; [|apply IH].
  unfold row_matches, in_window. cbn [r_board r_channel r_leading r_time he_k he_T he_ch he_tr he_later].
  repeat (split; [reflexivity|]).
  destruct (has_marker r); cbn [andb].
  - destruct (N.leb_spec (k * HALF) T); destruct (N.ltb_spec T ((k + 1) * HALF)); cbn [andb]; split;
      try (intros t [= <-]; reflexivity); try discriminate; split; try discriminate; try tauto; try lia;
      intros; exfalso; tauto.
  - split; [discriminate|]. split; [intros _ [Hf _]; discriminate|reflexivity].
Qed.

Theorem cb_time_correct_lemma boards pieces rows :
  StronglySorted N.lt (map fst boards) ->
  Forall (fun be => hw_wf 0 (snd be)) boards ->
  (forall b, (if present b pieces then Some (concat_of b pieces) else None) = bt_lookup (hw_pieces boards) b) ->
  cb_program pieces = Ok rows ->
  exists rr, rows = concat rr /\
    Forall2 (fun be rs => Forall2 (row_matches (fst be)) (hw_edges (snd be)) rs) boards rr.
Proof.
  intros Hs Hw Hl. rewrite (cb_program_hw boards pieces Hs Hw Hl). clear. revert rows.
  induction boards as [|[b evs] r IH]; intros rows; cbn [hw_program].
  - intros [= <-]. exists []. split; [reflexivity|constructor].
  - unfold hw_board. destruct (has_marker evs); [|discriminate].
    destruct (hw_program r) as [rs'| |]; try discriminate. intros [= <-].
    destruct (IH rs' eq_refl) as (rr & -> & Hr). exists (hw_rows b evs :: rr). split; [reflexivity|].
    constructor; [|assumption]. apply hw_rows_edges.
Qed.

(* ================================================================================================
   10. failure: exactly the malformed boards, and then the whole run fails (before any file is created)
   ================================================================================================ *)
Inductive board_bad (buf : list N) : Prop :=
| Bad_remainder p es r :           (* complete elements p, then a non-empty rest that starts with no complete element *)
    buf = p ++ r -> Elems p es -> r <> [] -> next r = None -> board_bad buf
| Bad_no_epoch0 es :               (* well-formed, but no marker with counter 0 *)
    Elems buf es -> forallb (fun e => negb (is_mk0 e)) es = true -> board_bad buf
| Bad_first_marker pre post :      (* the first counter-0 marker has its top bit set *)
    Elems buf (pre ++ MK true 0 :: post) -> forallb (fun e => negb (is_mk0 e)) pre = true -> board_bad buf.

Theorem cb_board_fail_iff buf : (exists k, cb_board_fifo buf = Err k) <-> board_bad buf.
Proof.
  split.
  - intros (k & Hk). rewrite cb_board_fifo_eq in Hk. destruct (cb_fifo buf) as [es r] eqn:Ef.
    destruct (cb_sound_maximal_lemma _ _ _ Ef) as (p & -> & He & Hm). apply next_none_iff in Hm.
    destruct r as [|x r].
    + rewrite app_nil_r in *. destruct (from_first is_mk0 es) as [s|] eqn:Es.
      * destruct (from_first_head _ _ _ Es) as (x & t & -> & Hx).
        destruct x as [? ? ?|top c]; [discriminate|]. cbn [is_mk0] in Hx. apply N.eqb_eq in Hx. subst c.
        destruct top; [|discriminate]. destruct (from_first_split _ _ _ Es) as (pre & -> & Hp).
        eapply Bad_first_marker; eassumption.
      * apply from_first_none in Es. eapply Bad_no_epoch0; eassumption.
    + eapply Bad_remainder; [reflexivity|eassumption|discriminate|assumption].
  - intros [p es r -> He Hr Hn|es He Hf|pre post He Hf].
    + eexists. apply cb_board_fail_remainder with (es := es); assumption.
    + eexists. eapply cb_board_fail_no_epoch0; eassumption.
    + eexists. eapply cb_board_fail_bad_first; [eassumption|assumption|reflexivity].
Qed.

Lemma cb_fifos_err_inv : forall m k, cb_fifos m = Err k -> exists b buf k', In (b, buf) m /\ cb_board_fifo buf = Err k'.
Proof.
  induction m as [|[b buf] m IH]; intros k; cbn [cb_fifos]; [discriminate|].
  destruct (cb_board_fifo buf) as [f|k'|] eqn:Eb; cbn [bind].
  - destruct (cb_fifos m) as [fs|k'|] eqn:Ef; cbn [bind]; try discriminate.
    intros _. destruct (IH k' eq_refl) as (b0 & buf0 & k0 & Hi & He). exists b0, buf0, k0. split; [right|]; assumption.
  - intros _. exists b, buf, k'. split; [left; reflexivity|assumption].
  - discriminate.
Qed.

Lemma sorted_in_lookup : forall m b buf, sorted m -> In (b, buf) m -> bt_lookup m b = Some buf.
Proof.
  unfold sorted. induction m as [|[b' buf'] m IH]; intros b buf Hs Hi; [destruct Hi|].
  cbn [keys map fst] in Hs. apply StronglySorted_inv in Hs. destruct Hs as [Hs Hf]. cbn [bt_lookup].
  destruct Hi as [[= -> ->]|Hi]; [rewrite N.eqb_refl; reflexivity|].
  assert (b' < b). { rewrite Forall_forall in Hf. apply Hf. unfold keys. apply (in_map fst _ _ Hi). }
  destruct (N.eqb_spec b b'); [lia|]. apply IH; assumption.
Qed.

Lemma cb_buffers_in pieces b buf :
  In (b, buf) (cb_buffers pieces) <-> present b pieces = true /\ buf = concat_of b pieces.
Proof.
  destruct (cb_buffers_spec pieces) as [S L]. split.
  - intros Hi. pose proof (sorted_in_lookup _ _ _ S Hi) as Hl. rewrite L in Hl.
    destruct (present b pieces); [|discriminate]. injection Hl as <-. auto.
  - intros [Hp ->]. specialize (L b). rewrite Hp in L. revert L. generalize (cb_buffers pieces) as m.
    induction m as [|[b' buf'] m IH]; cbn [bt_lookup]; [discriminate|].
    destruct (N.eqb_spec b b') as [->|Hne]; [intros [= ->]; left; reflexivity|]. intros H. right. apply IH. assumption.
Qed.

(* the run fails (and then no CSV is created) exactly when some board that has a bank is malformed *)
Theorem cb_program_fail_iff pieces :
  (exists k, cb_program pieces = Err k) <->
  (exists b, present b pieces = true /\ board_bad (concat_of b pieces)).
Proof.
  split.
  - intros (k & Hk). unfold cb_program in Hk.
    destruct (cb_fifos (cb_buffers pieces)) as [fs|k'|] eqn:Ef; cbn [bind] in Hk.
    + rewrite all_rows_spec in Hk. discriminate.
    + destruct (cb_fifos_err_inv _ _ Ef) as (b & buf & k0 & Hi & He).
      apply cb_buffers_in in Hi. destruct Hi as [Hp ->]. exists b. split; [assumption|].
      apply cb_board_fail_iff. eauto.
    + discriminate.
  - intros (b & Hp & Hb). apply cb_board_fail_iff in Hb. destruct Hb as (k & Hk).
    apply (cb_program_fail pieces b (concat_of b pieces) k); [apply cb_buffers_in; auto|assumption].
Qed.

(* ---------- the boolean well-formedness check used by the model runner implies hw_wf ---------- *)
Lemma hw_wfb_sound : forall evs k, hw_wfb_from k evs = true -> hw_wf k evs.
Proof.
  induction evs as [|ev r IH]; intros k H; [exact I|].
  destruct ev as [T ch tr|c|body]; cbn [hw_wfb_from hw_wf] in *.
  - apply andb_true_iff in H. destruct H as [H H4]. apply andb_true_iff in H. destruct H as [H H3].
    apply andb_true_iff in H. destruct H as [H1 H2].
    apply N.ltb_lt in H1, H3. apply N.leb_le in H2. auto.
  - apply andb_true_iff in H. destruct H as [H H3]. apply andb_true_iff in H. destruct H as [H1 H2].
    apply N.eqb_eq in H1. apply N.ltb_lt in H2. auto.
  - apply andb_true_iff in H. destruct H as [H1 H2]. apply N.eqb_eq in H1. auto.
Qed.
