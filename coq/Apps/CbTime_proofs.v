(* Proofs about the model of alpha-g-chronobox-timestamps (Apps/CbTime.v) and the hardware model (Apps/CbHardware.v). *)
From AG Require Import Base.Prelude Base.Res Base.Bytes Base.Mask Codec.Chrono Codec.Chrono_proofs
  Apps.CbTime Apps.CbHardware.

(* ================================================================================================
   1. the row loops (split_inclusive / split_last / previous_marker threading) = rows_spec
   ================================================================================================ *)
Definition is_ts (e : entry) : bool := negb (is_mk e).

Lemma split_inclusive_nil {A} (f : A -> bool) l : split_inclusive f l = [] -> l = [].
Proof.
  destruct l as [|x t]; [reflexivity|]. cbn [split_inclusive].
  destruct (f x); [discriminate|]. destruct (split_inclusive f t); discriminate.
Qed.

(* the first chunk: non-empty, everything before its last element is a timestamp, and its last element is the first
   marker of the list if there is one *)
Lemma si_first : forall l c cs, split_inclusive is_mk l = c :: cs ->
  exists last init, split_last c = Some (last, init) /\ forallb is_ts init = true /\
    match last with
    | MK top cn => first_mk l = Some (top, cn)
    | TS _ _ _ => first_mk l = None /\ forallb is_ts c = true
    end.
Proof.
  induction l as [|x t IH]; intros c cs; cbn [split_inclusive]; [discriminate|].
  destruct x as [ch tr ts|top cn]; cbn [is_mk].
  - destruct (split_inclusive is_mk t) as [|c' cs'] eqn:Es.
    + intros [= <- <-]. apply split_inclusive_nil in Es. subst t.
      exists (TS ch tr ts), []. cbn. auto.
    + intros [= <- <-]. destruct (IH c' cs' eq_refl) as (last & init & Hl & Hi & Hm).
      exists last, (TS ch tr ts :: init). cbn [split_last]. rewrite Hl. split; [reflexivity|].
      split; [cbn; assumption|]. cbn [first_mk]. destruct last; [|assumption].
      destruct Hm as [Hm1 Hm2]. split; [assumption|]. cbn. assumption.
  - intros [= <- <-]. exists (MK top cn), []. cbn. auto.
Qed.

Lemma chunk_rows_cons b p n ch tr ts t :
  chunk_rows b p n (TS ch tr ts :: t) =
  do rs <- chunk_rows b p n t; Ok (Row b ch (negb tr) (chronobox_time ts p n) :: rs).
Proof. reflexivity. Qed.

Lemma split_last_cons {A} (x : A) c last init :
  split_last c = Some (last, init) -> split_last (x :: c) = Some (last, x :: init).
Proof. intros H. cbn [split_last]. rewrite H. reflexivity. Qed.

Theorem chunks_rows_spec : forall b l previous,
  chunks_rows b previous (split_inclusive is_mk l) = Ok (rows_spec b previous l).
Proof.
  induction l as [|x t IH]; intros previous; [reflexivity|].
  cbn [split_inclusive]. destruct x as [ch tr ts|top cn]; cbn [is_mk].
  - destruct (split_inclusive is_mk t) as [|c cs] eqn:Es.
    + apply split_inclusive_nil in Es. subst t. reflexivity.
    + destruct (si_first t c cs Es) as (last & init & Hl & Hi & Hm).
      specialize (IH previous). cbn [chunks_rows] in IH |- *. rewrite Hl in IH.
      rewrite (split_last_cons _ _ _ _ Hl). cbn [rows_spec].
      destruct last as [ch' tr' ts'|top' cn'].
      * destruct Hm as [Hm Hc]. rewrite Hm.
        rewrite chunk_rows_cons.
        destruct (chunk_rows b previous None c) as [rs| |] eqn:E1; cbn [bind] in IH |- *; try discriminate IH.
        destruct (chunks_rows b None cs) as [rs'| |] eqn:E2; cbn [bind] in IH |- *; try discriminate IH.
        injection IH as IH. rewrite <- IH. reflexivity.
      * rewrite Hm. rewrite chunk_rows_cons.
        destruct (chunk_rows b previous (Some (top', cn')) init) as [rs| |] eqn:E1; cbn [bind] in IH |- *;
          try discriminate IH.
        destruct (chunks_rows b (Some (top', cn')) cs) as [rs'| |] eqn:E2; cbn [bind] in IH |- *; try discriminate IH.
        injection IH as IH. rewrite <- IH. reflexivity.
  - cbn [chunks_rows split_last chunk_rows bind rows_spec]. rewrite IH. reflexivity.
Qed.

Corollary board_rows_spec b fifo : board_rows b fifo = Ok (rows_spec b None fifo).
Proof. apply chunks_rows_spec. Qed.

(* ---------- one row per timestamp entry, in order, with the right board / channel / edge ---------- *)
Fixpoint ts_keys (b : N) (l : list entry) : list (N * N * bool) :=
  match l with
  | [] => []
  | TS ch tr _ :: t => (b, ch, negb tr) :: ts_keys b t
  | MK _ _ :: t => ts_keys b t
  end.
Definition row_key (r : row) : N * N * bool := (r_board r, r_channel r, r_leading r).

Fixpoint count_ts (l : list entry) : nat :=
  match l with
  | [] => O
  | TS _ _ _ :: t => S (count_ts t)
  | MK _ _ :: t => count_ts t
  end.

Lemma rows_spec_keys b : forall l previous, map row_key (rows_spec b previous l) = ts_keys b l.
Proof.
  induction l as [|[ch tr ts|top c] t IH]; intros previous; cbn [rows_spec ts_keys map]; [reflexivity| |apply IH].
  rewrite IH. reflexivity.
Qed.

Lemma rows_spec_length b : forall l previous, length (rows_spec b previous l) = count_ts l.
Proof.
  induction l as [|[ch tr ts|top c] t IH]; intros previous; cbn [rows_spec count_ts length]; auto.
Qed.

(* the row of a timestamp entry: its time is computed from the LAST marker before it and the FIRST marker after it *)
Lemma rows_spec_nth b : forall l1 previous ch tr ts l2,
  nth_error (rows_spec b previous (l1 ++ TS ch tr ts :: l2)) (count_ts l1) =
  Some (Row b ch (negb tr) (chronobox_time ts (last_mk previous l1) (first_mk l2))).
Proof.
  induction l1 as [|[ch' tr' ts'|top c] t IH]; intros previous ch tr ts l2; cbn [app rows_spec count_ts last_mk nth_error].
  - reflexivity.
  - apply IH.
  - apply IH.
Qed.

(* ================================================================================================
   2. chronobox_time: value and emptiness
   ================================================================================================ *)
(* two consecutive, consistent markers: counters differ by one and the top bits alternate *)
Definition enclosed (previous next : option marker) : Prop :=
  exists ptop pcnt ntop, previous = Some (ptop, pcnt) /\ next = Some (ntop, pcnt + 1) /\ ntop <> ptop.
Definition ts_top (ts : N) : bool := ts / 8388608 =? 1.

Lemma chronobox_time_some ts previous next t :
  chronobox_time ts previous next = Some t <->
  exists ptop pcnt ntop, previous = Some (ptop, pcnt) /\ next = Some (ntop, pcnt + 1) /\ ntop <> ptop /\ ts_top ts <> ptop /\ t = ts + (pcnt + 1) / 2 * 16777216.
Proof.
  unfold chronobox_time, ts_top, TIMESTAMP_BITS. change (2 ^ (24 - 1)) with 8388608. change (2 ^ 24) with 16777216.
  split.
  - destruct previous as [[ptop pcnt]|]; [|discriminate]. destruct next as [[ntop ncnt]|]; [|discriminate].
    destruct (N.eqb_spec (pcnt + 1) ncnt) as [En|En]; cbn [andb]; [|discriminate].
    destruct (Bool.eqb ptop ntop) eqn:Eb; cbn [negb]; [discriminate|].
    destruct (Bool.eqb (ts / 8388608 =? 1) ptop) eqn:Et; cbn [negb]; [discriminate|].
    intros [= <-]. exists ptop, pcnt, ntop. subst ncnt.
    apply eqb_false_iff in Eb. apply eqb_false_iff in Et. repeat split; auto.
  - intros (ptop & pcnt & ntop & -> & -> & Hn & Ht & ->).
    rewrite N.eqb_refl. cbn [andb].
    replace (Bool.eqb ptop ntop) with false by (symmetry; apply eqb_false_iff; congruence).
    replace (Bool.eqb (ts / 8388608 =? 1) ptop) with false by (symmetry; apply eqb_false_iff; assumption).
    reflexivity.
Qed.

Theorem chronobox_time_none_iff ts previous next :
  chronobox_time ts previous next = None <->
  ~ enclosed previous next \/ (exists ptop pcnt, previous = Some (ptop, pcnt) /\ ts_top ts = ptop).
Proof.
  split.
  - intros Hn. destruct previous as [[ptop pcnt]|].
    2:{ left. intros (a & b & c & H & _). discriminate. }
    destruct (bool_dec (ts_top ts) ptop) as [Ht|Ht]; [right; eauto|].
    left. intros (a & b & c & [= <- <-] & -> & Hc).
    assert (chronobox_time ts (Some (ptop, pcnt)) (Some (c, pcnt + 1)) = Some (ts + (pcnt + 1) / 2 * 16777216)) as Hs.
    { apply chronobox_time_some. exists ptop, pcnt, c. auto. }
    congruence.
  - intros H. destruct (chronobox_time ts previous next) as [t|] eqn:E; [|reflexivity]. exfalso.
    apply chronobox_time_some in E. destruct E as (ptop & pcnt & ntop & -> & -> & Hn & Ht & _).
    destruct H as [H|(a & b & [= <- <-] & H)].
    + apply H. exists ptop, pcnt, ntop. auto.
    + congruence.
Qed.
