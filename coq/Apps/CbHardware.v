(* Generator-side model of the Chronobox hardware FIFO (the documented behaviour the analysis program relies on;
   written from the word layout, not from the program):
   * a free-running 24-bit counter at 10 MHz; an input edge at absolute tick T on channel ch (< 59) writes the word
     (0x80|ch) << 24 | (T mod 2^24 with bit 0 replaced by the edge flag: 1 = trailing);
   * every half wrap (every 2^23 ticks) a wrap-around marker is written: marker c (c = 0, 1, 2, …) at tick
     (c+1)*2^23, word 0xFF << 24 | top << 23 | c (23 bits), where top = (c odd): the first marker (half way through
     the first turn) has the top bit clear, and the bit alternates;
   * the FIFO does not keep edges and markers strictly in time order: an edge may appear on the other side of a
     marker, displaced by LESS THAN HALF A WRAP (2^23 ticks) from the window of its neighbours;
   * scaler blocks (tag 0xFE00003C, 59 u32 scalers, one u32 clock: 244 bytes) are interleaved at word boundaries.
   Definitions only. *)
From AG Require Import Base.Prelude Base.Res Base.Bytes Codec.Chrono Apps.CbTime.

Inductive hw_event :=
| HEdge (T : N) (channel : N) (trailing : bool)     (* an input edge at absolute tick T *)
| HMarker (c : N)                                   (* wrap-around marker number c *)
| HScalers (body : list N).                         (* the 240 bytes after the tag *)

Definition HALF : N := 8388608.                     (* 2^23 ticks: half a turn of the 24-bit counter *)
Definition TURN : N := 16777216.                    (* 2^24 *)

Definition oddN (c : N) : bool := c mod 2 =? 1.

Definition le32 (w : N) : list N :=
  [w mod 256; (w / 256) mod 256; (w / 65536) mod 256; (w / 16777216) mod 256].

Definition edge_word (T ch : N) (trailing : bool) : N :=
  (128 + ch) * TURN + (T mod TURN) / 2 * 2 + (if trailing then 1 else 0).
Definition marker_word (c : N) : N :=
  255 * TURN + (if oddN c then HALF else 0) + c mod HALF.

Definition hw_bytes (ev : hw_event) : list N :=
  match ev with
  | HEdge T ch tr => le32 (edge_word T ch tr)
  | HMarker c => le32 (marker_word c)
  | HScalers body => 0x3C :: 0 :: 0 :: 0xFE :: body
  end.

(* the byte stream of one board *)
Fixpoint hw_stream (evs : list hw_event) : list N :=
  match evs with
  | [] => []
  | ev :: r => hw_bytes ev ++ hw_stream r
  end.

(* the true time of an edge at the resolution the hardware reports: bit 0 of the counter is sacrificed to the edge flag *)
Definition true_time (T : N) : N := T - T mod 2.

(* Well-formedness of an event sequence, k = number of markers written so far: markers are numbered consecutively
   (the next one is k, at tick (k+1)*HALF; the previous one, k-1, was at tick k*HALF), so an edge in this position of the
   FIFO nominally has k*HALF <= T < (k+1)*HALF; it may be displaced by less than HALF:
   k*HALF - HALF <= T < (k+1)*HALF + HALF.  The counter must not exhaust its 23 bits. *)
Fixpoint hw_wf (k : N) (evs : list hw_event) : Prop :=
  match evs with
  | [] => True
  | HEdge T ch _ :: r => ch < 59 /\ k * HALF <= T + HALF /\ T < (k + 1) * HALF + HALF /\ hw_wf k r
  | HMarker c :: r => c = k /\ k + 1 < HALF /\ hw_wf (k + 1) r
  | HScalers body :: r => lenN body = 240 /\ hw_wf k r
  end.

Fixpoint hw_wfb_from (k : N) (evs : list hw_event) : bool :=
  match evs with
  | [] => true
  | HEdge T ch _ :: r => (ch <? 59) && (k * HALF <=? T + HALF) && (T <? (k + 1) * HALF + HALF) && hw_wfb_from k r
  | HMarker c :: r => (c =? k) && (k + 1 <? HALF) && hw_wfb_from (k + 1) r
  | HScalers body :: r => (lenN body =? 240) && hw_wfb_from k r
  end.
Definition hw_wfb (evs : list hw_event) : bool := hw_wfb_from 0 evs.

Fixpoint has_marker (evs : list hw_event) : bool :=
  match evs with
  | [] => false
  | HMarker _ :: _ => true
  | _ :: r => has_marker r
  end.

(* What the CSV must contain for this board, written directly from the events (the specification): one row per edge
   after the first marker (k >= 1), in FIFO order; the time is the true time when the edge sits in its own window
   [k*HALF, (k+1)*HALF) and a later marker closes the window, and empty otherwise (displaced across a marker, or after
   the last marker). *)
Fixpoint hw_rows_from (b k : N) (evs : list hw_event) : list row :=
  match evs with
  | [] => []
  | HEdge T ch tr :: r =>
      if k =? 0 then hw_rows_from b k r
      else Row b ch (negb tr)
             (if has_marker r && (k * HALF <=? T) && (T <? (k + 1) * HALF) then Some (true_time T) else None)
           :: hw_rows_from b k r
  | HMarker _ :: r => hw_rows_from b (k + 1) r
  | HScalers _ :: r => hw_rows_from b k r
  end.
Definition hw_rows (b : N) (evs : list hw_event) : list row := hw_rows_from b 0 evs.

(* the outcome for one board: without any marker there is no counter-0 marker and the program must refuse *)
Definition hw_board (b : N) (evs : list hw_event) : res (list row) :=
  if has_marker evs then Ok (hw_rows b evs) else Err E_NO_EPOCH0.

(* several boards, listed in ascending board order, each once *)
Fixpoint hw_program (boards : list (N * list hw_event)) : res (list row) :=
  match boards with
  | [] => Ok []
  | (b, evs) :: r =>
      match hw_board b evs, hw_program r with
      | Ok rs, Ok rs' => Ok (rs ++ rs')
      | _, _ => Err E_NO_EPOCH0
      end
  end.

(* the entries the parser must return for the stream of these events *)
Fixpoint hw_entries (evs : list hw_event) : list entry :=
  match evs with
  | [] => []
  | HEdge T ch tr :: r => TS ch tr ((T mod TURN) / 2 * 2) :: hw_entries r
  | HMarker c :: r => MK (oddN c) (c mod HALF) :: hw_entries r
  | HScalers _ :: r => hw_entries r
  end.

(* the edges the CSV is about (those after the first marker), with what the generator knows about each:
   k = number of markers written before it (its FIFO window is [k*HALF, (k+1)*HALF)), the absolute tick T,
   channel, edge, and whether a later marker closes the window *)
Record hw_edge := HE { he_k : N; he_T : N; he_ch : N; he_tr : bool; he_later : bool }.
Fixpoint hw_edges_from (k : N) (evs : list hw_event) : list hw_edge :=
  match evs with
  | [] => []
  | HEdge T ch tr :: r =>
      if k =? 0 then hw_edges_from k r else HE k T ch tr (has_marker r) :: hw_edges_from k r
  | HMarker _ :: r => hw_edges_from (k + 1) r
  | HScalers _ :: r => hw_edges_from k r
  end.
Definition hw_edges (evs : list hw_event) : list hw_edge := hw_edges_from 0 evs.
(* the edge lies between the two markers it is enclosed by in the FIFO (not displaced to the wrong side) *)
Definition in_window (e : hw_edge) : Prop := he_k e * HALF <= he_T e /\ he_T e < (he_k e + 1) * HALF.

(* the buffers the program must end up with for these boards *)
Definition hw_pieces (boards : list (N * list hw_event)) : buffers :=
  map (fun be => (fst be, hw_stream (snd be))) boards.

(* what a CSV row must say about an edge *)
Definition row_matches (b : N) (e : hw_edge) (r : row) : Prop :=
  r_board r = b /\ r_channel r = he_ch e /\ r_leading r = negb (he_tr e) /\
  (forall t, r_time r = Some t -> t = true_time (he_T e)) /\
  (r_time r = None <-> ~ (he_later e = true /\ in_window e)).
