(* Proofs for Apps/CbFaults.v: one contiguous damage of a hardware FIFO stream (a marker dropped, duplicated, replaced
   by any other valid word or words) never makes the program print a WRONG non-empty time for a surviving edge.
   Reason (case analysis on chronobox_time_some): a non-empty time needs the last marker before and the first marker
   after the timestamp to carry counters c, c+1 with different top bits, and the timestamp's top bit to differ from
   the previous marker's.  With a single damaged stretch at least ONE of the two markers around a surviving edge is an
   original one, (oddN k', k'); the consecutive-counter and alternating-top-bit tests then force the other one to be
   the value the original marker had, and the arithmetic core hw_time_core applies. *)
From Coq Require Import Sorted.
From AG Require Import Base.Prelude Base.Res Base.Bytes Base.Mask Codec.Chrono Codec.Chrono_proofs
  Apps.CbTime Apps.CbHardware Apps.CbTime_proofs Apps.CbFaults.

(* ================================================================================================
   1. the faulted stream parses to its entries
   ================================================================================================ *)
Lemma Elems_app p1 es1 : Elems p1 es1 -> forall p2 es2, Elems p2 es2 -> Elems (p1 ++ p2) (es1 ++ es2).
Proof.
  induction 1 as [|b0 b1 b2 b3 e p es Hw _ IH|blk p es Hb _ IH]; intros p2 es2 H2; cbn [app].
  - assumption.
  - econstructor; [exact Hw|]. apply IH. assumption.
  - rewrite <- app_assoc. constructor; [assumption|]. apply IH. assumption.
Qed.

Lemma entry_word_bytes e : word_ok e ->
  exists b0 b1 b2 b3, le32 (entry_word e) = [b0; b1; b2; b3] /\ word b0 b1 b2 b3 = Some e.
Proof.
  destruct e as [ch tr ts|top c]; cbn [word_ok entry_word]; unfold TURN, HALF.
  - intros (Hc & Ht & He).
    set (m := ts + (if tr then 1 else 0)).
    assert (Hm : m < 16777216) by (subst m; destruct tr; lia).
    destruct (le32_split (128 + ch) m ltac:(lia) Hm) as (b0 & b1 & b2 & Hl & H0 & H1 & H2 & Hs & Hp & _).
    rewrite <- N.add_assoc. fold m. rewrite Hl. exists b0, b1, b2, (128 + ch). split; [reflexivity|].
    rewrite cb_classify_word_lemma by lia. unfold word_spec, temp24.
    replace (128 <=? 128 + ch) with true by (symmetry; apply N.leb_le; lia).
    replace (128 + ch <? 128 + 59) with true by (symmetry; apply N.ltb_lt; lia). cbn [andb].
    f_equal. f_equal.
    + lia.
    + subst m. destruct tr; [apply N.eqb_eq | apply N.eqb_neq]; lia.
    + rewrite Hs. subst m. destruct tr; lia.
  - intros Hc.
    set (m := (if top then 8388608 else 0) + c).
    assert (Hm : m < 16777216) by (subst m; destruct top; lia).
    destruct (le32_split 255 m ltac:(lia) Hm) as (b0 & b1 & b2 & Hl & H0 & H1 & H2 & Hs & _ & Ht).
    rewrite <- N.add_assoc. fold m. rewrite Hl. exists b0, b1, b2, 255. split; [reflexivity|].
    rewrite cb_classify_word_lemma by lia. unfold word_spec, temp24.
    change ((128 <=? 255) && (255 <? 128 + 59)) with false. change (255 =? 255) with true. cbn iota.
    rewrite Hs, Ht. f_equal. f_equal.
    + subst m. destruct top; [apply N.leb_le | apply N.leb_gt]; lia.
    + subst m. destruct top; lia.
Qed.

Lemma words_elems : forall X, Forall word_ok X -> Elems (words_stream X) X.
Proof.
  induction X as [|e X IH]; intros H; cbn [words_stream]; [constructor|].
  inversion H as [|? ? He HX]; subst.
  destruct (entry_word_bytes e He) as (b0 & b1 & b2 & b3 & -> & Hw). cbn [app].
  econstructor; [exact Hw|]. apply IH. assumption.
Qed.

Lemma hw_tagged_entries : forall evs, map fst (hw_tagged evs) = hw_entries evs.
Proof.
  induction evs as [|[T ch tr|c|body] r IH]; cbn [hw_tagged hw_entries map fst]; [reflexivity| | |assumption];
    rewrite IH; reflexivity.
Qed.
Lemma junk_entries X : map fst (junk X) = X.
Proof. unfold junk. rewrite map_map. cbn [fst]. apply map_id. Qed.
Lemma fault_tagged_entries l1 X l2 : map fst (fault_tagged l1 X l2) = hw_entries l1 ++ X ++ hw_entries l2.
Proof. unfold fault_tagged. rewrite !map_app, !hw_tagged_entries, junk_entries. reflexivity. Qed.

Lemma hw_wf_app : forall a k b, hw_wf k (a ++ b) -> hw_wf k a /\ exists k', hw_wf k' b.
Proof.
  induction a as [|[T ch tr|c|body] r IH]; intros k b H; cbn [app hw_wf] in *.
  - split; [exact I|]. exists k. assumption.
  - destruct H as (H1 & H2 & H3 & H). destruct (IH k b H) as (Ha & Hb). tauto.
  - destruct H as (H1 & H2 & H). destruct (IH (k + 1) b H) as (Ha & Hb). tauto.
  - destruct H as (H1 & H). destruct (IH k b H) as (Ha & Hb). tauto.
Qed.

Lemma fault_parse l1 X l2 k1 k2 : hw_wf k1 l1 -> hw_wf k2 l2 -> Forall word_ok X ->
  cb_fifo (fault_stream l1 X l2) = (map fst (fault_tagged l1 X l2), []).
Proof.
  intros H1 H2 HX. rewrite fault_tagged_entries. unfold fault_stream.
  rewrite <- (app_nil_r (hw_stream l1 ++ words_stream X ++ hw_stream l2)).
  apply cb_fifo_elems; [|reflexivity].
  apply Elems_app; [eapply hw_elems; eassumption|].
  apply Elems_app; [apply words_elems; assumption|eapply hw_elems; eassumption].
Qed.

(* ================================================================================================
   2. a surviving edge with ONE original marker next to it has an empty or the true time
   ================================================================================================ *)
(* the marker before / after an edge of FIFO window k is the one the fault-free stream has there (or is missing) *)
Definition good_prev (k : N) (p : option marker) : Prop := p = None \/ (1 <= k /\ p = Some (oddN (k - 1), k - 1)).
Definition good_next (k : N) (n : option marker) : Prop := n = None \/ n = Some (oddN k, k).
Definition edge_in (k T : N) : Prop := k * HALF <= T + HALF /\ T < (k + 1) * HALF + HALF.

Lemma oddN_pred k : 1 <= k -> oddN k = negb (oddN (k - 1)).
Proof.
  intros Hk. destruct (oddN_cases k) as [[-> M]|[-> M]]; destruct (oddN_cases (k - 1)) as [[-> M']|[-> M']];
    try reflexivity; exfalso; lia.
Qed.

Lemma edge_sound k T p n t : edge_in k T -> good_prev k p \/ good_next k n ->
  chronobox_time (T mod TURN / 2 * 2) p n = Some t -> t = true_time T.
Proof.
  intros [Hlo Hhi] Hg Hs. pose proof Hs as Hs'.
  apply chronobox_time_some in Hs' as (ptop & pcnt & ntop & -> & -> & Hn & _ & _).
  assert (Hk : 1 <= k /\ pcnt = k - 1 /\ ptop = oddN (k - 1) /\ ntop = oddN k).
  { destruct Hg as [[Hg|[Hk Hg]]|[Hg|Hg]]; try discriminate.
    - injection Hg as -> ->. split; [assumption|]. split; [reflexivity|]. split; [reflexivity|].
      rewrite (oddN_pred k Hk). destruct ntop, (oddN (k - 1)); try reflexivity; exfalso; apply Hn; reflexivity.
    - injection Hg as -> <-. assert (1 <= pcnt + 1) as Hk by lia. split; [assumption|]. split; [lia|].
      split; [|reflexivity]. rewrite (oddN_pred (pcnt + 1) Hk) in Hn.
      destruct ptop, (oddN (pcnt + 1 - 1)); try reflexivity; exfalso; apply Hn; reflexivity. }
  destruct Hk as (Hk & -> & -> & ->). replace (k - 1 + 1) with k in Hs by lia.
  rewrite (hw_time_core k T Hk Hlo Hhi) in Hs.
  destruct ((k * HALF <=? T) && (T <? (k + 1) * HALF)); [|discriminate]. injection Hs as <-. reflexivity.
Qed.

(* every surviving edge of a tagged entry list has an original marker before it or after it *)
Fixpoint all_good (prev : option marker) (L : list tagged) : Prop :=
  match L with
  | [] => True
  | (TS ch tr ts, Some T) :: r =>
      (exists k, ts = T mod TURN / 2 * 2 /\ edge_in k T /\ (good_prev k prev \/ good_next k (first_mk (map fst r)))) /\
      all_good prev r
  | (TS _ _ _, None) :: r => all_good prev r
  | (MK top c, _) :: r => all_good (Some (top, c)) r
  end.

Lemma all_good_rows b : forall L prev, all_good prev L ->
  Forall2 (row_sound b) (owed true L) (rows_spec b prev (map fst L)).
Proof.
  induction L as [|[[ch tr ts|top c] o] r IH]; intros prev H; cbn [owed map fst rows_spec orb] in *.
  - constructor.
  - destruct o as [T|].
    + destruct H as [(k & -> & Hin & Hg) H]. constructor; [|apply IH; assumption].
      unfold row_sound. cbn [r_board r_channel r_leading r_time fst snd]. split; [reflexivity|]. split; [split; reflexivity|].
      intros T' [= <-].
      destruct (chronobox_time (T mod TURN / 2 * 2) prev (first_mk (map fst r))) as [t|] eqn:E; [right|left; reflexivity].
      f_equal. eapply edge_sound; eassumption.
    + constructor; [|apply IH; assumption].
      unfold row_sound. cbn [r_board r_channel r_leading r_time fst snd]. split; [reflexivity|]. split; [split; reflexivity|].
      intros T' [=].
  - apply IH. assumption.
Qed.

Lemma all_good_after_marker : forall L0 p top c o L', all_good p (L0 ++ (MK top c, o) :: L') -> all_good (Some (top, c)) L'.
Proof.
  induction L0 as [|[[ch tr ts|top0 c0] o0] r IH]; intros p top c o L' H; cbn [app all_good] in H.
  - assumption.
  - destruct o0; [destruct H as [_ H]|]; eapply IH; eassumption.
  - eapply IH; eassumption.
Qed.

(* the prefix segment: good_prev is an invariant of a well-formed stretch *)
Lemma all_good_prefix : forall l k prev rest, hw_wf k l -> good_prev k prev ->
  all_good (last_mk prev (hw_entries l)) rest -> all_good prev (hw_tagged l ++ rest).
Proof.
  induction l as [|[T ch tr|c|body] r IH]; intros k prev rest Hw Hg Hr; cbn [hw_tagged hw_entries last_mk app all_good hw_wf] in *.
  - assumption.
  - destruct Hw as (Hc & Hlo & Hhi & Hw). split; [|eapply IH; eassumption].
    exists k. split; [reflexivity|]. split; [split; assumption|]. left. assumption.
  - destruct Hw as (-> & Hk & Hw). apply (IH (k + 1)); [assumption| |assumption].
    right. split; [lia|]. replace (k + 1 - 1) with k by lia. unfold HALF in *. rewrite N.mod_small by lia. reflexivity.
  - destruct Hw as (Hb & Hw). eapply IH; eassumption.
Qed.

Lemma all_good_junk : forall X prev rest, all_good (last_mk prev X) rest -> all_good prev (junk X ++ rest).
Proof.
  induction X as [|[ch tr ts|top c] X IH]; intros prev rest H; cbn [junk map app all_good last_mk] in *.
  - assumption.
  - apply IH. assumption.
  - apply IH. assumption.
Qed.

(* the suffix segment: whatever precedes it, the first marker after each of its edges is an original one *)
Lemma all_good_suffix : forall l k prev, hw_wf k l -> all_good prev (hw_tagged l).
Proof.
  induction l as [|[T ch tr|c|body] r IH]; intros k prev Hw; cbn [hw_tagged all_good hw_wf] in *.
  - exact I.
  - destruct Hw as (Hc & Hlo & Hhi & Hw). split; [|eapply IH; eassumption].
    exists k. split; [reflexivity|]. split; [split; assumption|]. right.
    rewrite hw_tagged_entries, (hw_first_mk r k Hw). destruct (has_marker r); [right|left]; reflexivity.
  - destruct Hw as (_ & _ & Hw). eapply IH; eassumption.
  - destruct Hw as (_ & Hw). eapply IH; eassumption.
Qed.

Lemma fault_all_good l1 X l2 k2 : hw_wf 0 l1 -> hw_wf k2 l2 -> all_good None (fault_tagged l1 X l2).
Proof.
  intros H1 H2. unfold fault_tagged. apply (all_good_prefix l1 0); [assumption|left; reflexivity|].
  apply all_good_junk. eapply all_good_suffix; eassumption.
Qed.

(* ================================================================================================
   3. the skip to the first counter-0 marker
   ================================================================================================ *)
Lemma owed_skip : forall L s, from_first is_mk0 (map fst L) = Some s ->
  exists L0 top o L', L = L0 ++ (MK top 0, o) :: L' /\ s = MK top 0 :: map fst L' /\ owed false L = owed true L'.
Proof.
  induction L as [|[[ch tr ts|top c] o] r IH]; intros s; cbn [map fst from_first is_mk0 owed orb]; [discriminate| |].
  - intros H. destruct (IH s H) as (L0 & top & o' & L' & -> & -> & Ho).
    exists ((TS ch tr ts, o) :: L0), top, o', L'. split; [reflexivity|]. split; [reflexivity|assumption].
  - destruct (N.eqb_spec c 0) as [->|Hc].
    + intros [= <-]. exists [], top, o, r. split; [reflexivity|]. split; reflexivity.
    + intros H. destruct (IH s H) as (L0 & top' & o' & L' & -> & -> & Ho).
      exists ((MK top c, o) :: L0), top', o', L'. split; [reflexivity|]. split; [reflexivity|assumption].
Qed.

(* ================================================================================================
   4. one board
   ================================================================================================ *)
Theorem fault_board b l1 mid X l2 :
  hw_wf 0 (l1 ++ mid ++ l2) -> Forall word_ok X ->
  (exists k, cb_board_fifo (fault_stream l1 X l2) = Err k) \/
  (exists fifo rows, cb_board_fifo (fault_stream l1 X l2) = Ok fifo /\ board_rows b fifo = Ok rows /\
     Forall2 (row_sound b) (owed false (fault_tagged l1 X l2)) rows).
Proof.
  intros Hw HX. destruct (hw_wf_app _ _ _ Hw) as (H1 & k' & Hw'). destruct (hw_wf_app _ _ _ Hw') as (_ & k2 & H2).
  rewrite cb_board_fifo_eq, (fault_parse l1 X l2 0 k2 H1 H2 HX).
  destruct (from_first is_mk0 (map fst (fault_tagged l1 X l2))) as [s|] eqn:Ef; [|left; eexists; reflexivity].
  destruct (owed_skip _ _ Ef) as (L0 & top & o & L' & EL & -> & Ho).
  destruct top; [left; eexists; reflexivity|]. right.
  exists (MK false 0 :: map fst L'), (rows_spec b None (MK false 0 :: map fst L')).
  split; [reflexivity|]. split; [apply board_rows_spec|]. rewrite Ho. cbn [rows_spec].
  apply all_good_rows. pose proof (fault_all_good l1 X l2 k2 H1 H2) as Hg. rewrite EL in Hg.
  eapply all_good_after_marker; eassumption.
Qed.

(* ================================================================================================
   5. the program, the board's stream cut arbitrarily into banks
   ================================================================================================ *)
Lemma cb_program_single b s :
  cb_program [(b, s)] = do f <- cb_board_fifo s; board_rows b f.
Proof.
  unfold cb_program, cb_buffers. cbn [fold_left bt_extend fst snd cb_fifos].
  destruct (cb_board_fifo s) as [f| |]; cbn [bind all_rows]; try reflexivity.
  destruct (board_rows b f) as [rs| |]; cbn [bind]; try reflexivity. rewrite app_nil_r. reflexivity.
Qed.

Lemma absent_concat b : forall pieces, present b pieces = false -> concat_of b pieces = [].
Proof.
  induction pieces as [|[b0 d0] ps IH]; intros H; [reflexivity|].
  rewrite present_cons in H. apply orb_false_iff in H as [H0 H]. rewrite concat_of_cons, H0. apply IH. assumption.
Qed.

Lemma cb_program_one_board b s pieces :
  (forall b', present b' pieces = (b' =? b)) -> concat_of b pieces = s ->
  cb_program pieces = do f <- cb_board_fifo s; board_rows b f.
Proof.
  intros Hp Hc. rewrite <- cb_program_single. apply cb_program_cut_invariant.
  - intros b'. rewrite Hp, present_cons. cbn [present existsb]. rewrite orb_false_r. apply N.eqb_sym.
  - intros b'. rewrite concat_of_cons. destruct (N.eqb_spec b b') as [<-|Hne].
    + rewrite Hc. unfold concat_of, pieces_of. cbn. rewrite app_nil_r. reflexivity.
    + unfold concat_of at 2, pieces_of. cbn [filter map concat]. apply absent_concat. rewrite Hp.
      apply N.eqb_neq. congruence.
Qed.

Theorem fault_program b l1 mid X l2 pieces :
  hw_wf 0 (l1 ++ mid ++ l2) -> Forall word_ok X ->
  (forall b', present b' pieces = (b' =? b)) -> concat_of b pieces = fault_stream l1 X l2 ->
  (exists k, cb_program pieces = Err k) \/
  (exists rows, cb_program pieces = Ok rows /\ Forall2 (row_sound b) (owed false (fault_tagged l1 X l2)) rows).
Proof.
  intros Hw HX Hp Hc. rewrite (cb_program_one_board b _ pieces Hp Hc).
  destruct (fault_board b l1 mid X l2 Hw HX) as [(k & ->)|(fifo & rows & -> & Hr & HF)]; cbn [bind].
  - left. eexists. reflexivity.
  - right. exists rows. split; assumption.
Qed.

(* ================================================================================================
   6. the named single faults
   ================================================================================================ *)
Theorem fault_burst b l1 mid X l2 : hw_wf 0 (l1 ++ mid ++ l2) -> Forall word_ok X ->
  fault_sound b (fault_stream l1 X l2) (fault_tagged l1 X l2).
Proof. intros Hw HX pieces Hp Hc. eapply fault_program; eassumption. Qed.

Lemma hw_stream_app : forall a b, hw_stream (a ++ b) = hw_stream a ++ hw_stream b.
Proof. induction a as [|e a IH]; intros b; cbn [app hw_stream]; [reflexivity|]. rewrite IH, app_assoc. reflexivity. Qed.
Lemma hw_tagged_app : forall a b, hw_tagged (a ++ b) = hw_tagged a ++ hw_tagged b.
Proof.
  induction a as [|[T ch tr|c|body] a IH]; intros b; cbn [app hw_tagged]; [reflexivity| | |apply IH]; rewrite IH; reflexivity.
Qed.

(* a marker word written where the hardware model writes none (in particular: a second copy of any marker of the
   stream, next to the first or anywhere else) *)
Theorem fault_spurious_marker b l1 l2 c : hw_wf 0 (l1 ++ l2) ->
  fault_sound b (hw_stream (l1 ++ HMarker c :: l2)) (hw_tagged (l1 ++ HMarker c :: l2)).
Proof.
  intros Hw. pose proof (fault_burst b l1 [] [MK (oddN c) (c mod HALF)] l2 Hw) as H.
  unfold fault_stream, fault_tagged in H. rewrite hw_stream_app, hw_tagged_app. cbn [hw_stream hw_tagged hw_bytes].
  cbn [words_stream junk map app entry_word] in H. rewrite app_nil_r in H. apply H.
  constructor; [|constructor]. cbn [word_ok]. unfold HALF. lia.
Qed.

Theorem fault_single_marker b l1 m l2 : hw_wf 0 (l1 ++ HMarker m :: l2) ->
  fault_sound b (hw_stream (l1 ++ l2)) (hw_tagged (l1 ++ l2)) /\
  fault_sound b (hw_stream (l1 ++ HMarker m :: HMarker m :: l2)) (hw_tagged (l1 ++ HMarker m :: HMarker m :: l2)) /\
  (forall (top : bool) c, c < HALF ->
     fault_sound b (hw_stream l1 ++ le32 (255 * TURN + (if top then HALF else 0) + c) ++ hw_stream l2)
                   (hw_tagged l1 ++ (MK top c, None) :: hw_tagged l2)) /\
  (forall ch (tr : bool) ts, ch < 59 -> ts < TURN -> ts mod 2 = 0 ->
     fault_sound b (hw_stream l1 ++ le32 ((128 + ch) * TURN + ts + (if tr then 1 else 0)) ++ hw_stream l2)
                   (hw_tagged l1 ++ (TS ch tr ts, None) :: hw_tagged l2)).
Proof.
  intros Hw. assert (Hw' : hw_wf 0 (l1 ++ [HMarker m] ++ l2)) by exact Hw.
  split; [|split; [|split]].
  - pose proof (fault_burst b l1 [HMarker m] [] l2 Hw' (Forall_nil word_ok)) as H.
    unfold fault_stream, fault_tagged in H. cbn [words_stream junk map app] in H.
    rewrite hw_stream_app, hw_tagged_app. exact H.
  - apply (fault_spurious_marker b l1 (HMarker m :: l2) m). exact Hw.
  - intros top c Hc. pose proof (fault_burst b l1 [HMarker m] [MK top c] l2 Hw') as H.
    unfold fault_stream, fault_tagged in H. cbn [words_stream junk map app entry_word] in H. rewrite app_nil_r in H.
    apply H. constructor; [exact Hc|constructor].
  - intros ch tr ts Hc Ht He. pose proof (fault_burst b l1 [HMarker m] [TS ch tr ts] l2 Hw') as H.
    unfold fault_stream, fault_tagged in H. cbn [words_stream junk map app entry_word] in H. rewrite app_nil_r in H.
    apply H. constructor; [cbn [word_ok]; auto|constructor].
Qed.

(* ================================================================================================
   7. the faulted board among ARBITRARY other boards
   ================================================================================================ *)
Definition of_board (b : N) (r : row) : bool := r_board r =? b.

Lemma filter_rows_spec_same b : forall l prev, filter (of_board b) (rows_spec b prev l) = rows_spec b prev l.
Proof.
  induction l as [|[ch tr ts|top c] t IH]; intros prev; cbn [rows_spec filter]; [reflexivity| |apply IH].
  unfold of_board at 1. cbn [r_board]. rewrite N.eqb_refl, IH. reflexivity.
Qed.
Lemma filter_rows_spec_other b b' : b' <> b -> forall l prev, filter (of_board b) (rows_spec b' prev l) = [].
Proof.
  intros Hne. induction l as [|[ch tr ts|top c] t IH]; intros prev; cbn [rows_spec filter]; [reflexivity| |apply IH].
  unfold of_board at 1. cbn [r_board]. destruct (N.eqb_spec b' b); [contradiction|]. apply IH.
Qed.
Lemma filter_rows_absent b : forall fs, ~ In b (map fst fs) -> filter (of_board b) (rows_of_fifos fs) = [].
Proof.
  induction fs as [|[b' f'] fs IH]; intros Hn; [reflexivity|].
  unfold rows_of_fifos in *. cbn [flat_map fst snd map] in *. rewrite filter_app.
  rewrite filter_rows_spec_other by (intros ->; apply Hn; left; reflexivity).
  apply IH. intros Hi. apply Hn. right. assumption.
Qed.
Lemma filter_rows_of_fifos b : forall fs, NoDup (map fst fs) -> forall f, In (b, f) fs ->
  filter (of_board b) (rows_of_fifos fs) = rows_spec b None f.
Proof.
  induction fs as [|[b' f'] fs IH]; intros Hnd f Hi; [destruct Hi|].
  cbn [map fst] in Hnd. apply NoDup_cons_iff in Hnd as [Hni Hnd].
  unfold rows_of_fifos in *. cbn [flat_map fst snd]. rewrite filter_app. destruct Hi as [[= -> ->]|Hi].
  - rewrite filter_rows_spec_same. fold (rows_of_fifos fs). rewrite (filter_rows_absent b fs Hni). apply app_nil_r.
  - assert (b' <> b) by (intros ->; apply Hni; apply (in_map fst _ _ Hi)).
    rewrite filter_rows_spec_other by assumption. apply IH; assumption.
Qed.

Lemma ssorted_lt_nodup : forall l, StronglySorted N.lt l -> NoDup l.
Proof.
  induction l as [|a l IH]; intros H; [constructor|]. apply StronglySorted_inv in H as [Hs Hf].
  constructor; [|apply IH; assumption]. intros Hi. rewrite Forall_forall in Hf. specialize (Hf a Hi). lia.
Qed.

Lemma cb_fifos_keys : forall m fs, cb_fifos m = Ok fs -> map fst fs = keys m.
Proof.
  intros m fs H. apply cb_fifos_ok in H. induction H as [|bb bf m fs [Hk _] _ IH]; [reflexivity|].
  unfold keys in *. cbn [map]. rewrite Hk, IH. reflexivity.
Qed.
Lemma cb_fifos_in : forall m fs b buf, cb_fifos m = Ok fs -> In (b, buf) m ->
  exists f, In (b, f) fs /\ cb_board_fifo buf = Ok f.
Proof.
  intros m fs b buf H. apply cb_fifos_ok in H. induction H as [|bb [b' f'] m fs [Hk Hf] _ IH]; intros Hi; [destruct Hi|].
  cbn [fst snd] in *. destruct Hi as [->|Hi].
  - cbn [fst snd] in *. subst b'. exists f'. split; [left; reflexivity|assumption].
  - destruct (IH Hi) as (f & Hif & Hbf). exists f. split; [right; assumption|assumption].
Qed.

Theorem fault_program_boards b l1 mid X l2 pieces :
  hw_wf 0 (l1 ++ mid ++ l2) -> Forall word_ok X ->
  present b pieces = true -> concat_of b pieces = fault_stream l1 X l2 ->
  (exists k, cb_program pieces = Err k) \/
  (exists rows, cb_program pieces = Ok rows /\
     Forall2 (row_sound b) (owed false (fault_tagged l1 X l2)) (filter (of_board b) rows)).
Proof.
  intros Hw HX Hp Hc. destruct (cb_program pieces) as [rows|k|] eqn:E.
  - right. exists rows. split; [reflexivity|].
    apply cb_program_ok in E as (fs & Hfs & ->).
    assert (Hi : In (b, fault_stream l1 X l2) (cb_buffers pieces)) by (apply cb_buffers_in; split; [assumption|symmetry; assumption]).
    destruct (cb_fifos_in _ _ _ _ Hfs Hi) as (f & Hif & Hbf).
    assert (Hnd : NoDup (map fst fs)).
    { rewrite (cb_fifos_keys _ _ Hfs). apply ssorted_lt_nodup. apply cb_buffers_spec. }
    rewrite (filter_rows_of_fifos b fs Hnd f Hif).
    destruct (fault_board b l1 mid X l2 Hw HX) as [(k & Hk)|(fifo & rows & Hf & Hr & HF)]; [congruence|].
    rewrite Hbf in Hf. injection Hf as <-. rewrite board_rows_spec in Hr. injection Hr as <-. exact HF.
  - left. eexists. reflexivity.
  - exfalso. exact (cb_program_no_panic pieces E).
Qed.
