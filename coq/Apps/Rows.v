(* Model of the row pipeline shared by alpha-g-vertices and alpha-g-trg-scalers
   (analysis/src/bin/alpha-g-vertices/main.rs, analysis/src/bin/alpha-g-trg-scalers/main.rs).
   Definitions only.

   Abstraction: a MIDAS event is (event id, serial number, decoding result); the decoding result is
   `Some (timestamp, payload)` when the binary can decode the event (vertices:
   MainEvent::try_from_banks = Ok, payload = vertex(); scalers: exactly one ATAT bank and
   TrgPacket::try_from = Ok, payload = the five counters) and `None` otherwise.
   Assumed, not modelled: midasio's parsing of the file into events; rayon's indexed
   `par_extend(into_par_iter().filter().map())` keeps the order of the events (vertices binary;
   the scalers binary uses a sequential `extend`); `u64 as f64 / 62.5e6` and the csv writer
   (the harness compares the printed time with the exact quotient). *)
From AG Require Import Base.Prelude Base.Res Apps.FileOrder.

(* detector/src/midas.rs:54-64  EventId::try_from(u16) *)
Inductive event_id := Main | Chronobox | Sequencer2.
Definition event_id_try_from (n : N) : option event_id :=
  if n =? 1 then Some Main
  else if n =? 4 then Some Chronobox
  else if n =? 8 then Some Sequencer2
  else None.
(* matches!(EventId::try_from(event.id()), Ok(EventId::Main)) *)
Definition is_main (id : N) : bool :=
  match event_id_try_from id with Some Main => true | _ => false end.

(* u32::wrapping_sub on in-range values *)
Definition wsub32 (a b : N) : N := if b <=? a then a - b else a + 2 ^ 32 - b.

Section Rows.
  Variable P : Type.                                   (* payload columns of a decoded event *)

  Record event := { e_id : N; e_serial : N; e_dec : option (N * P) }.

  (* what the closure inside `rows.(par_)extend(...)` returns: (serial_number, decoded) *)
  Definition item : Type := N * option (N * P).
  (* a CSV row: serial number, and `Some (cumulative ticks, payload)` or `None` = all other fields empty *)
  Definition row : Type := N * option (N * P).

  (* vertices main.rs:84-114 / scalers main.rs:67-99: filter on the event id, one item per event, in order *)
  Definition main_items (evs : list event) : list item :=
    map (fun e => (e_serial e, e_dec e)) (filter (fun e => is_main (e_id e)) evs).

  (* the closure of `.scan((None, 0), ...)`: vertices main.rs:124-152, scalers main.rs:104-137 *)
  Definition scan_step (st : option N * N) (it : item) : (option N * N) * row :=
    let '(previous, cumulative) := st in
    let '(serial_number, decoded) := it in
    let timestamp := option_map fst decoded in
    (* let current = timestamp.unwrap_or(previous.unwrap_or(0)); *)
    let current := match timestamp with
                   | Some t => t
                   | None => match previous with Some p => p | None => 0 end
                   end in
    (* let delta = current.wrapping_sub(previous.unwrap_or(current)); *)
    let delta := wsub32 current (match previous with Some p => p | None => current end) in
    (* *previous = Some(current); *cumulative += u64::from(delta);
       (u64: cannot overflow before 2^32 events, Rows_proofs.scan_cumulative_bound) *)
    let cumulative' := cumulative + delta in
    ((Some current, cumulative'),
     match decoded with
     | Some (_, payload) => (serial_number, Some (cumulative', payload))   (* trg_time = cumulative / 62.5e6 *)
     | None => (serial_number, None)                                       (* Row { serial_number, ..Default } *)
     end).

  Fixpoint scan (st : option N * N) (items : list item) : list row :=
    match items with
    | [] => []
    | it :: rest => let '(st', r) := scan_step st it in r :: scan st' rest
    end.

  Definition scan_rows (items : list item) : list row := scan (None, 0) items.

  (* ---- whole run ---- *)
  Record file := { f_run : N; f_t0 : N; f_t1 : N; f_ext : list N; f_events : list event }.

  Definition arg_of (f : file) : arg file :=
    {| a_ext := f_ext f; a_run := f_run f; a_t0 := f_t0 f; a_path := f |}.

  (* the loop `for file in files`: vertices main.rs:62-76, scalers main.rs:51-65
       ensure!(file_view.initial_timestamp() - previous_final_timestamp <= 1, "missing file before ..")
     (u32 subtraction: overflow-checked build panics, release build wraps; both end the process
     with a non-zero status before the CSV is created) *)
  Fixpoint check_gaps (m : ovf) (previous_final : option N) (fs : list file) : res unit :=
    match fs with
    | [] => Ok tt
    | f :: rest =>
        do _ <- match previous_final with
                | None => Ok tt
                | Some p => do d <- usub m 32 (f_t0 f) p;
                            guard (negb (d <=? 1)) E_gap (Ok tt)
                end;
        check_gaps m (Some (f_t1 f)) rest
    end.

  (* rows written to the CSV for the command line `args` *)
  Definition run_rows (sort : list (hdr file) -> list (hdr file)) (m : ovf) (args : list file)
    : res (list row) :=
    do rf <- sort_run_files sort (map arg_of args);
    let files := snd rf in
    do _ <- check_gaps m None files;
    Ok (scan_rows (flat_map (fun f => main_items (f_events f)) files)).

  (* ---- specification vocabulary (used by the theorems, not by the model) ---- *)
  (* timestamps of the decodable items, in order *)
  Fixpoint dec_ts (items : list item) : list N :=
    match items with
    | [] => []
    | (_, Some (t, _)) :: rest => t :: dec_ts rest
    | (_, None) :: rest => dec_ts rest
    end.
  (* sum of the 32-bit-wrapped differences between consecutive elements *)
  Fixpoint wrapped_sum (ts : list N) : N :=
    match ts with
    | a :: tl => match tl with
                 | b :: _ => wsub32 b a + wrapped_sum tl
                 | [] => 0
                 end
    | [] => 0
    end.
End Rows.

Arguments e_id {P}. Arguments e_serial {P}. Arguments e_dec {P}.
Arguments f_run {P}. Arguments f_t0 {P}. Arguments f_t1 {P}. Arguments f_ext {P}. Arguments f_events {P}.
Arguments main_items {P}. Arguments scan_step {P}. Arguments scan {P}. Arguments scan_rows {P}.
Arguments check_gaps {P}. Arguments run_rows {P}. Arguments dec_ts {P}. Arguments arg_of {P}.

(* the instance run by the differential: insertion sort, release build *)
Definition run_rows_exec {P} (args : list (file P)) : res (list (row P)) :=
  run_rows isort Wrapping args.
