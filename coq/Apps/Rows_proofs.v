(* Proofs about the row pipeline model (Apps/Rows.v). *)
From AG Require Import Base.Prelude Base.Res Apps.FileOrder Apps.Rows.
From Coq Require Import Permutation Sorted.

Lemma is_main_iff : forall id, is_main id = true <-> id = 1.
Proof.
  intro id. unfold is_main, event_id_try_from.
  destruct (id =? 1) eqn:E1; [ split; [intros _; lia | reflexivity] |].
  destruct (id =? 4) eqn:E4; [ split; [discriminate | lia] |].
  destruct (id =? 8) eqn:E8; split; try discriminate; lia.
Qed.

Lemma wsub32_self : forall t, wsub32 t t = 0.
Proof. intro t. unfold wsub32. destruct (t <=? t) eqn:E; lia. Qed.

Lemma wsub32_zero : forall t, wsub32 t 0 = t.
Proof. intro t. unfold wsub32. destruct (0 <=? t) eqn:E; lia. Qed.

(* wsub32 is subtraction modulo 2^32 on 32-bit values *)
Lemma wsub32_spec : forall a b, a < 2 ^ 32 -> b < 2 ^ 32 ->
  Z.of_N (wsub32 a b) = ((Z.of_N a - Z.of_N b) mod 2 ^ 32)%Z.
Proof.
  intros a b Ha Hb. unfold wsub32.
  change (2 ^ 32) with 4294967296 in *. change (2 ^ 32)%Z with 4294967296%Z.
  destruct (b <=? a) eqn:E; lia.
Qed.

Lemma wsub32_lt : forall a b, a < 2 ^ 32 -> b < 2 ^ 32 -> wsub32 a b < 2 ^ 32.
Proof.
  intros a b Ha Hb. unfold wsub32. change (2 ^ 32) with 4294967296 in *.
  destruct (b <=? a) eqn:E; lia.
Qed.

(* two true tick counts less than one period apart: the wrapped difference of the 32-bit counter
   values is the true difference *)
Lemma wsub32_unwrap : forall T0 T1, T0 <= T1 -> T1 < T0 + 2 ^ 32 ->
  wsub32 (T1 mod 2 ^ 32) (T0 mod 2 ^ 32) = T1 - T0.
Proof.
  intros T0 T1 H0 H1. unfold wsub32. change (2 ^ 32) with 4294967296 in *.
  destruct (T0 mod 4294967296 <=? T1 mod 4294967296) eqn:E; lia.
Qed.

Section RowsProofs.
  Variable P : Type.
  Notation item := (item P).
  Notation row := (row P).
  Notation event := (event P).

  (* state of the scan after a list of items *)
  Fixpoint scan_state (st : option N * N) (items : list item) : option N * N :=
    match items with
    | [] => st
    | it :: rest => scan_state (fst (scan_step st it)) rest
    end.

  Lemma scan_cons : forall st (it : item) rest,
    scan st (it :: rest) = snd (scan_step st it) :: scan (fst (scan_step st it)) rest.
  Proof. intros. cbn [scan]. destruct (scan_step st it). reflexivity. Qed.

  Lemma scan_app : forall (a : list item) st b, scan st (a ++ b) = scan st a ++ scan (scan_state st a) b.
  Proof.
    induction a as [|it a IH]; intros st b; [reflexivity|].
    rewrite <- app_comm_cons, !scan_cons, IH. reflexivity.
  Qed.

  Lemma scan_length : forall (items : list item) st, length (scan st items) = length items.
  Proof. induction items as [|it r IH]; intro st; [reflexivity|]. rewrite scan_cons. cbn. now rewrite IH. Qed.

  (* the three cases of one step *)
  Lemma step_decoded : forall prev c s t (p : P),
    scan_step (prev, c) (s, Some (t, p)) =
    ((Some t, c + wsub32 t (match prev with Some q => q | None => t end)),
     (s, Some (c + wsub32 t (match prev with Some q => q | None => t end), p))).
  Proof. reflexivity. Qed.

  Lemma step_undecoded_some : forall q c s, scan_step (Some q, c) ((s, None) : item) = ((Some q, c), (s, None)).
  Proof. intros. unfold scan_step. cbn [option_map]. rewrite wsub32_self, N.add_0_r. reflexivity. Qed.

  Lemma step_undecoded_none : forall c s, scan_step (None, c) ((s, None) : item) = ((Some 0, c), (s, None)).
  Proof. intros. unfold scan_step. cbn [option_map]. rewrite wsub32_self, N.add_0_r. reflexivity. Qed.

  (* ---- one row per item: same serial numbers in the same order, empty fields iff undecodable,
          payload columns untouched ---- *)
  Definition row_matches (r : row) (serial : N) (d : option (N * P)) : Prop :=
    fst r = serial /\
    (snd r = None <-> d = None) /\
    (forall t p, d = Some (t, p) -> exists c, snd r = Some (c, p)).

  Lemma scan_rows_match : forall (items : list item) st,
    Forall2 (fun r it => row_matches r (fst it) (snd it)) (scan st items) items.
  Proof.
    induction items as [|[s d] rest IH]; intro st; [constructor|].
    rewrite scan_cons. constructor; [|apply IH].
    destruct st as [prev c]. destruct d as [[t p]|].
    - rewrite step_decoded. unfold row_matches. cbn [fst snd].
      split; [reflexivity|]. split; [split; discriminate|].
      intros t' p' H. inversion H; subst. eauto.
    - assert (Hr : snd (scan_step (prev, c) ((s, None) : item)) = (s, None))
        by (destruct prev; [rewrite step_undecoded_some | rewrite step_undecoded_none]; reflexivity).
      rewrite Hr. unfold row_matches. cbn [fst snd].
      split; [reflexivity|]. split; [split; reflexivity|]. discriminate.
  Qed.

  Lemma Forall2_map_r : forall A B C (R : A -> C -> Prop) (f : B -> C) l1 l2,
    Forall2 (fun a b => R a (f b)) l1 l2 -> Forall2 R l1 (map f l2).
  Proof. induction 1; cbn; constructor; auto. Qed.

  Lemma Forall2_map_r_inv : forall A B C (R : A -> C -> Prop) (f : B -> C) l2 l1,
    Forall2 R l1 (map f l2) -> Forall2 (fun a b => R a (f b)) l1 l2.
  Proof.
    induction l2; cbn; intros l1 H; inversion H; subst; constructor; auto.
  Qed.

  (* exactly one row per main event, in order, carrying its serial number; empty fields iff the event
     is undecodable; the payload columns are the event's; events of other types contribute nothing *)
  Theorem rows_one_per_main_lemma : forall evs : list event,
    Forall2 (fun r e => row_matches r (e_serial e) (e_dec e))
            (scan_rows (main_items evs))
            (filter (fun e => is_main (e_id e)) evs).
  Proof.
    intro evs. unfold scan_rows, main_items.
    exact (Forall2_map_r_inv _ _ _ (fun (r : row) (it : item) => row_matches r (fst it) (snd it))
             (fun e : event => (e_serial e, e_dec e)) _ _
             (scan_rows_match (map (fun e : event => (e_serial e, e_dec e)) _) (None, 0))).
  Qed.

  Lemma filter_mains_spec : forall (evs : list event) e,
    In e (filter (fun e => is_main (e_id e)) evs) <-> In e evs /\ e_id e = 1.
  Proof. intros. rewrite filter_In, is_main_iff. reflexivity. Qed.

  Theorem rows_skip_other_lemma : forall (a b : list event) e,
    e_id e <> 1 -> main_items (a ++ e :: b) = main_items (a ++ b).
  Proof.
    intros a b e H. unfold main_items. rewrite !filter_app. cbn [filter].
    destruct (is_main (e_id e)) eqn:E; [apply is_main_iff in E; contradiction | reflexivity].
  Qed.

  Theorem rows_count_lemma : forall evs : list event,
    length (scan_rows (main_items evs)) = length (filter (fun e => is_main (e_id e)) evs).
  Proof. intro. unfold scan_rows. rewrite scan_length. unfold main_items. apply map_length. Qed.

  (* ---- cumulative time ---- *)
  Lemma wrapped_sum_cons2 : forall a b l, wrapped_sum (a :: b :: l) = wsub32 b a + wrapped_sum (b :: l).
  Proof. reflexivity. Qed.

  (* from a state whose previous timestamp is t: the row of the next decodable item y after a block b *)
  Lemma scan_next_decodable : forall (b : list item) t c sy ty py rest,
    nth_error (scan (Some t, c) (b ++ (sy, Some (ty, py)) :: rest)) (length b) =
    Some (sy, Some (c + wrapped_sum (t :: dec_ts b ++ [ty]), py)).
  Proof.
    induction b as [|[s d] b IH]; intros t c sy ty py rest.
    - cbn [app length]. rewrite scan_cons, step_decoded. cbn [nth_error snd dec_ts app].
      rewrite wrapped_sum_cons2. cbn [wrapped_sum]. rewrite N.add_0_r. reflexivity.
    - rewrite <- app_comm_cons, scan_cons. cbn [length nth_error].
      destruct d as [[t2 p2]|].
      + rewrite step_decoded. cbn [fst]. rewrite IH. cbn [dec_ts]. rewrite <- app_comm_cons, wrapped_sum_cons2.
        rewrite N.add_assoc. reflexivity.
      + rewrite step_undecoded_some. cbn [fst]. rewrite IH. reflexivity.
  Qed.

  (* For two decodable events x before y (anything before, between and after them): the cumulative
     ticks of y exceed those of x by the sum of the wrapped differences along the chain
     x, the decodable events in between, y.  Undecodable events in between contribute nothing and do
     not disturb the reference timestamp. *)
  Theorem ticks_difference_lemma : forall (a b rest : list item) sx tx px sy ty py,
    let items := a ++ (sx, Some (tx, px)) :: b ++ (sy, Some (ty, py)) :: rest in
    exists cx,
      nth_error (scan_rows items) (length a) = Some (sx, Some (cx, px)) /\
      nth_error (scan_rows items) (length a + 1 + length b) =
        Some (sy, Some (cx + wrapped_sum (tx :: dec_ts b ++ [ty]), py)).
  Proof.
    intros a b rest sx tx px sy ty py items. unfold items, scan_rows.
    rewrite scan_app. destruct (scan_state (None, 0) a) as [prev c] eqn:Est.
    rewrite scan_cons, step_decoded. cbn [fst snd].
    set (cx := c + wsub32 tx match prev with Some q => q | None => tx end).
    exists cx. split.
    - rewrite nth_error_app2; rewrite scan_length; [|lia]. rewrite N.sub_diag || idtac.
      replace (length a - length a)%nat with 0%nat by lia. reflexivity.
    - rewrite nth_error_app2; rewrite scan_length; [|lia].
      replace (length a + 1 + length b - length a)%nat with (S (length b)) by lia.
      cbn [nth_error]. apply scan_next_decodable.
  Qed.

  (* the origin of the time axis: 0 when the first main event is decodable ... *)
  Theorem ticks_origin_first_lemma : forall s t p (rest : list item),
    nth_error (scan_rows ((s, Some (t, p)) :: rest)) 0 = Some (s, Some (0, p)).
  Proof.
    intros. unfold scan_rows. rewrite scan_cons, step_decoded. cbn [nth_error snd].
    rewrite wsub32_self. reflexivity.
  Qed.

  Lemma scan_state_undecodable : forall (a : list item) c, a <> [] -> dec_ts a = [] ->
    scan_state (None, c) a = (Some 0, c).
  Proof.
    intros a c Hne Hd. destruct a as [|[s d] a]; [contradiction|]. clear Hne.
    destruct d as [[t p]|]; [discriminate|]. cbn [scan_state]. rewrite step_undecoded_none. cbn [fst].
    cbn [dec_ts] in Hd. revert Hd. induction a as [|[s' d'] a IH]; intro Hd; [reflexivity|].
    destruct d' as [[t p]|]; [discriminate|]. cbn [scan_state]. rewrite step_undecoded_some. cbn [fst].
    apply IH. exact Hd.
  Qed.

  (* ... but the raw counter value of the first decodable event when undecodable main events precede it
     (`previous.unwrap_or(0)` makes 0 the reference).  The property constrains differences only. *)
  Theorem ticks_origin_after_undecodable_lemma : forall (a rest : list item) s t p,
    a <> [] -> dec_ts a = [] ->
    nth_error (scan_rows (a ++ (s, Some (t, p)) :: rest)) (length a) = Some (s, Some (t, p)).
  Proof.
    intros a rest s t p Hne Hd. unfold scan_rows. rewrite scan_app, (scan_state_undecodable a 0 Hne Hd).
    rewrite nth_error_app2; rewrite scan_length; [|lia].
    replace (length a - length a)%nat with 0%nat by lia.
    rewrite scan_cons, step_decoded. cbn [nth_error snd]. rewrite wsub32_zero, N.add_0_l. reflexivity.
  Qed.

  (* ---- unwrapped time: if the true tick counts of consecutive decodable events are less than one
          32-bit period apart, the wrapped sum is the true elapsed time ---- *)
  Fixpoint slow_chain (T0 : N) (T : list N) : Prop :=
    match T with
    | [] => True
    | T1 :: rest => T0 <= T1 /\ T1 < T0 + 2 ^ 32 /\ slow_chain T1 rest
    end.

  Theorem wrapped_sum_unwrap_lemma : forall T T0, slow_chain T0 T ->
    wrapped_sum (map (fun x => x mod 2 ^ 32) (T0 :: T)) = last T T0 - T0.
  Proof.
    induction T as [|T1 T IH]; intros T0 H.
    - cbn. lia.
    - destruct H as (H0 & H1 & H2). cbn [map]. rewrite wrapped_sum_cons2.
      change (wrapped_sum (T1 mod 2 ^ 32 :: map (fun x => x mod 2 ^ 32) T))
        with (wrapped_sum (map (fun x => x mod 2 ^ 32) (T1 :: T))).
      rewrite (IH T1 H2), (wsub32_unwrap T0 T1 H0 H1).
      assert (T1 <= last T T1).
      { clear - H2. revert T1 H2. induction T as [|T2 T IH]; intros T1 H; [cbn; lia|].
        destruct H as (Ha & _ & Hc). specialize (IH T2 Hc).
        replace (last (T2 :: T) T1) with (last T T2); [lia|].
        clear. revert T2. induction T; intros; [reflexivity|]. cbn [last] in *. destruct T; auto. }
      replace (last (T1 :: T) T0) with (last T T1); [lia|].
      clear. revert T1. induction T; intros; [reflexivity|]. cbn [last] in *. destruct T; auto.
  Qed.

  (* ---- the u64 accumulator cannot overflow before 2^32 main events ---- *)
  Definition ts32 (it : item) : Prop := forall t p, snd it = Some (t, p) -> t < 2 ^ 32.

  Lemma scan_state_bound : forall (items : list item) prev c,
    Forall ts32 items -> match prev with Some q => q < 2 ^ 32 | None => True end ->
    snd (scan_state (prev, c) items) <= c + (2 ^ 32 - 1) * N.of_nat (length items) /\
    match fst (scan_state (prev, c) items) with Some q => q < 2 ^ 32 | None => True end.
  Proof.
    induction items as [|[s d] items IH]; intros prev c HF Hp.
    - cbn. split; [lia | exact Hp].
    - inversion HF as [|? ? H1 H2]; subst. cbn [scan_state length].
      destruct d as [[t p]|].
      + rewrite step_decoded. cbn [fst].
        assert (Ht : t < 2 ^ 32) by (eapply H1; reflexivity).
        assert (Hd : wsub32 t match prev with Some q => q | None => t end < 2 ^ 32)
          by (apply wsub32_lt; [exact Ht | destruct prev; assumption]).
        destruct (IH (Some t) (c + wsub32 t match prev with Some q => q | None => t end) H2 Ht) as [Ha Hb].
        split; [|exact Hb]. change (2 ^ 32) with 4294967296 in *. lia.
      + destruct prev as [q|]; [rewrite step_undecoded_some | rewrite step_undecoded_none]; cbn [fst].
        * destruct (IH (Some q) c H2 Hp) as [Ha Hb]. split; [|exact Hb]. change (2 ^ 32) with 4294967296 in *. lia.
        * assert (H0 : 0 < 2 ^ 32) by (change (2 ^ 32) with 4294967296; lia).
          destruct (IH (Some 0) c H2 H0) as [Ha Hb]. split; [|exact Hb]. change (2 ^ 32) with 4294967296 in *. lia.
  Qed.

  Theorem scan_cumulative_bound_lemma : forall (items : list item) i s c p,
    Forall ts32 items -> N.of_nat (length items) <= 2 ^ 32 ->
    nth_error (scan_rows items) i = Some (s, Some (c, p)) -> c < 2 ^ 64.
  Proof.
    intros items i s c p HF Hlen Hn. unfold scan_rows in Hn.
    apply nth_error_split in Hn. destruct Hn as (l1 & l2 & Heq & Hi).
    (* the row at position i is produced from the state after the first i items *)
    assert (Hsplit : exists a it b, items = a ++ it :: b /\ length a = i).
    { clear - Heq Hi. assert (Hl : (i < length items)%nat).
      { rewrite <- (scan_length items (None, 0)), Heq, app_length. cbn. lia. }
      exists (firstn i items). destruct (skipn i items) as [|it b] eqn:Es.
      - assert (length (skipn i items) = 0%nat) by (rewrite Es; reflexivity). rewrite skipn_length in H. lia.
      - exists it, b. split; [rewrite <- Es; symmetry; apply firstn_skipn | rewrite firstn_length; lia]. }
    destruct Hsplit as (a & it & b & Hit & Ha). subst items.
    rewrite scan_app, scan_cons in Heq.
    assert (Hrow : snd (scan_step (scan_state (None, 0) a) it) = (s, Some (c, p))).
    { assert (Hn : nth_error (scan (None, 0) a ++ snd (scan_step (scan_state (None, 0) a) it)
                        :: scan (fst (scan_step (scan_state (None, 0) a) it)) b) i = Some (s, Some (c, p))).
      { rewrite Heq, nth_error_app2; [|lia]. replace (i - length l1)%nat with 0%nat by lia. reflexivity. }
      rewrite nth_error_app2 in Hn; rewrite scan_length in *; [|lia].
      replace (i - length a)%nat with 0%nat in Hn by lia. cbn in Hn. now inversion Hn. }
    apply Forall_app in HF. destruct HF as [HFa HFit]. inversion HFit as [|? ? Hit1 _]; subst.
    destruct (scan_state_bound a None 0 HFa I) as [Hb Hq].
    destruct (scan_state (None, 0) a) as [prev ca]. cbn [fst snd] in Hb, Hq.
    destruct it as [s' [[t' p']|]].
    - rewrite step_decoded in Hrow. cbn [snd] in Hrow. inversion Hrow; subst.
      assert (Ht : t' < 2 ^ 32) by (eapply Hit1; reflexivity).
      assert (Hd : wsub32 t' match prev with Some q => q | None => t' end < 2 ^ 32)
        by (apply wsub32_lt; [exact Ht | destruct prev; assumption]).
      rewrite app_length in Hlen. cbn [length] in Hlen.
      change (2 ^ 64) with 18446744073709551616. change (2 ^ 32) with 4294967296 in *. lia.
    - destruct prev; [rewrite step_undecoded_some in Hrow | rewrite step_undecoded_none in Hrow];
        cbn in Hrow; discriminate.
  Qed.
End RowsProofs.

(* ---- whole run: the rows do not depend on the order of the file arguments (nor on which sorting
        permutation sort_unstable_by_key picks); an accepted run is processed in the order of strictly
        increasing initial timestamps ---- *)
From AG Require Import Apps.FileOrder_proofs.

Section RunProofs.
  Variable P : Type.
  Notation file := (file P).

  Theorem run_rows_order_independent_lemma :
    forall (sort1 sort2 : list (hdr file) -> list (hdr file)) m (args args' : list file),
    sorting sort1 -> sorting sort2 -> Permutation args args' ->
    run_rows sort1 m args = run_rows sort2 m args'.
  Proof.
    intros sort1 sort2 m args args' H1 H2 Hp. unfold run_rows.
    rewrite (file_order_canonical_lemma sort1 sort2 (map arg_of args) (map arg_of args') H1 H2
               (Permutation_map _ Hp)).
    reflexivity.
  Qed.

  Definition lt_file (f g : file) : Prop := f_t0 f < f_t0 g.

  Lemma strict_files : forall hs : list (hdr file),
    StronglySorted lt_t0 hs -> (forall h, In h hs -> h_t0 h = f_t0 (h_path h)) ->
    StronglySorted lt_file (map h_path hs).
  Proof.
    induction 1 as [|h hs Hs IH Hall]; intro Hk; [constructor|]. cbn [map]. constructor.
    - apply IH. intros x Hx. apply Hk. now right.
    - rewrite Forall_forall in *. intros g Hg. apply in_map_iff in Hg. destruct Hg as (x & <- & Hx).
      unfold lt_file. rewrite <- (Hk h (or_introl eq_refl)), <- (Hk x (or_intror Hx)). apply Hall. exact Hx.
  Qed.

  Theorem run_rows_accepted_lemma :
    forall (sort : list (hdr file) -> list (hdr file)) m (args : list file) rows,
    sorting sort -> args <> [] -> run_rows sort m args = Ok rows ->
    exists files,
      Permutation files args /\ StronglySorted lt_file files /\
      (forall f g, In f args -> In g args -> f_run f = f_run g) /\
      Forall (fun f => extension_try_from (f_ext f) <> None) args /\
      check_gaps m None files = Ok tt /\
      rows = scan_rows (flat_map (fun f => main_items (f_events f)) files).
  Proof.
    intros sort m args rows [Hp Hs] Hne H. unfold run_rows in H.
    destruct (sort_run_files sort (map arg_of args)) as [[r ps]| |] eqn:E; cbn [bind] in H; try discriminate.
    assert (Hne' : map arg_of args <> []) by (destruct args; [contradiction | discriminate]).
    apply (accept_iff_lemma sort Hp Hs (map arg_of args) r ps Hne') in E.
    destruct E as (Hk & Hr & Hd & hs & Hperm & Hsorted & ->). cbn [snd] in H.
    destruct (check_gaps m None (map h_path hs)) as [[]| |] eqn:Eg; cbn [bind] in H; try discriminate.
    inversion H; subst. exists (map h_path hs).
    assert (Hpaths : map h_path (map hdr_of (map arg_of args)) = args).
    { rewrite !map_map. cbn. apply map_id. }
    split; [|split; [|split; [|split; [|split]]]].
    - eapply Permutation_trans; [apply Permutation_map; exact Hperm|]. rewrite Hpaths. reflexivity.
    - apply strict_files; [exact Hsorted|]. intros h Hh.
      apply (Permutation_in _ Hperm) in Hh. rewrite map_map in Hh. apply in_map_iff in Hh.
      destruct Hh as (f & <- & _). reflexivity.
    - intros f g Hf Hg. unfold one_run in Hr.
      transitivity r; [exact (Hr (arg_of f) (in_map _ _ _ Hf)) | symmetry; exact (Hr (arg_of g) (in_map _ _ _ Hg))].
    - rewrite Forall_forall in *. intros f Hf. apply (Hk (arg_of f) (in_map _ _ _ Hf)).
    - exact Eg.
    - reflexivity.
  Qed.

  (* consecutive files: the next initial timestamp is the previous final one, or one second later *)
  Fixpoint gaps_ok (prev : option N) (fs : list file) : Prop :=
    match fs with
    | [] => True
    | f :: rest =>
        match prev with None => True | Some p => p <= f_t0 f /\ f_t0 f <= p + 1 end /\
        gaps_ok (Some (f_t1 f)) rest
    end.

  Lemma check_gaps_ok : forall m (fs : list file) prev, gaps_ok prev fs -> check_gaps m prev fs = Ok tt.
  Proof.
    induction fs as [|f fs IH]; intros prev H; [reflexivity|].
    destruct H as [Hp Hrest]. cbn [check_gaps]. rewrite (IH _ Hrest).
    destruct prev as [p|]; [|reflexivity].
    unfold usub. destruct (p <=? f_t0 f) eqn:E; [|lia]. cbn [bind]. unfold guard.
    destruct (f_t0 f - p <=? 1) eqn:E2; [reflexivity | lia].
  Qed.

  (* the positive direction: any command-line order of the files of one contiguous run is accepted
     and gives the rows of the files taken in the order of their initial timestamps *)
  Theorem run_rows_complete_lemma :
    forall (sort : list (hdr file) -> list (hdr file)) m (args files : list file),
    sorting sort -> args <> [] ->
    Permutation files args -> StronglySorted lt_file files ->
    (forall f g, In f args -> In g args -> f_run f = f_run g) ->
    Forall (fun f => extension_try_from (f_ext f) <> None) args ->
    gaps_ok None files ->
    run_rows sort m args = Ok (scan_rows (flat_map (fun f => main_items (f_events f)) files)).
  Proof.
    intros sort m args files [Hp Hs] Hne Hperm Hsorted Hrun Hknown Hgaps.
    destruct args as [|f0 args0] eqn:Eargs; [contradiction|]. rewrite <- Eargs in *.
    assert (Hf0 : In f0 args) by (rewrite Eargs; now left).
    set (hfiles := map hdr_of (map arg_of files)).
    assert (Hhs : StronglySorted lt_t0 hfiles).
    { unfold hfiles. clear - Hsorted. induction Hsorted as [|f l Hs IH Hall]; cbn [map]; constructor; [exact IH|].
      rewrite Forall_forall in *. intros h Hh. rewrite map_map in Hh. apply in_map_iff in Hh.
      destruct Hh as (g & <- & Hg). apply (Hall g Hg). }
    assert (Hnd : NoDup (map a_t0 (map arg_of args))).
    { eapply Permutation_NoDup; [apply Permutation_map, Permutation_map; exact Hperm|].
      rewrite <- map_t0_hdr. apply strict_sorted_nodup. exact Hhs. }
    assert (Hk : Forall known (map arg_of args)).
    { rewrite Forall_forall in *. intros a Ha. apply in_map_iff in Ha. destruct Ha as (f & <- & Hf).
      apply (Hknown f Hf). }
    assert (Hr : one_run (f_run f0) (map arg_of args)).
    { intros a Ha. apply in_map_iff in Ha. destruct Ha as (f & <- & Hf). apply (Hrun f f0 Hf Hf0). }
    assert (Hne' : map arg_of args <> []) by (rewrite Eargs; discriminate).
    destruct (accept_lemma sort Hp Hs (map arg_of args) (f_run f0) Hk Hne' Hr Hnd) as [Hok Hss].
    assert (Heq : sort (map hdr_of (map arg_of args)) = hfiles).
    { apply strict_sorted_perm_unique; try assumption.
      eapply Permutation_trans; [apply Hp|]. unfold hfiles.
      apply Permutation_map, Permutation_map, Permutation_sym. exact Hperm. }
    unfold run_rows. rewrite Hok. cbn [bind snd]. rewrite Heq.
    assert (Hpaths : map h_path hfiles = files) by (unfold hfiles; rewrite !map_map; apply map_id).
    rewrite Hpaths, (check_gaps_ok m files None Hgaps). reflexivity.
  Qed.

  (* refusals carry over to the binaries: no CSV rows at all *)
  Theorem run_rows_refusals_lemma :
    forall (sort : list (hdr file) -> list (hdr file)) m (args : list file),
    sorting sort -> args <> [] ->
    (exists f g, In f args /\ In g args /\ f_run f <> f_run g) \/
    ~ NoDup (map f_t0 args) \/
    (exists f, In f args /\ extension_try_from (f_ext f) = None) ->
    forall rows, run_rows sort m args <> Ok rows.
  Proof.
    intros sort m args Hsort Hne Hbad rows H.
    destruct (run_rows_accepted_lemma sort m args rows Hsort Hne H) as (files & Hperm & Hs & Hr & Hk & _).
    destruct Hbad as [(f & g & Hf & Hg & Hn) | [Hd | (f & Hf & Hu)]].
    - apply Hn. now apply Hr.
    - apply Hd. eapply Permutation_NoDup; [apply Permutation_map; exact Hperm|].
      clear - Hs. induction Hs as [|f l Hs IH Hall]; cbn; constructor; [|exact IH].
      intro Hin. apply in_map_iff in Hin. destruct Hin as (g & Hg & Hin).
      rewrite Forall_forall in Hall. specialize (Hall g Hin). unfold lt_file in Hall. lia.
    - rewrite Forall_forall in Hk. apply (Hk f Hf). exact Hu.
  Qed.
End RunProofs.
