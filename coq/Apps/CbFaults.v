(* C20, the clause "every single fault: dropped marker, duplicated marker, corrupted word": fault model on top of the
   hardware FIFO model Apps/CbHardware.v.  A faulted board stream is  hw_stream l1 ++ words X ++ hw_stream l2  where
   l1 ++ mid ++ l2 is a well-formed event sequence: the contiguous part `mid` of the FIFO (no event, one marker, one
   edge, ...) was replaced by an ARBITRARY sequence X of valid 4-byte words (markers with any counter / top bit,
   timestamps).  X = [] is a dropped marker, X = the marker twice a duplicated one, X = one other word a corrupted one.
   Definitions only. *)
From AG Require Import Base.Prelude Base.Res Base.Bytes Codec.Chrono Apps.CbTime Apps.CbHardware.

(* a valid FIFO word, from the word layout (chronobox.rs: 0x80|channel timestamps with channel < 59, 0xFF markers) *)
Definition word_ok (e : entry) : Prop :=
  match e with
  | MK _ c => c < HALF
  | TS ch _ ts => ch < 59 /\ ts < TURN /\ ts mod 2 = 0
  end.
Definition entry_word (e : entry) : N :=
  match e with
  | MK top c => 255 * TURN + (if top then HALF else 0) + c
  | TS ch tr ts => (128 + ch) * TURN + ts + (if tr then 1 else 0)
  end.
Fixpoint words_stream (X : list entry) : list N :=
  match X with
  | [] => []
  | e :: r => le32 (entry_word e) ++ words_stream r
  end.

(* FIFO entries tagged with what the generator knows: Some T = the timestamp word of a surviving edge at absolute
   tick T; None = a marker, or a word of the damage X *)
Definition tagged := (entry * option N)%type.
Fixpoint hw_tagged (evs : list hw_event) : list tagged :=
  match evs with
  | [] => []
  | HEdge T ch tr :: r => (TS ch tr ((T mod TURN) / 2 * 2), Some T) :: hw_tagged r
  | HMarker c :: r => (MK (oddN c) (c mod HALF), None) :: hw_tagged r
  | HScalers _ :: r => hw_tagged r
  end.
Definition junk (X : list entry) : list tagged := map (fun e => (e, None)) X.

(* the faulted stream and its tagged entries *)
Definition fault_stream (l1 : list hw_event) (X : list entry) (l2 : list hw_event) : list N :=
  hw_stream l1 ++ words_stream X ++ hw_stream l2.
Definition fault_tagged (l1 : list hw_event) (X : list entry) (l2 : list hw_event) : list tagged :=
  hw_tagged l1 ++ junk X ++ hw_tagged l2.

(* the words the CSV has a row for: the timestamp words after the first counter-0 marker, in order *)
Fixpoint owed (started : bool) (l : list tagged) : list tagged :=
  match l with
  | [] => []
  | (MK _ c, _) :: r => owed (started || (c =? 0)) r
  | (TS ch tr ts, o) :: r => if started then (TS ch tr ts, o) :: owed started r else owed started r
  end.

(* what must hold of the row of a word: right board, channel and edge; and for a surviving edge the time is EMPTY OR
   THE TRUE TIME of that edge, never another value *)
Definition row_sound (b : N) (t : tagged) (r : row) : Prop :=
  r_board r = b /\
  match fst t with
  | TS ch tr _ => r_channel r = ch /\ r_leading r = negb tr
  | MK _ _ => False
  end /\
  forall T, snd t = Some T -> r_time r = None \/ r_time r = Some (true_time T).

(* the outcome demanded of a damaged board stream `stream` whose tagged entries are L, for EVERY cutting of the stream
   into banks (pieces: only banks of board b, concatenating to the stream): the run fails as a whole (no CSV), or the
   rows are in ordered one-to-one correspondence with the owed words and every surviving edge has an empty or its
   true time *)
Definition fault_sound (b : N) (stream : list N) (L : list tagged) : Prop :=
  forall pieces, (forall b', present b' pieces = (b' =? b)) -> concat_of b pieces = stream ->
  (exists k, cb_program pieces = Err k) \/
  (exists rows, cb_program pieces = Ok rows /\ Forall2 (row_sound b) (owed false L) rows).
