(* Model of analysis/src/bin/alpha-g-chronobox-timestamps/main.rs: what the binary does with the Chronobox
   banks of a run, from the bank payloads (in file/event/bank order) to the rows of the CSV, with the times in
   integer clock ticks (the binary prints `ticks as f64 / 10e6`: one exactly-converted integer < 2^47 and one
   correctly rounded division; the harness compares on the tick level and checks the printed float separately).
   Reuses the FIFO parser model Codec/Chrono.v (C07).  Definitions only. *)
From AG Require Import Base.Prelude Base.Res Base.Bytes Codec.Chrono.

(* ---------- main.rs:88-121  cb_buffers: BTreeMap<String, Vec<u8>> ---------- *)
(* A board is its number 1..4: bank CBFn <-> board name "cb0n" (detector/src/midas.rs:535-557,
   chronobox.rs:177); the BTreeMap is keyed by the name, and "cb01" < "cb02" < "cb03" < "cb04" is the numeric order.
   The map is an association list kept strictly ascending in the key (BTreeMap iteration order). *)
Definition buffers := list (N * list N).

(* cb_buffers.entry(name).or_default().extend(data)   main.rs:114-117 *)
Fixpoint bt_extend (m : buffers) (b : N) (d : list N) : buffers :=
  match m with
  | [] => [(b, d)]
  | (b', buf) :: m' =>
      if b <? b' then (b, d) :: m
      else if b =? b' then (b', buf ++ d) :: m'
      else (b', buf) :: bt_extend m' b d
  end.

(* all CBFn banks of all Chronobox events of all files, in sorted-file / event / bank order *)
Definition cb_buffers (pieces : list (N * list N)) : buffers :=
  fold_left (fun m p => bt_extend m (fst p) (snd p)) pieces [].

(* ---------- main.rs:129-160  one board: parse, skip to the counter-0 marker, check it ---------- *)
Definition is_mk (e : entry) : bool := match e with MK _ _ => true | TS _ _ _ => false end.
Definition is_mk0 (e : entry) : bool := match e with MK _ c => c =? 0 | TS _ _ _ => false end.

(* Iterator::position *)
Fixpoint position {A} (f : A -> bool) (l : list A) : option nat :=
  match l with
  | [] => None
  | x :: t => if f x then Some O else match position f t with Some i => Some (S i) | None => None end
  end.

Definition E_BAD_FIFO : N := 1.       (* "bad FIFO data for chronobox"            main.rs:134 *)
Definition E_NO_EPOCH0 : N := 2.      (* "missing epoch 0 marker in chronobox"    main.rs:143 *)
Definition E_BAD_FIRST : N := 3.      (* "bad first marker in chronobox"          main.rs:154 *)

Definition cb_board_fifo (buffer : list N) : res (list entry) :=
  let (fifo, input) := cb_fifo buffer in                       (* main.rs:132-133 *)
  match input with
  | _ :: _ => Err E_BAD_FIFO                                    (* ensure!(input.is_empty())  :134 *)
  | [] =>
      match position is_mk0 fifo with                           (* :137-143 *)
      | None => Err E_NO_EPOCH0
      | Some i =>
          let fifo := skipn i fifo in                           (* fifo.split_off(epoch_0_index)  :144 *)
          match fifo with
          | MK top _ :: _ => if top then Err E_BAD_FIRST else Ok fifo      (* :147-155 *)
          | _ => Panic                                          (* fifo[0] out of bounds / unreachable!()  :149-150 *)
          end
      end
  end.

(* .map(..).collect::<Result<BTreeMap<_,_>>>()   main.rs:129-160: first failing board (in key order) fails the run *)
Fixpoint cb_fifos (m : buffers) : res (list (N * list entry)) :=
  match m with
  | [] => Ok []
  | (b, buf) :: m' =>
      do f <- cb_board_fifo buf;
      do fs <- cb_fifos m';
      Ok ((b, f) :: fs)
  end.

(* ---------- main.rs:39-74  chronobox_time, in ticks ---------- *)
Definition TIMESTAMP_BITS : N := 24.
Notation marker := (bool * N)%type (only parsing).          (* (timestamp_top_bit, wrap_around_counter) *)

Definition chronobox_time (ts : N) (previous next : option marker) : option N :=
  match previous, next with
  | Some (ptop, pcnt), Some (ntop, ncnt) =>                                        (* :44 *)
      if (pcnt + 1 =? ncnt) && negb (Bool.eqb ptop ntop) then                      (* :45-46; u32, counters < 2^23 *)
        let epoch_counter := (pcnt + 1) / 2 in                                     (* :51 *)
        let top_bit := (ts / 2 ^ (TIMESTAMP_BITS - 1) =? 1) in                     (* :53 *)
        if negb (Bool.eqb top_bit ptop)                                            (* :54 *)
        then Some (ts + epoch_counter * 2 ^ TIMESTAMP_BITS)                        (* :55-57; u64 *)
        else None
      else None
  | _, _ => None
  end.

(* ---------- main.rs:181-210  rows ---------- *)
Record row := Row { r_board : N; r_channel : N; r_leading : bool; r_time : option N }.

(* slice::split_inclusive(pred): chunks ending with (and including) each matching element; a non-empty tail
   without a matching element is the last chunk; no chunk is empty *)
Fixpoint split_inclusive {A} (f : A -> bool) (l : list A) : list (list A) :=
  match l with
  | [] => []
  | x :: t =>
      if f x then [x] :: split_inclusive f t
      else match split_inclusive f t with
           | [] => [[x]]
           | c :: cs => (x :: c) :: cs
           end
  end.

(* slice::split_last *)
Fixpoint split_last {A} (l : list A) : option (A * list A) :=
  match l with
  | [] => None
  | x :: t => match split_last t with
              | None => Some (x, [])
              | Some (y, i) => Some (y, x :: i)
              end
  end.

(* the inner loop :193-207 *)
Fixpoint chunk_rows (b : N) (previous next : option marker) (timestamps : list entry) : res (list row) :=
  match timestamps with
  | [] => Ok []
  | TS ch tr ts :: t =>
      do rs <- chunk_rows b previous next t;
      Ok (Row b ch (negb tr) (chronobox_time ts previous next) :: rs)              (* :197-203 *)
  | MK _ _ :: _ => Panic                                                           (* unreachable!()  :195 *)
  end.

(* the outer loop :183-209 over the chunks, `previous_marker` threaded through *)
Fixpoint chunks_rows (b : N) (previous : option marker) (chunks : list (list entry)) : res (list row) :=
  match chunks with
  | [] => Ok []
  | chunk :: cs =>
      match split_last chunk with
      | None => Panic                                                              (* unreachable!()  :191 *)
      | Some (last, init) =>
          let '(next, timestamps) :=
            match last with
            | MK top c => (Some (top, c), init)                                    (* :185-187 *)
            | TS _ _ _ => (None, chunk)                                            (* :190 (after the F4 repair) *)
            end in
          do rs <- chunk_rows b previous next timestamps;
          do rs' <- chunks_rows b next cs;                                         (* previous_marker = next_marker  :208 *)
          Ok (rs ++ rs')
      end
  end.

Definition board_rows (b : N) (fifo : list entry) : res (list row) :=
  chunks_rows b None (split_inclusive is_mk fifo).                                 (* :182-183 *)

Fixpoint all_rows (fs : list (N * list entry)) : res (list row) :=                 (* :181 *)
  match fs with
  | [] => Ok []
  | (b, fifo) :: fs' =>
      do rs <- board_rows b fifo;
      do rs' <- all_rows fs';
      Ok (rs ++ rs')
  end.

(* the whole program after the files are read: `Err _` = non-zero exit BEFORE File::create (main.rs:166 comes after
   :160), so no CSV exists; `Ok rows` = the CSV body *)
Definition cb_program (pieces : list (N * list N)) : res (list row) :=
  do fs <- cb_fifos (cb_buffers pieces);
  all_rows fs.

(* ---------- specification-side helpers (used by the theorems; independent of the loops above) ---------- *)
(* last marker of a list, or the given default when there is none *)
Fixpoint last_mk (d : option marker) (l : list entry) : option marker :=
  match l with
  | [] => d
  | MK top c :: t => last_mk (Some (top, c)) t
  | TS _ _ _ :: t => last_mk d t
  end.
Fixpoint first_mk (l : list entry) : option marker :=
  match l with
  | [] => None
  | MK top c :: _ => Some (top, c)
  | TS _ _ _ :: t => first_mk t
  end.

(* the rows as a direct function of the entry list: one row per TS entry, its time from the nearest markers *)
Fixpoint rows_spec (b : N) (previous : option marker) (l : list entry) : list row :=
  match l with
  | [] => []
  | TS ch tr ts :: t => Row b ch (negb tr) (chronobox_time ts previous (first_mk t)) :: rows_spec b previous t
  | MK top c :: t => rows_spec b (Some (top, c)) t
  end.

(* the suffix starting at the first element satisfying f *)
Fixpoint from_first {A} (f : A -> bool) (l : list A) : option (list A) :=
  match l with
  | [] => None
  | x :: t => if f x then Some l else from_first f t
  end.

(* per-board concatenation of the pieces, and presence of a board *)
Definition pieces_of (b : N) (pieces : list (N * list N)) : list (list N) :=
  map snd (filter (fun p => fst p =? b) pieces).
Definition concat_of (b : N) (pieces : list (N * list N)) : list N := concat (pieces_of b pieces).
Definition present (b : N) (pieces : list (N * list N)) : bool := existsb (fun p => fst p =? b) pieces.

(* observation *)
Definition row_obs (r : row) : N * N * bool * option N := (r_board r, r_channel r, r_leading r, r_time r).

(* keys of the rows / of the timestamp entries, used to state `one row per timestamp entry, in order` *)
Fixpoint ts_keys (b : N) (l : list entry) : list (N * N * bool) :=
  match l with
  | [] => []
  | TS ch tr _ :: t => (b, ch, negb tr) :: ts_keys b t
  | MK _ _ :: t => ts_keys b t
  end.
Definition row_key (r : row) : N * N * bool := (r_board r, r_channel r, r_leading r).

Fixpoint count_ts (l : list entry) : nat :=
  match l with
  | [] => O
  | TS _ _ _ :: t => S (count_ts t)
  | MK _ _ :: t => count_ts t
  end.

(* the rows of all boards from their parsed FIFOs *)
Definition rows_of_fifos (fs : list (N * list entry)) : list row :=
  flat_map (fun bf => rows_spec (fst bf) None (snd bf)) fs.

(* lookup in the buffers *)
Fixpoint bt_lookup (m : buffers) (b : N) : option (list N) :=
  match m with
  | [] => None
  | (b', buf) :: m' => if b =? b' then Some buf else bt_lookup m' b
  end.
Definition keys (m : buffers) : list N := map fst m.
