(* Proofs about sort_run_files (Apps/FileOrder.v). *)
From AG Require Import Base.Prelude Base.Res Apps.FileOrder.
From Coq Require Import Permutation Sorted ListDec.

Lemma bytes_eqb_eq : forall a b, bytes_eqb a b = true <-> a = b.
Proof.
  induction a as [|x a IH]; destruct b as [|y b]; cbn; split; try discriminate; try reflexivity.
  - intro H. apply andb_true_iff in H. destruct H as [H1 H2]. apply IH in H2. f_equal; [lia | exact H2].
  - intro H. inversion H; subst. apply andb_true_iff. split; [lia | now apply IH].
Qed.

(* only "mid" and "lz4" are known extensions *)
Lemma extension_known_iff : forall s,
  extension_try_from s <> None <-> s = str_mid \/ s = str_lz4.
Proof.
  intro s. unfold extension_try_from.
  destruct (bytes_eqb s str_mid) eqn:E1; [apply bytes_eqb_eq in E1; split; [auto | discriminate] |].
  destruct (bytes_eqb s str_lz4) eqn:E2; [apply bytes_eqb_eq in E2; split; [auto | discriminate] |].
  split; [intro H; contradiction |].
  intros [H|H]; apply bytes_eqb_eq in H; congruence.
Qed.

Section FileOrderProofs.
  Context {P : Type}.
  Notation arg := (arg P).
  Notation hdr := (hdr P).

  Definition known (a : arg) : Prop := extension_try_from (a_ext a) <> None.
  Definition hdr_of (a : arg) : hdr := (a_run a, a_t0 a, a_path a).
  Definition le_t0 (x y : hdr) : Prop := h_t0 x <= h_t0 y.
  Definition lt_t0 (x y : hdr) : Prop := h_t0 x < h_t0 y.

  (* ---- read_headers ---- *)
  Lemma read_headers_known : forall args : list arg,
    Forall known args -> read_headers args = Ok (map hdr_of args).
  Proof.
    induction 1 as [|a args Ha _ IH]; [reflexivity|].
    cbn [read_headers map]. unfold known in Ha.
    destruct (extension_try_from (a_ext a)); [|contradiction]. cbn. rewrite IH. reflexivity.
  Qed.

  Lemma read_headers_unknown : forall args : list arg,
    Exists (fun a => ~ known a) args -> read_headers args = Err E_ext.
  Proof.
    induction args as [|a args IH]; intro H; [inversion H|].
    cbn [read_headers]. unfold known in *.
    destruct (extension_try_from (a_ext a)) eqn:E; [|reflexivity]. cbn.
    inversion H as [? ? H1|? ? H1]; subst; [exfalso; apply H1; congruence|].
    rewrite (IH H1). reflexivity.
  Qed.

  Lemma known_dec : forall args : list arg, Forall known args \/ Exists (fun a => ~ known a) args.
  Proof.
    induction args as [|a args IH]; [left; constructor|].
    destruct (extension_try_from (a_ext a)) eqn:E.
    - destruct IH as [IH|IH]; [left; constructor; [unfold known; congruence | exact IH] | right; now constructor 2].
    - right. constructor 1. unfold known. intro H. apply H. exact E.
  Qed.

  (* ---- duplicates among sorted keys ---- *)
  Lemma adjacent_dup_cons2 : forall (a b : hdr) tl,
    adjacent_dup (a :: b :: tl) = (h_t0 a =? h_t0 b) || adjacent_dup (b :: tl).
  Proof. reflexivity. Qed.

  Lemma adjacent_dup_nodup : forall l : list hdr, NoDup (map h_t0 l) -> adjacent_dup l = false.
  Proof.
    induction l as [|a tl IH]; intro H; [reflexivity|].
    destruct tl as [|b tl']; [reflexivity|].
    rewrite adjacent_dup_cons2. cbn [map] in H. inversion H as [|? ? Hn Hd]; subst.
    rewrite (IH Hd). destruct (h_t0 a =? h_t0 b) eqn:E; [|reflexivity].
    exfalso. apply Hn. left. lia.
  Qed.

  Lemma sorted_no_adjacent_dup_strict : forall l : list hdr,
    StronglySorted le_t0 l -> adjacent_dup l = false -> StronglySorted lt_t0 l.
  Proof.
    induction l as [|a tl IH]; intros Hs Hd; [constructor|].
    inversion Hs as [|? ? Hs' Hall]; subst.
    destruct tl as [|b tl']; [repeat constructor|].
    rewrite adjacent_dup_cons2 in Hd. apply orb_false_iff in Hd. destruct Hd as [Hab Hd'].
    specialize (IH Hs' Hd'). constructor; [exact IH|].
    inversion Hall as [|? ? Hab' _]; subst. unfold le_t0 in Hab'.
    assert (Hlt : lt_t0 a b) by (unfold lt_t0; lia).
    constructor; [exact Hlt|].
    inversion IH as [|? ? _ Hall']; subst.
    eapply Forall_impl; [|exact Hall']. intros c Hc. unfold lt_t0 in *. lia.
  Qed.

  Lemma strict_sorted_nodup : forall l : list hdr, StronglySorted lt_t0 l -> NoDup (map h_t0 l).
  Proof.
    induction 1 as [|a l Hs IH Hall]; cbn; constructor; [|exact IH].
    intro Hin. apply in_map_iff in Hin. destruct Hin as (c & Hc & Hin).
    rewrite Forall_forall in Hall. specialize (Hall c Hin). unfold lt_t0 in Hall. lia.
  Qed.

  Lemma sorted_adjacent_dup_iff : forall l : list hdr, StronglySorted le_t0 l ->
    (adjacent_dup l = false <-> NoDup (map h_t0 l)).
  Proof.
    intros l Hs. split; [|apply adjacent_dup_nodup].
    intro Hd. apply strict_sorted_nodup. now apply sorted_no_adjacent_dup_strict.
  Qed.

  (* a strictly sorted permutation is unique *)
  Lemma strict_sorted_perm_unique : forall l1 l2 : list hdr,
    StronglySorted lt_t0 l1 -> StronglySorted lt_t0 l2 -> Permutation l1 l2 -> l1 = l2.
  Proof.
    induction l1 as [|a l1 IH]; intros l2 H1 H2 Hp.
    - apply Permutation_nil in Hp. now subst.
    - destruct l2 as [|b l2]; [apply Permutation_sym, Permutation_nil in Hp; discriminate|].
      inversion H1 as [|? ? H1' Ha]; subst. inversion H2 as [|? ? H2' Hb]; subst.
      rewrite Forall_forall in Ha, Hb.
      assert (Hab : a = b).
      { assert (Hina : In a (b :: l2)) by (eapply Permutation_in; [exact Hp | now left]).
        assert (Hinb : In b (a :: l1)) by (eapply Permutation_in; [apply Permutation_sym; exact Hp | now left]).
        destruct Hina as [Hina|Hina]; [now symmetry|].
        destruct Hinb as [Hinb|Hinb]; [assumption|].
        specialize (Ha b Hinb). specialize (Hb a Hina). unfold lt_t0 in *. lia. }
      subst b. f_equal. apply IH; try assumption. eapply Permutation_cons_inv. exact Hp.
  Qed.

  Section WithSort.
    (* lib.rs:132 sort_unstable_by_key: some permutation of the input that is sorted by the key *)
    Variable sort : list hdr -> list hdr.
    Hypothesis sort_perm : forall l, Permutation (sort l) l.
    Hypothesis sort_sorted : forall l, Sorted le_t0 (sort l).

    Lemma sort_strongly : forall l, StronglySorted le_t0 (sort l).
    Proof.
      intro l. apply Sorted_StronglySorted; [|apply sort_sorted].
      intros x y z. unfold le_t0. lia.
    Qed.

    Definition one_run (r : N) (args : list arg) : Prop := forall a, In a args -> a_run a = r.

    Lemma forallb_run : forall (args : list arg) r,
      forallb (fun h : hdr => h_run h =? r) (map hdr_of args) = true <-> one_run r args.
    Proof.
      intros args r. rewrite forallb_forall. unfold one_run. split.
      - intros H a Ha. specialize (H (hdr_of a) (in_map _ _ _ Ha)). unfold hdr_of, h_run in H. cbn in H. lia.
      - intros H h Hh. apply in_map_iff in Hh. destruct Hh as (a & <- & Ha).
        specialize (H a Ha). unfold hdr_of, h_run. cbn. lia.
    Qed.

    Lemma map_t0_hdr : forall args : list arg, map h_t0 (map hdr_of args) = map a_t0 args.
    Proof. intro. rewrite map_map. reflexivity. Qed.

    (* ---- the four outcomes ---- *)
    Theorem refuse_unknown_extension_lemma : forall args : list arg,
      Exists (fun a => ~ known a) args -> sort_run_files sort args = Err E_ext.
    Proof. intros args H. unfold sort_run_files. rewrite (read_headers_unknown args H). reflexivity. Qed.

    Theorem refuse_two_runs_lemma : forall (args : list arg) a b,
      Forall known args -> In a args -> In b args -> a_run a <> a_run b ->
      sort_run_files sort args = Err E_run.
    Proof.
      intros args a b Hk Ha Hb Hab. unfold sort_run_files. rewrite (read_headers_known args Hk). cbn [bind].
      destruct args as [|f args]; [contradiction|]. cbn [map].
      change (hdr_of f :: map hdr_of args) with (map hdr_of (f :: args)).
      destruct (forallb (fun h : hdr => h_run h =? h_run (hdr_of f)) (map hdr_of (f :: args))) eqn:E; [|reflexivity].
      apply forallb_run in E. rewrite (E a Ha), (E b Hb) in Hab. contradiction.
    Qed.

    Theorem refuse_duplicate_t0_lemma : forall (args : list arg) r,
      Forall known args -> args <> [] -> one_run r args -> ~ NoDup (map a_t0 args) ->
      sort_run_files sort args = Err E_dup.
    Proof.
      intros args r Hk Hne Hr Hd. unfold sort_run_files. rewrite (read_headers_known args Hk). cbn [bind].
      destruct args as [|f args]; [contradiction|]. cbn [map].
      change (hdr_of f :: map hdr_of args) with (map hdr_of (f :: args)).
      assert (Hf : h_run (hdr_of f) = r) by (unfold hdr_of, h_run; cbn; apply Hr; now left).
      rewrite Hf. rewrite (proj2 (forallb_run (f :: args) r) Hr). cbn [negb].
      destruct (adjacent_dup (sort (map hdr_of (f :: args)))) eqn:E; [reflexivity|].
      exfalso. apply Hd.
      apply (sorted_adjacent_dup_iff _ (sort_strongly _)) in E.
      rewrite <- map_t0_hdr. eapply Permutation_NoDup; [|exact E].
      apply Permutation_map. apply sort_perm.
    Qed.

    Theorem accept_lemma : forall (args : list arg) r,
      Forall known args -> args <> [] -> one_run r args -> NoDup (map a_t0 args) ->
      sort_run_files sort args = Ok (r, map h_path (sort (map hdr_of args))) /\
      StronglySorted lt_t0 (sort (map hdr_of args)).
    Proof.
      intros args r Hk Hne Hr Hd.
      assert (Hnd : NoDup (map h_t0 (sort (map hdr_of args)))).
      { eapply Permutation_NoDup; [apply Permutation_map, Permutation_sym, sort_perm|].
        rewrite map_t0_hdr. exact Hd. }
      pose proof (proj2 (sorted_adjacent_dup_iff _ (sort_strongly (map hdr_of args))) Hnd) as Hadj.
      split; [|apply sorted_no_adjacent_dup_strict; [apply sort_strongly | exact Hadj]].
      unfold sort_run_files. rewrite (read_headers_known args Hk). cbn [bind].
      destruct args as [|f args]; [contradiction|]. cbn [map].
      change (hdr_of f :: map hdr_of args) with (map hdr_of (f :: args)).
      assert (Hf : h_run (hdr_of f) = r) by (unfold hdr_of, h_run; cbn; apply Hr; now left).
      rewrite Hf. rewrite (proj2 (forallb_run (f :: args) r) Hr). cbn [negb].
      rewrite Hadj. reflexivity.
    Qed.

    (* never a panic on a non-empty command line (clap: `required = true`) *)
    Theorem sort_run_files_total_lemma : forall args : list arg,
      args <> [] -> sort_run_files sort args <> Panic.
    Proof.
      intros args Hne. destruct (known_dec args) as [Hk|Hu];
        [|rewrite (refuse_unknown_extension_lemma args Hu); discriminate].
      unfold sort_run_files. rewrite (read_headers_known args Hk). cbn [bind].
      destruct args as [|f args]; [contradiction|]. cbn [map].
      destruct (negb _); [discriminate|]. destruct (adjacent_dup _); discriminate.
    Qed.

    (* accepted exactly when: known extensions, one run, distinct initial timestamps; and then the
       paths come out in the order of strictly increasing initial timestamps *)
    Theorem accept_iff_lemma : forall (args : list arg) r ps, args <> [] ->
      (sort_run_files sort args = Ok (r, ps) <->
       Forall known args /\ one_run r args /\ NoDup (map a_t0 args) /\
       exists hs, Permutation hs (map hdr_of args) /\ StronglySorted lt_t0 hs /\ ps = map h_path hs).
    Proof.
      intros args r ps Hne. split.
      - intro H. destruct (known_dec args) as [Hk|Hu];
          [|rewrite (refuse_unknown_extension_lemma args Hu) in H; discriminate].
        destruct args as [|f args]; [contradiction|].
        destruct (forallb (fun h : hdr => h_run h =? a_run f) (map hdr_of (f :: args))) eqn:E.
        + apply forallb_run in E.
          destruct (NoDup_dec N.eq_dec (map a_t0 (f :: args))) as [Hd|Hd].
          * destruct (accept_lemma (f :: args) (a_run f) Hk Hne E Hd) as [Hok Hs].
            rewrite Hok in H. inversion H; subst. repeat split; try assumption.
            eexists. split; [apply sort_perm|]. split; [exact Hs | reflexivity].
          * rewrite (refuse_duplicate_t0_lemma (f :: args) (a_run f) Hk Hne E Hd) in H. discriminate.
        + exfalso. unfold sort_run_files in H. rewrite (read_headers_known _ Hk) in H. cbn [bind map] in H.
          change (hdr_of f :: map hdr_of args) with (map hdr_of (f :: args)) in H.
          change (h_run (hdr_of f)) with (a_run f) in H. rewrite E in H. discriminate.
      - intros (Hk & Hr & Hd & hs & Hp & Hs & ->).
        destruct (accept_lemma args r Hk Hne Hr Hd) as [Hok Hs'].
        rewrite Hok.
        assert (Heq : sort (map hdr_of args) = hs).
        { apply strict_sorted_perm_unique; try assumption.
          eapply Permutation_trans; [apply sort_perm | apply Permutation_sym; exact Hp]. }
        rewrite Heq. reflexivity.
    Qed.
  End WithSort.

  (* ---- the result does not depend on which sorting permutation the library picks, nor on the order
          of the command-line arguments ---- *)
  Definition sorting (sort : list hdr -> list hdr) : Prop :=
    (forall l, Permutation (sort l) l) /\ (forall l, Sorted le_t0 (sort l)).

  Lemma one_run_perm : forall r (a b : list arg), Permutation a b -> one_run r a -> one_run r b.
  Proof. intros r a b Hp H x Hx. apply H. eapply Permutation_in; [apply Permutation_sym; exact Hp | exact Hx]. Qed.

  Lemma known_perm : forall a b : list arg, Permutation a b -> Forall known a -> Forall known b.
  Proof. intros a b Hp H. rewrite Forall_forall in *. intros x Hx. apply H. eapply Permutation_in; [apply Permutation_sym; exact Hp | exact Hx]. Qed.

  Theorem file_order_canonical_lemma : forall sort1 sort2 (args args' : list arg),
    sorting sort1 -> sorting sort2 -> Permutation args args' ->
    sort_run_files sort1 args = sort_run_files sort2 args'.
  Proof.
    intros sort1 sort2 args args' [Hp1 Hs1] [Hp2 Hs2] Hp.
    destruct args as [|f0 args0] eqn:Eargs; [apply Permutation_nil in Hp; subst; reflexivity|].
    rewrite <- Eargs in *. assert (Hne : args <> []) by (rewrite Eargs; discriminate).
    assert (Hne' : args' <> []).
    { intro H. subst args'. apply Permutation_sym, Permutation_nil in Hp. contradiction. }
    clear Eargs.
    destruct (known_dec args) as [Hk|Hu].
    2:{ rewrite (refuse_unknown_extension_lemma sort1 args Hu).
        rewrite (refuse_unknown_extension_lemma sort2 args'); [reflexivity|].
        rewrite Exists_exists in *. destruct Hu as (x & Hx & Hn). exists x. split; [|exact Hn].
        eapply Permutation_in; eassumption. }
    pose proof (known_perm _ _ Hp Hk) as Hk'.
    destruct args as [|f args1] eqn:Eargs; [contradiction|]. rewrite <- Eargs in *.
    assert (Hf : In f args) by (rewrite Eargs; now left).
    destruct (forallb (fun h : hdr => h_run h =? a_run f) (map hdr_of args)) eqn:E.
    - apply forallb_run in E. pose proof (one_run_perm _ _ _ Hp E) as E'.
      destruct (NoDup_dec N.eq_dec (map a_t0 args)) as [Hd|Hd].
      + assert (Hd' : NoDup (map a_t0 args')) by (eapply Permutation_NoDup; [apply Permutation_map; exact Hp | exact Hd]).
        destruct (accept_lemma sort1 Hp1 Hs1 args (a_run f) Hk Hne E Hd) as [Hok Hs].
        destruct (accept_lemma sort2 Hp2 Hs2 args' (a_run f) Hk' Hne' E' Hd') as [Hok' Hs'].
        rewrite Hok, Hok'.
        assert (Heq : sort1 (map hdr_of args) = sort2 (map hdr_of args')).
        { apply strict_sorted_perm_unique; try assumption.
          eapply Permutation_trans; [apply Hp1|]. eapply Permutation_trans; [|apply Permutation_sym, Hp2].
          apply Permutation_map. exact Hp. }
        rewrite Heq. reflexivity.
      + assert (Hd' : ~ NoDup (map a_t0 args')).
        { intro H. apply Hd. eapply Permutation_NoDup; [apply Permutation_map, Permutation_sym; exact Hp | exact H]. }
        rewrite (refuse_duplicate_t0_lemma sort1 Hp1 Hs1 args (a_run f) Hk Hne E Hd).
        rewrite (refuse_duplicate_t0_lemma sort2 Hp2 Hs2 args' (a_run f) Hk' Hne' E' Hd'). reflexivity.
    - (* some file has another run number than f *)
      assert (Hex : exists b, In b args /\ a_run b <> a_run f).
      { clear - E. induction args as [|x l IH]; [discriminate|]. cbn [map forallb] in E.
        apply andb_false_iff in E. destruct E as [E|E].
        - exists x. split; [now left|]. unfold hdr_of, h_run in E. cbn in E. lia.
        - destruct (IH E) as (b & Hb & Hn). exists b. split; [now right | exact Hn]. }
      destruct Hex as (b & Hb & Hn).
      rewrite (refuse_two_runs_lemma sort1 args b f Hk Hb Hf Hn).
      rewrite (refuse_two_runs_lemma sort2 args' b f Hk'); try assumption; try reflexivity;
        eapply Permutation_in; eassumption.
  Qed.

  Theorem processing_order_lemma : forall sort (args : list arg) r ps, sorting sort -> args <> [] ->
    (sort_run_files sort args = Ok (r, ps) <->
     Forall known args /\ one_run r args /\ NoDup (map a_t0 args) /\
     exists hs, Permutation hs (map hdr_of args) /\ StronglySorted lt_t0 hs /\ ps = map h_path hs).
  Proof. intros sort args r ps [H1 H2]. exact (accept_iff_lemma sort H1 H2 args r ps). Qed.

  (* the three refusals of the property text, each on its own (whatever else is wrong with the list) *)
  Theorem refusals_lemma : forall sort (args : list arg), sorting sort -> args <> [] ->
    (exists a b, In a args /\ In b args /\ a_run a <> a_run b) \/
    ~ NoDup (map a_t0 args) \/
    (exists a, In a args /\ extension_try_from (a_ext a) = None) ->
    exists k, sort_run_files sort args = Err k.
  Proof.
    intros sort args [Hp Hs] Hne Hbad.
    destruct (sort_run_files sort args) as [[r ps]|k|] eqn:E; [exfalso | eauto | exfalso].
    - apply (accept_iff_lemma sort Hp Hs args r ps Hne) in E. destruct E as (Hk & Hr & Hd & _).
      destruct Hbad as [(a & b & Ha & Hb & Hn) | [Hn | (a & Ha & Hu)]].
      + apply Hn. rewrite (Hr a Ha), (Hr b Hb). reflexivity.
      + contradiction.
      + rewrite Forall_forall in Hk. apply (Hk a Ha). exact Hu.
    - exact (sort_run_files_total_lemma sort args Hne E).
  Qed.

  (* ---- the executable instance is a sorting permutation ---- *)
  Lemma insert_perm : forall x (l : list hdr), Permutation (insert_by_t0 x l) (x :: l).
  Proof.
    induction l as [|y l IH]; [reflexivity|]. cbn [insert_by_t0].
    destruct (h_t0 x <=? h_t0 y); [reflexivity|].
    eapply Permutation_trans; [apply perm_skip, IH | apply perm_swap].
  Qed.

  Lemma insert_sorted : forall x (l : list hdr), StronglySorted le_t0 l -> StronglySorted le_t0 (insert_by_t0 x l).
  Proof.
    induction l as [|y l IH]; intro Hs; [repeat constructor|].
    cbn [insert_by_t0]. destruct (h_t0 x <=? h_t0 y) eqn:E.
    - constructor; [exact Hs|]. inversion Hs as [|? ? _ Hall]; subst.
      constructor; [unfold le_t0; lia|]. eapply Forall_impl; [|exact Hall]. intros c Hc. unfold le_t0 in *. lia.
    - inversion Hs as [|? ? Hs' Hall]; subst. constructor; [apply IH; exact Hs'|].
      rewrite Forall_forall in *. intros c Hc.
      apply (Permutation_in _ (insert_perm x l)) in Hc. destruct Hc as [<-|Hc]; [unfold le_t0; lia | now apply Hall].
  Qed.

  Theorem isort_sorting : sorting (@isort P).
  Proof.
    split; intro l.
    - induction l as [|x l IH]; [reflexivity|]. cbn [isort].
      eapply Permutation_trans; [apply insert_perm | apply perm_skip, IH].
    - apply StronglySorted_Sorted. induction l as [|x l IH]; [constructor|]. cbn [isort]. now apply insert_sorted.
  Qed.
End FileOrderProofs.
