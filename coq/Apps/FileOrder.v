(* Model of alpha_g_analysis::sort_run_files and Extension::try_from (analysis/src/lib.rs).
   Definitions only.  The paths are an abstract type P: the function only moves them around. *)
From AG Require Import Base.Prelude Base.Res.

(* lib.rs:8  enum Extension { Mid, Lz4 } *)
Inductive extension := Mid | Lz4.

Fixpoint bytes_eqb (a b : list N) : bool :=
  match a, b with
  | [], [] => true
  | x :: a', y :: b' => (x =? y) && bytes_eqb a' b'
  | _, _ => false
  end.

Definition str_mid : list N := [109; 105; 100].   (* "mid" *)
Definition str_lz4 : list N := [108; 122; 52].    (* "lz4" *)

(* lib.rs:27-35  match extension.to_str() { Some("mid") => Mid, Some("lz4") => Lz4, _ => Err }.
   The argument is `path.extension().unwrap_or_default()`: the bytes after the last dot of the file
   name, empty when there is none (std::path, trusted). *)
Definition extension_try_from (s : list N) : option extension :=
  if bytes_eqb s str_mid then Some Mid
  else if bytes_eqb s str_lz4 then Some Lz4
  else None.

(* error kinds (observations compare only Ok / refusal) *)
Definition E_ext := 10.   (* AlphaIOError::UnknownExtension *)
Definition E_run := 11.   (* AlphaIOError::BadRunNumber *)
Definition E_dup := 12.   (* AlphaIOError::DuplicateInitialTimestamp *)
Definition E_gap := 13.   (* anyhow: "missing file before ..." (the binaries, not the library) *)

Section SortRunFiles.
  Context {P : Type}.

  (* what the function learns about one command-line argument: the extension of the path, and the run
     number and initial timestamp in the first 12 bytes of the (decompressed) file *)
  Record arg := { a_ext : list N; a_run : N; a_t0 : N; a_path : P }.

  Definition hdr : Type := N * N * P.                    (* (run_number, initial_timestamp, path) *)
  Definition h_run (h : hdr) : N := fst (fst h).
  Definition h_t0 (h : hdr) : N := snd (fst h).
  Definition h_path (h : hdr) : P := snd h.

  (* lib.rs:106  files.sort_unstable_by_key(|(_, initial_timestamp, _)| *initial_timestamp) *)
  Variable sort : list hdr -> list hdr.

  (* lib.rs:95-118  .map(|path| { ...; Extension::try_from(..)?; ...; Ok((run, t0, path)) })
                    .collect::<Result<Vec<_>, AlphaIOError>>()?      (first error wins) *)
  Fixpoint read_headers (args : list arg) : res (list hdr) :=
    match args with
    | [] => Ok []
    | a :: rest =>
        do _ <- or_err (extension_try_from (a_ext a)) E_ext;
        do r <- read_headers rest;
        Ok ((a_run a, a_t0 a, a_path a) :: r)
    end.

  (* lib.rs:133-140  for window in files.windows(2) { if window[0].1 == window[1].1 { return Err } } *)
  Fixpoint adjacent_dup (l : list hdr) : bool :=
    match l with
    | a :: tl => match tl with
                 | b :: _ => (h_t0 a =? h_t0 b) || adjacent_dup tl
                 | [] => false
                 end
    | [] => false
    end.

  Definition sort_run_files (args : list arg) : res (N * list P) :=
    do files <- read_headers args;
    match files with
    | [] => Panic                                                        (* lib.rs:120 assert!(!files.is_empty()) *)
    | first :: _ =>
        let expected := h_run first in                                   (* lib.rs:121 *)
        if negb (forallb (fun h => h_run h =? expected) files)           (* lib.rs:122-130 *)
        then Err E_run
        else
          let sorted := sort files in                                    (* lib.rs:132 *)
          if adjacent_dup sorted then Err E_dup                          (* lib.rs:133-140 *)
          else Ok (expected, map h_path sorted)                          (* lib.rs:142-145 *)
    end.

  (* an executable instance of the sort: insertion by key (any sorting permutation gives the same
     result of sort_run_files, see FileOrder_proofs.sort_run_files_any_sort) *)
  Fixpoint insert_by_t0 (x : hdr) (l : list hdr) : list hdr :=
    match l with
    | [] => [x]
    | y :: tl => if h_t0 x <=? h_t0 y then x :: l else y :: insert_by_t0 x tl
    end.
  Fixpoint isort (l : list hdr) : list hdr :=
    match l with
    | [] => []
    | x :: tl => insert_by_t0 x (isort tl)
    end.
End SortRunFiles.

Arguments arg : clear implicits.
Arguments hdr : clear implicits.
