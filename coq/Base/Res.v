(* Outcome type of a modelled Rust function: a value, a typed error (kind code), or a panic. *)
From AG Require Import Base.Prelude.

Inductive res (A : Type) : Type :=
| Ok (a : A)
| Err (k : N)
| Panic.
Arguments Ok {A} a.
Arguments Err {A} k.
Arguments Panic {A}.

Definition bind {A B} (r : res A) (f : A -> res B) : res B :=
  match r with Ok a => f a | Err k => Err k | Panic => Panic end.

Notation "'do' x <- e ; f" := (bind e (fun x => f))
  (at level 200, x name, e at level 100, f at level 200, right associativity).
Notation "'do' ' p <- e ; f" := (bind e (fun x => match x with p => f end))
  (at level 200, p pattern, e at level 100, f at level 200, right associativity).

Definition is_ok {A} (r : res A) : bool := match r with Ok _ => true | _ => false end.
Definition is_err {A} (r : res A) : bool := match r with Err _ => true | _ => false end.
Definition is_panic {A} (r : res A) : bool := match r with Panic => true | _ => false end.

(* `?` on a Result whose error is mapped to kind k *)
Definition or_err {A} (o : option A) (k : N) : res A := match o with Some a => Ok a | None => Err k end.
(* `.unwrap()` on an Option / Result *)
Definition unwrap {A} (o : option A) : res A := match o with Some a => Ok a | None => Panic end.
(* early return *)
Definition guard {A} (c : bool) (k : N) (f : res A) : res A := if c then Err k else f.
(* assert! *)
Definition assert_ {A} (c : bool) (f : res A) : res A := if c then f else Panic.

(* overflow mode of the build: checked = overflow-checks on (debug), wrapping = release *)
Inductive ovf := Checked | Wrapping.

(* unsigned subtraction at width w (bits) *)
Definition usub (m : ovf) (w : N) (a b : N) : res N :=
  if b <=? a then Ok (a - b)
  else match m with Checked => Panic | Wrapping => Ok (a + 2 ^ w - b) end.
Definition uadd (m : ovf) (w : N) (a b : N) : res N :=
  if a + b <? 2 ^ w then Ok (a + b)
  else match m with Checked => Panic | Wrapping => Ok ((a + b) mod 2 ^ w) end.
Definition umul (m : ovf) (w : N) (a b : N) : res N :=
  if a * b <? 2 ^ w then Ok (a * b)
  else match m with Checked => Panic | Wrapping => Ok ((a * b) mod 2 ^ w) end.

Lemma bind_ok {A B} (r : res A) (f : A -> res B) b :
  bind r f = Ok b -> exists a, r = Ok a /\ f a = Ok b.
Proof. destruct r; cbn; try discriminate. eauto. Qed.

Lemma bind_not_panic {A B} (r : res A) (f : A -> res B) :
  r <> Panic -> (forall a, r = Ok a -> f a <> Panic) -> bind r f <> Panic.
Proof. destruct r; cbn; intros; auto; discriminate. Qed.
