(* Byte strings as [list N], little/big-endian values, panicking slice primitives. *)
From AG Require Import Base.Prelude Base.Res.

Definition lenN {A} (l : list A) : N := N.of_nat (length l).
Definition dropN {A} (n : N) (l : list A) : list A := skipn (N.to_nat n) l.
Definition takeN {A} (n : N) (l : list A) : list A := firstn (N.to_nat n) l.
(* n elements starting at offset a *)
Definition subN {A} (l : list A) (a n : N) : list A := takeN n (dropN a l).

Definition byte (b : N) : Prop := b < 256.
Definition bytes (l : list N) : Prop := Forall byte l.
Definition byteb (b : N) : bool := b <? 256.
Definition bytesb (l : list N) : bool := forallb byteb l.

Fixpoint le_val (l : list N) : N :=
  match l with [] => 0 | b :: t => b + 256 * le_val t end.
Definition be_val (l : list N) : N := le_val (rev l).
Fixpoint le_enc (n : nat) (x : N) : list N :=
  match n with O => [] | S k => x mod 256 :: le_enc k (x / 256) end.
Definition be_enc (n : nat) (x : N) : list N := rev (le_enc n x).

(* Rust: &l[a..b]  (panics unless a <= b <= len) *)
Definition slice {A} (l : list A) (a b : N) : res (list A) :=
  if (a <=? b) && (b <=? lenN l) then Ok (subN l a (b - a)) else Panic.
(* Rust: &l[a..] *)
Definition slice_from {A} (l : list A) (a : N) : res (list A) :=
  if a <=? lenN l then Ok (dropN a l) else Panic.
(* Rust: &l[..b] *)
Definition slice_to {A} (l : list A) (b : N) : res (list A) :=
  if b <=? lenN l then Ok (takeN b l) else Panic.
(* Rust: l[i] *)
Definition idx {A} (l : list A) (i : N) : res A :=
  match nth_error l (N.to_nat i) with Some b => Ok b | None => Panic end.
(* Rust: s.try_into::<[u8; n]>().unwrap() *)
Definition arr {A} (n : N) (s : list A) : res (list A) :=
  if lenN s =? n then Ok s else Panic.

(* two's complement *)
Definition to_signed (w : N) (x : N) : Z :=
  if x <? 2 ^ (w - 1) then Z.of_N x else (Z.of_N x - Z.of_N (2 ^ w))%Z.
Definition of_signed (w : N) (z : Z) : N := Z.to_N (z mod Z.of_N (2 ^ w)).

(* ---------- lemmas ---------- *)

Lemma lenN_nil {A} : lenN (@nil A) = 0. Proof. reflexivity. Qed.
Lemma lenN_cons {A} (a : A) l : lenN (a :: l) = lenN l + 1.
Proof. unfold lenN. cbn [length]. lia. Qed.
Lemma lenN_app {A} (l b : list A) : lenN (l ++ b) = lenN l + lenN b.
Proof. unfold lenN. rewrite app_length. lia. Qed.
Lemma lenN_0 {A} (l : list A) : lenN l = 0 -> l = [].
Proof. destruct l; [reflexivity|]. rewrite lenN_cons. lia. Qed.

Lemma dropN_0 {A} (l : list A) : dropN 0 l = l. Proof. reflexivity. Qed.
Lemma dropN_length {A} n (l : list A) : lenN (dropN n l) = lenN l - n.
Proof. unfold dropN, lenN. rewrite skipn_length. lia. Qed.
Lemma takeN_length {A} n (l : list A) : lenN (takeN n l) = N.min n (lenN l).
Proof. unfold takeN, lenN. rewrite firstn_length. lia. Qed.
Lemma subN_length {A} (l : list A) a n : a + n <= lenN l -> lenN (subN l a n) = n.
Proof. intros H. unfold subN. rewrite takeN_length, dropN_length. lia. Qed.
Lemma dropN_app {A} n (l b : list A) : n <= lenN l -> dropN n (l ++ b) = dropN n l ++ b.
Proof.
  unfold dropN, lenN. intros H. rewrite skipn_app.
  replace (N.to_nat n - length l)%nat with O by lia. reflexivity.
Qed.
Lemma dropN_app_exact {A} (l b : list A) n : lenN l = n -> dropN n (l ++ b) = b.
Proof.
  unfold dropN, lenN. intros H. rewrite skipn_app.
  replace (N.to_nat n - length l)%nat with O by lia.
  rewrite skipn_all2 by lia. reflexivity.
Qed.
Lemma takeN_app_exact {A} (l b : list A) n : lenN l = n -> takeN n (l ++ b) = l.
Proof.
  unfold takeN, lenN. intros H. rewrite firstn_app.
  replace (N.to_nat n - length l)%nat with O by lia.
  rewrite firstn_all2 by lia. cbn. apply app_nil_r.
Qed.
Lemma takeN_all {A} (l : list A) n : lenN l <= n -> takeN n l = l.
Proof. unfold takeN, lenN. intros. apply firstn_all2. lia. Qed.
Lemma dropN_all {A} (l : list A) n : lenN l <= n -> dropN n l = [].
Proof. unfold dropN, lenN. intros. apply skipn_all2. lia. Qed.
Lemma skipn_skipn' {A} (l : list A) a b : skipn a (skipn b l) = skipn (b + a) l.
Proof.
  revert l. induction b as [|b IH]; intros l; cbn [skipn Nat.add]; [reflexivity|].
  destruct l; [destruct a; reflexivity|]. apply IH.
Qed.
Lemma dropN_dropN {A} (l : list A) a b : dropN a (dropN b l) = dropN (b + a) l.
Proof.
  unfold dropN. rewrite skipn_skipn'. f_equal. lia.
Qed.
Lemma take_drop {A} n (l : list A) : takeN n l ++ dropN n l = l.
Proof. apply firstn_skipn. Qed.

(* subN of a three-part concatenation *)
Lemma subN_mid {A} (p m s : list A) a n : lenN p = a -> lenN m = n -> subN (p ++ m ++ s) a n = m.
Proof.
  intros Hp Hm. unfold subN. rewrite dropN_app_exact by assumption. apply takeN_app_exact; assumption.
Qed.

Lemma slice_ok {A} (l : list A) a b :
  a <= b -> b <= lenN l -> slice l a b = Ok (subN l a (b - a)).
Proof.
  intros H1 H2. unfold slice.
  destruct (N.leb_spec a b); [|lia]. destruct (N.leb_spec b (lenN l)); [|lia]. reflexivity.
Qed.
Lemma slice_from_ok {A} (l : list A) a : a <= lenN l -> slice_from l a = Ok (dropN a l).
Proof. intros H. unfold slice_from. destruct (N.leb_spec a (lenN l)); [reflexivity|lia]. Qed.
Lemma slice_to_ok {A} (l : list A) b : b <= lenN l -> slice_to l b = Ok (takeN b l).
Proof. intros H. unfold slice_to. destruct (N.leb_spec b (lenN l)); [reflexivity|lia]. Qed.
Lemma idx_ok {A} (l : list A) i : i < lenN l -> exists b, idx l i = Ok b /\ nth_error l (N.to_nat i) = Some b.
Proof.
  intros H. unfold idx. destruct (nth_error l (N.to_nat i)) eqn:E; [eauto|].
  apply nth_error_None in E. unfold lenN in H. lia.
Qed.
Lemma arr_ok {A} n (s : list A) : lenN s = n -> arr n s = Ok s.
Proof. intros H. unfold arr. destruct (N.eqb_spec (lenN s) n); [reflexivity|contradiction]. Qed.

Lemma bytesb_spec l : bytesb l = true <-> bytes l.
Proof.
  unfold bytesb, bytes. rewrite forallb_forall, Forall_forall. unfold byteb, byte.
  split; intros H x Hx; specialize (H x Hx); lia.
Qed.
Lemma bytes_app l1 l2 : bytes (l1 ++ l2) <-> bytes l1 /\ bytes l2.
Proof. apply Forall_app. Qed.
Lemma In_firstn' {A} (x : A) n l : In x (firstn n l) -> In x l.
Proof.
  revert l. induction n as [|n IH]; intros l; cbn [firstn]; [intros []|].
  destruct l; [intros []|]. cbn [In]. intros [H|H]; auto.
Qed.
Lemma bytes_takeN n l : bytes l -> bytes (takeN n l).
Proof.
  unfold bytes, takeN. rewrite !Forall_forall. intros H x Hx. apply H. eapply In_firstn'; eauto.
Qed.
Lemma In_skipn {A} (x : A) n l : In x (skipn n l) -> In x l.
Proof.
  revert l. induction n as [|n IH]; intros l; cbn [skipn]; [auto|].
  destruct l; [auto|]. intros H. right. auto.
Qed.
Lemma bytes_dropN n l : bytes l -> bytes (dropN n l).
Proof.
  unfold bytes, dropN. rewrite !Forall_forall. intros H x Hx. apply H. eapply In_skipn; eauto.
Qed.
Lemma bytes_subN l a n : bytes l -> bytes (subN l a n).
Proof. intros. apply bytes_takeN, bytes_dropN. assumption. Qed.
Lemma bytes_rev l : bytes l -> bytes (rev l).
Proof. unfold bytes. rewrite !Forall_forall. intros H x Hx. apply H. apply in_rev. assumption. Qed.

Lemma pow256_S n : 256 ^ N.of_nat (S n) = 256 * 256 ^ N.of_nat n.
Proof. rewrite Nat2N.inj_succ, N.pow_succ_r'. reflexivity. Qed.
Lemma pow256_pos n : 0 < 256 ^ n.
Proof. apply N.neq_0_lt_0. apply N.pow_nonzero. lia. Qed.

Lemma le_val_bound l : bytes l -> le_val l < 256 ^ lenN l.
Proof.
  unfold lenN. induction 1 as [|b t Hb Ht IH]; cbn [le_val length].
  - cbn. lia.
  - rewrite pow256_S. unfold byte in Hb. lia.
Qed.

Lemma le_enc_length n x : length (le_enc n x) = n.
Proof. revert x. induction n; intros; cbn [le_enc length]; auto. Qed.
Lemma le_enc_lenN n x : lenN (le_enc n x) = N.of_nat n.
Proof. unfold lenN. rewrite le_enc_length. reflexivity. Qed.
Lemma le_enc_bytes n x : bytes (le_enc n x).
Proof.
  revert x. induction n as [|n IH]; intros x; cbn [le_enc]; constructor; [|apply IH].
  unfold byte. apply N.mod_lt. lia.
Qed.
Lemma le_val_enc n x : le_val (le_enc n x) = x mod 256 ^ N.of_nat n.
Proof.
  revert x. induction n as [|n IH]; intros x; cbn [le_enc le_val].
  - cbn. rewrite N.mod_1_r. reflexivity.
  - rewrite IH, pow256_S. pose proof (pow256_pos (N.of_nat n)).
    rewrite N.mod_mul_r by lia. reflexivity.
Qed.
Lemma le_val_enc_small n x : x < 256 ^ N.of_nat n -> le_val (le_enc n x) = x.
Proof. intros. rewrite le_val_enc. apply N.mod_small. assumption. Qed.
Lemma le_enc_val l : bytes l -> le_enc (length l) (le_val l) = l.
Proof.
  induction 1 as [|b t Hb Ht IH]; cbn [le_val le_enc length]; [reflexivity|].
  unfold byte in Hb. f_equal.
  - lia.
  - replace ((b + 256 * le_val t) / 256) with (le_val t) by lia. exact IH.
Qed.
Lemma le_enc_val' n l : bytes l -> length l = n -> le_enc n (le_val l) = l.
Proof. intros H <-. apply le_enc_val. assumption. Qed.

Lemma be_enc_length n x : length (be_enc n x) = n.
Proof. unfold be_enc. rewrite rev_length. apply le_enc_length. Qed.
Lemma be_enc_lenN n x : lenN (be_enc n x) = N.of_nat n.
Proof. unfold lenN. rewrite be_enc_length. reflexivity. Qed.
Lemma be_enc_bytes n x : bytes (be_enc n x).
Proof. apply bytes_rev, le_enc_bytes. Qed.
Lemma be_val_enc_small n x : x < 256 ^ N.of_nat n -> be_val (be_enc n x) = x.
Proof. intros. unfold be_val, be_enc. rewrite rev_involutive. apply le_val_enc_small. assumption. Qed.
Lemma be_val_enc n x : be_val (be_enc n x) = x mod 256 ^ N.of_nat n.
Proof. unfold be_val, be_enc. rewrite rev_involutive. apply le_val_enc. Qed.
Lemma be_enc_val' n l : bytes l -> length l = n -> be_enc n (be_val l) = l.
Proof.
  intros H Hn. unfold be_val, be_enc. rewrite le_enc_val'.
  - apply rev_involutive.
  - apply bytes_rev. assumption.
  - rewrite rev_length. assumption.
Qed.
Lemma be_val_bound l : bytes l -> be_val l < 256 ^ lenN l.
Proof.
  intros H. unfold be_val. replace (lenN l) with (lenN (rev l)) by (unfold lenN; rewrite rev_length; reflexivity).
  apply le_val_bound, bytes_rev. assumption.
Qed.

(* signed round trip *)
Lemma to_of_signed w z : 0 < w -> (- Z.of_N (2 ^ (w - 1)) <= z < Z.of_N (2 ^ (w - 1)))%Z ->
  to_signed w (of_signed w z) = z.
Proof.
  intros Hw Hz. unfold to_signed, of_signed.
  assert (E : 2 ^ w = 2 * 2 ^ (w - 1)).
  { replace w with (N.succ (w - 1)) at 1 by lia. apply N.pow_succ_r'. }
  assert (P : 0 < 2 ^ (w - 1)) by (apply N.neq_0_lt_0, N.pow_nonzero; lia).
  rewrite E in *. set (h := 2 ^ (w - 1)) in *.
  destruct (Z.lt_ge_cases z 0) as [Hn|Hn].
  - assert (M : (z mod Z.of_N (2 * h) = z + Z.of_N (2 * h))%Z).
    { symmetry. apply (Z.mod_unique _ _ (-1)); lia. }
    rewrite M. destruct (N.ltb_spec (Z.to_N (z + Z.of_N (2 * h))) h); lia.
  - rewrite Z.mod_small by lia.
    destruct (N.ltb_spec (Z.to_N z) h); lia.
Qed.
Lemma of_to_signed w x : 0 < w -> x < 2 ^ w -> of_signed w (to_signed w x) = x.
Proof.
  intros Hw Hx. unfold to_signed, of_signed.
  assert (P : 0 < 2 ^ w) by (apply N.neq_0_lt_0, N.pow_nonzero; lia).
  set (m := 2 ^ w) in *.
  destruct (N.ltb_spec x (2 ^ (w - 1))).
  - rewrite Z.mod_small by lia. lia.
  - assert (M : ((Z.of_N x - Z.of_N m) mod Z.of_N m = Z.of_N x)%Z).
    { symmetry. apply (Z.mod_unique _ _ (-1)); lia. }
    rewrite M. lia.
Qed.
Lemma of_signed_bound w z : of_signed w z < 2 ^ w.
Proof.
  unfold of_signed.
  assert (P : 0 < 2 ^ w) by (apply N.neq_0_lt_0, N.pow_nonzero; lia).
  set (m := 2 ^ w) in *.
  pose proof (Z.mod_pos_bound z (Z.of_N m) ltac:(lia)). lia.
Qed.
Lemma to_signed_range w x : 0 < w -> x < 2 ^ w ->
  (- Z.of_N (2 ^ (w - 1)) <= to_signed w x < Z.of_N (2 ^ (w - 1)))%Z.
Proof.
  intros Hw Hx. unfold to_signed.
  assert (E : 2 ^ w = 2 * 2 ^ (w - 1)).
  { replace w with (N.succ (w - 1)) at 1 by lia. apply N.pow_succ_r'. }
  rewrite E in *. set (h := 2 ^ (w - 1)) in *.
  destruct (N.ltb_spec x h); lia.
Qed.

(* ---------- reading fields out of concatenations ---------- *)
Lemma subN_app_r {A} (p s : list A) a n : lenN p <= a -> subN (p ++ s) a n = subN s (a - lenN p) n.
Proof.
  intros H. unfold subN. f_equal. unfold dropN, lenN in *. rewrite skipn_app.
  rewrite skipn_all2 by lia. cbn [app]. f_equal. lia.
Qed.
Lemma subN_app_hd {A} (e s : list A) a n : a = 0 -> n = lenN e -> subN (e ++ s) a n = e.
Proof. intros -> ->. unfold subN. rewrite dropN_0. apply takeN_app_exact. reflexivity. Qed.
Lemma subN_app_l {A} (p s : list A) a n : a + n <= lenN p -> subN (p ++ s) a n = subN p a n.
Proof.
  intros H. unfold subN, takeN, dropN, lenN in *. rewrite skipn_app, firstn_app.
  rewrite skipn_length.
  replace (N.to_nat n - (length p - N.to_nat a))%nat with O by lia.
  cbn [firstn]. apply app_nil_r.
Qed.
Lemma subN_split {A} (l : list A) a n m : subN l a (n + m) = subN l a n ++ subN l (a + n) m.
Proof.
  unfold subN, takeN. rewrite <- dropN_dropN.
  replace (N.to_nat (n + m)) with (N.to_nat n + N.to_nat m)%nat by lia.
  set (r := dropN a l). unfold dropN.
  rewrite <- (firstn_skipn (N.to_nat n) r) at 1.
  rewrite firstn_app, firstn_firstn.
  replace (Nat.min (N.to_nat n + N.to_nat m) (N.to_nat n)) with (N.to_nat n) by lia.
  f_equal. rewrite firstn_length.
  destruct (Nat.le_gt_cases (N.to_nat n) (length r)).
  - replace (N.to_nat n + N.to_nat m - Nat.min (N.to_nat n) (length r))%nat with (N.to_nat m) by lia. reflexivity.
  - rewrite skipn_all2 by lia. rewrite !firstn_nil. reflexivity.
Qed.
Lemma subN_all {A} (l : list A) n : n = lenN l -> subN l 0 n = l.
Proof. intros ->. unfold subN. rewrite dropN_0. apply takeN_all. lia. Qed.
Lemma subN_0 {A} (l : list A) a : subN l a 0 = [].
Proof. reflexivity. Qed.
Lemma dropN_subN {A} (l : list A) a : dropN a l = subN l a (lenN l - a).
Proof. unfold subN. symmetry. apply takeN_all. rewrite dropN_length. lia. Qed.

Global Hint Rewrite @lenN_app @lenN_cons @lenN_nil le_enc_lenN be_enc_lenN : len.

(* ---------- field readers ---------- *)
(* slice[a..a+n].try_into().unwrap() followed by uN::from_le_bytes / from_be_bytes *)
Definition rd_le (l : list N) (a n : N) : res N :=
  do s <- slice l a (a + n); do s' <- arr n s; Ok (le_val s').
Definition rd_be (l : list N) (a n : N) : res N :=
  do s <- slice l a (a + n); do s' <- arr n s; Ok (be_val s').

Lemma rd_le_eq l a n : a + n <= lenN l -> rd_le l a n = Ok (le_val (subN l a n)).
Proof.
  intros H. unfold rd_le. rewrite slice_ok by lia. cbn [bind].
  replace (a + n - a) with n by lia.
  rewrite arr_ok by (apply subN_length; lia). reflexivity.
Qed.

Lemma rd_le_ok l a n : a + n <= lenN l -> bytes l ->
  exists w, rd_le l a n = Ok w /\ w < 256 ^ n /\ le_enc (N.to_nat n) w = subN l a n.
Proof.
  intros H Hb. rewrite rd_le_eq by assumption. eexists; split; [reflexivity|].
  assert (L : lenN (subN l a n) = n) by (apply subN_length; assumption).
  split.
  - rewrite <- L at 2. apply le_val_bound, bytes_subN. assumption.
  - apply le_enc_val'; [apply bytes_subN; assumption|]. unfold lenN in L. lia.
Qed.

Lemma rd_le_total l a n : a + n <= lenN l -> rd_le l a n <> Panic.
Proof. intros. rewrite rd_le_eq by assumption. discriminate. Qed.

Definition nthN (l : list N) (i : N) : N := nth (N.to_nat i) l 0.

Lemma idx_nthN l i : i < lenN l -> idx l i = Ok (nthN l i).
Proof.
  intros H. unfold idx, nthN. destruct (nth_error l (N.to_nat i)) eqn:E.
  - f_equal. symmetry. apply nth_error_nth. assumption.
  - apply nth_error_None in E. unfold lenN in H. lia.
Qed.
Lemma nthN_byte l i : bytes l -> nthN l i < 256.
Proof.
  intros Hb. unfold nthN. destruct (Nat.lt_ge_cases (N.to_nat i) (length l)).
  - unfold bytes in Hb. rewrite Forall_forall in Hb. apply Hb. apply nth_In. assumption.
  - rewrite nth_overflow by assumption. lia.
Qed.
Lemma nthN_subN l i : i < lenN l -> subN l i 1 = [nthN l i].
Proof.
  intros H. assert (Hk : (N.to_nat i < length l)%nat) by (unfold lenN in H; lia). clear H.
  unfold subN, takeN, dropN, nthN.
  change (N.to_nat 1) with 1%nat.
  revert l Hk. generalize (N.to_nat i) as k.
  induction k as [|k IH]; intros [|x l] Hk; cbn [length] in Hk; try lia.
  - reflexivity.
  - cbn [skipn nth]. apply IH. lia.
Qed.

Lemma rd_be_eq l a n : a + n <= lenN l -> rd_be l a n = Ok (be_val (subN l a n)).
Proof.
  intros H. unfold rd_be. rewrite slice_ok by lia. cbn [bind].
  replace (a + n - a) with n by lia.
  rewrite arr_ok by (apply subN_length; lia). reflexivity.
Qed.
Lemma slice_arr_eq {A} (l : list A) a b n : b = a + n -> b <= lenN l ->
  (do s <- slice l a b; arr n s) = Ok (subN l a n).
Proof.
  intros -> H. rewrite slice_ok by lia. cbn [bind]. replace (a + n - a) with n by lia.
  apply arr_ok. apply subN_length. lia.
Qed.

Lemma subN_join {A} (l : list A) a n b m k : b = a + n -> k = n + m ->
  subN l a n ++ subN l b m = subN l a k.
Proof. intros -> ->. symmetry. apply subN_split. Qed.
Lemma subN_last {A} (e : list A) a n : a = 0 -> n = lenN e -> subN e a n = e.
Proof. intros -> ->. apply subN_all. reflexivity. Qed.
Lemma usub_ok m w a b : b <= a -> usub m w a b = Ok (a - b).
Proof. intros H. unfold usub. destruct (N.leb_spec b a); [reflexivity|lia]. Qed.
Lemma umul_ok m w a b : a * b < 2 ^ w -> umul m w a b = Ok (a * b).
Proof. intros H. unfold umul. destruct (N.ltb_spec (a * b) (2 ^ w)); [reflexivity|lia]. Qed.
Lemma slice_from_to_arr {A} (l : list A) a n : a + n <= lenN l ->
  (do s <- slice_from l a; do s2 <- slice_to s n; arr n s2) = Ok (subN l a n).
Proof.
  intros H. rewrite slice_from_ok by lia. cbn [bind].
  rewrite slice_to_ok by (rewrite dropN_length; lia). cbn [bind].
  apply arr_ok. apply subN_length. assumption.
Qed.
Lemma slice_from_arr {A} (l : list A) a n : a + n = lenN l ->
  (do s <- slice_from l a; arr n s) = Ok (subN l a n).
Proof.
  intros H. rewrite slice_from_ok by lia. cbn [bind].
  rewrite dropN_subN. replace (lenN l - a) with n by lia.
  apply arr_ok. apply subN_length. lia.
Qed.
Lemma slice_from_to {A} (l : list A) a n : a + n <= lenN l ->
  (do s <- slice_from l a; slice_to s n) = Ok (subN l a n).
Proof.
  intros H. rewrite slice_from_ok by lia. cbn [bind].
  rewrite slice_to_ok by (rewrite dropN_length; lia). reflexivity.
Qed.
Lemma subN_join' {A} (l : list A) a n b m : b = a + n -> subN l a n ++ subN l b m = subN l a (n + m).
Proof. intros ->. symmetry. apply subN_split. Qed.
Lemma be_val_app a b : be_val (a ++ b) = be_val a * 256 ^ lenN b + be_val b.
Proof.
  unfold be_val. rewrite rev_app_distr.
  replace (lenN b) with (lenN (rev b)) by (unfold lenN; rewrite rev_length; reflexivity).
  generalize (rev a) as x. generalize (rev b) as y. clear.
  induction y as [|c y IH]; intros x; cbn [app le_val].
  - rewrite lenN_nil. change (256^0) with 1. lia.
  - rewrite IH, lenN_cons. rewrite N.add_1_r, N.pow_succ_r'. lia.
Qed.
Lemma be_subN_enc l a n k : bytes l -> a + n <= lenN l -> k = N.to_nat n ->
  be_enc k (be_val (subN l a n)) = subN l a n.
Proof.
  intros Hb H ->. apply be_enc_val'; [apply bytes_subN; assumption|].
  pose proof (subN_length l a n H) as L. unfold lenN in L. lia.
Qed.
Lemma be_subN_bound l a n : bytes l -> a + n <= lenN l -> be_val (subN l a n) < 256 ^ n.
Proof.
  intros Hb H. rewrite <- (subN_length l a n H) at 2. apply be_val_bound, bytes_subN. assumption.
Qed.
Lemma len6 (mac : list N) : length mac = 6%nat -> exists a b c d e g, mac = [a; b; c; d; e; g].
Proof.
  intros H. destruct mac as [|a [|b [|c [|d [|e [|g [|x t]]]]]]]; try discriminate. do 6 eexists. reflexivity.
Qed.
Lemma subN_tail2 {A} (p m s : list A) a n : a = lenN p -> n = lenN m -> subN (p ++ m ++ s) a n = m.
Proof. intros -> ->. apply subN_mid; reflexivity. Qed.
Lemma subN_tail1 {A} (p m : list A) a n : a = lenN p -> n = lenN m -> subN (p ++ m) a n = m.
Proof. intros -> ->. rewrite <- (app_nil_r m) at 1. apply subN_mid; reflexivity. Qed.

Lemma uadd_ok m w a b : a + b < 2 ^ w -> uadd m w a b = Ok (a + b).
Proof. intros H. unfold uadd. destruct (N.ltb_spec (a + b) (2 ^ w)); [reflexivity|lia]. Qed.

Lemma negb_eqb_false a b : negb (a =? b) = false -> a = b.
Proof. destruct (N.eqb_spec a b); [auto|discriminate]. Qed.
Lemma orb_false_both a b : a || b = false -> a = false /\ b = false.
Proof. apply orb_false_iff. Qed.
Ltac norm_hyps := repeat match goal with
  | H : negb (_ =? _) = false |- _ => apply negb_eqb_false in H
  | H : _ || _ = false |- _ => apply orb_false_both in H; destruct H
  | H : (_ <? _) = false |- _ => apply N.ltb_ge in H
  | H : (_ <=? _) = false |- _ => apply N.leb_gt in H
  | H : (_ <? _) = true |- _ => apply N.ltb_lt in H
  | H : (_ <=? _) = true |- _ => apply N.leb_le in H
  | H : (_ =? _) = true |- _ => apply N.eqb_eq in H
  | H : (_ =? _) = false |- _ => apply N.eqb_neq in H
  end.
Ltac len_lia := autorewrite with len; lia.
(* read a field out of a right-nested concatenation e0 ++ e1 ++ ... *)
Ltac sub_walk :=
  first [ rewrite subN_app_hd by len_lia
        | rewrite subN_last by len_lia
        | rewrite subN_app_r by len_lia; sub_walk ].

Lemma le_subN_enc l a n k : bytes l -> a + n <= lenN l -> k = N.to_nat n ->
  le_enc k (le_val (subN l a n)) = subN l a n.
Proof.
  intros Hb H ->. apply le_enc_val'; [apply bytes_subN; assumption|].
  pose proof (subN_length l a n H) as L. unfold lenN in L. lia.
Qed.
Lemma le_subN_bound l a n : bytes l -> a + n <= lenN l -> le_val (subN l a n) < 256 ^ n.
Proof.
  intros Hb H. rewrite <- (subN_length l a n H) at 2. apply le_val_bound, bytes_subN. assumption.
Qed.
