(* Common imports and tactic configuration for the ALPHA-g development.
   Definitions only + tactic setup; no axioms. *)
From Coq Require Export NArith ZArith List Lia Bool Arith PeanoNat.
From Coq Require Export ZifyBool ZifyN ZifyNat.
Export ListNotations.
Global Open Scope N_scope.

(* lia understands / and mod on N and Z *)
Ltac Zify.zify_post_hook ::= Z.div_mod_to_equations.

Global Arguments N.add : simpl never.
Global Arguments N.sub : simpl never.
Global Arguments N.mul : simpl never.
Global Arguments N.div : simpl never.
Global Arguments N.modulo : simpl never.
Global Arguments N.pow : simpl never.
Global Arguments N.eqb : simpl never.
Global Arguments N.ltb : simpl never.
Global Arguments N.leb : simpl never.
Global Arguments N.land : simpl never.
Global Arguments N.lor : simpl never.
Global Arguments N.lxor : simpl never.
Global Arguments N.shiftr : simpl never.
Global Arguments N.shiftl : simpl never.
Global Arguments N.testbit : simpl never.
Global Arguments N.of_nat : simpl never.
Global Arguments N.to_nat : simpl never.
Global Arguments Z.add : simpl never.
Global Arguments Z.sub : simpl never.
Global Arguments Z.mul : simpl never.
Global Arguments Z.div : simpl never.
Global Arguments Z.modulo : simpl never.
Global Arguments Z.of_N : simpl never.
Global Arguments Z.to_N : simpl never.

(* destruct the first boolean comparison found in the goal, recording the fact *)
Ltac case_if :=
  match goal with
  | |- context [if ?c then _ else _] =>
      let E := fresh "E" in destruct c eqn:E
  end.

Ltac inv H := inversion H; subst; clear H.

(* every extraction unit lists this, so that nat, N, Z and positive are always extracted
   (ocaml/common.ml is compiled against each unit) *)
Definition ex_base : nat * N * Z * positive := (O, N0, Z0, xH).
