(* Contiguous-run masks as div/mod arithmetic. *)
From AG Require Import Base.Prelude.

Lemma land_run_shift x m k :
  N.land x (N.shiftl (N.ones m) k) = N.shiftl (N.land (N.shiftr x k) (N.ones m)) k.
Proof.
  apply N.bits_inj. intro i.
  rewrite N.land_spec.
  destruct (N.ltb_spec i k) as [H|H].
  - rewrite !N.shiftl_spec_low by assumption. apply andb_false_r.
  - rewrite !N.shiftl_spec_high' by assumption.
    rewrite N.land_spec, N.shiftr_spec'.
    replace (i - k + k) with i by lia. reflexivity.
Qed.

Lemma run_mask n k : k <= n -> 2^n - 2^k = N.shiftl (N.ones (n-k)) k.
Proof.
  intro H. rewrite N.shiftl_mul_pow2, N.ones_equiv, N.pred_sub, N.mul_sub_distr_r, <- N.pow_add_r.
  replace (n-k+k) with n by lia. lia.
Qed.

Lemma land_run x n k : k <= n -> N.land x (2^n - 2^k) = (x / 2^k) mod 2^(n-k) * 2^k.
Proof.
  intro H. rewrite run_mask by assumption. rewrite land_run_shift.
  rewrite N.shiftl_mul_pow2, N.land_ones, N.shiftr_div_pow2. reflexivity.
Qed.

(* usage: [land_mask M n k] rewrites [N.land _ M] where M = 2^n - 2^k *)
Ltac land_mask M n k :=
  replace M with (2^n - 2^k) in * by reflexivity;
  rewrite ?(fun x => land_run x n k ltac:(lia)) in *.

Lemma shiftr_div x k : N.shiftr x k = x / 2^k.
Proof. apply N.shiftr_div_pow2. Qed.

Lemma testbit_div x k : N.testbit x k = ((x / 2^k) mod 2 =? 1).
Proof.
  rewrite N.testbit_eqb. reflexivity.
Qed.
