(* Model runner of the extraction unit `c07w` (C07/C01): answers the `cb <hex>` and `cbfeed <hex,...>` case
   lines with the COMBINATOR-level model of chronobox_fifo (winnow 0.6.1 semantics, Codec/ChronoWinnow.v), in
   the observation format of ocaml/run_det.ml / harness/det/src/c07.rs.
   Each case is evaluated three times: combinator model with debug_assertions on, with debug_assertions off,
   and the recursive model Codec/Chrono.v; the three are equal by theorem (C07_cbw_fifo_eq, C07_cbw_feed_eq,
   C01_cbw_dbg_irrelevant), so a `models-disagree` line can only mean a broken extraction / runner. *)
open Model
open Common

let cb_entry = function
  | TS (c, tr, t) -> Printf.sprintf "T%s.%d.%s" (n_str c) (if tr then 1 else 0) (n_str t)
  | MK (top, c) -> Printf.sprintf "M%d.%s" (if top then 1 else 0) (n_str c)
let cb_obs ((es, r) : entry list * n list) =
  String.concat " " (string_of_int (List.length es) :: string_of_int (List.length r) :: List.map cb_entry es)

let pres_obs (r : entry list pres) =
  match r with
  | POk (es, rest) -> cb_obs (es, rest)
  | PBack _ -> "err-backtrack" (* cannot be returned by chronobox_fifo: unwrap turns it into a panic *)
  | PCut _ -> "err-cut"
  | PPanic -> "panic"
  | PFuel -> "model-out-of-fuel"

let three (comb : bool -> entry list pres) (recm : unit -> entry list * n list) =
  let d = pres_obs (comb true) and r = pres_obs (comb false) and m = cb_obs (recm ()) in
  if d = r && r = m then d
  else Printf.sprintf "models-disagree winnow-debug=[%s] winnow-release=[%s] recursive=[%s]" d r m

let handle (line : string) : string =
  match String.split_on_char ' ' line with
  | [ "cb"; h ] ->
      let l = unhex h in
      three (fun dbg -> chronobox_fifo_winnow dbg l) (fun () -> cb_fifo l)
  | [ "cbfeed"; hs ] ->
      let ps = List.map unhex (String.split_on_char ',' hs) in
      three (fun dbg -> cbw_feed dbg [] ps) (fun () -> cb_feed [] ps)
  | _ -> "unknown-case"

let () = main handle
