(* Model runner of the extraction unit `c15`: replays cluster_spacepoints / largest_cluster /
   find_vertices bookkeeping with the oracle tables (bins, near, ...) of the case line and prints
   clusters and remainder as class-id lists in order. *)
open Model
open Common

let rec pos_int = function XH -> 1 | XO q -> 2 * pos_int q | XI q -> (2 * pos_int q) + 1
let n_int = function N0 -> 0 | Npos p -> pos_int p
let rec int_pos i = if i = 1 then XH else if i land 1 = 0 then XO (int_pos (i lsr 1)) else XI (int_pos (i lsr 1))
let int_n i = if i = 0 then N0 else Npos (int_pos i)

let split c s = if s = "-" then [] else String.split_on_char c s
let ids s = List.map (fun t -> int_n (int_of_string t)) (split ',' s)
let show_ids l = if l = [] then "-" else String.concat "," (List.map (fun p -> string_of_int (n_int p)) l)
let show_lists ls = if ls = [] then "-" else String.concat "/" (List.map show_ids ls)

(* bins of one class: run-length encoded `theta.lo.count`.  A bin (theta, rho) is only a name for the
   model (it is parametric in `bins`): names are renumbered densely in order of first appearance, one
   shared `positive` per bin, which keeps the keys of the finite map short. *)
let bin_names : (int * int, positive) Hashtbl.t = Hashtbl.create 65536
let bin_name (th : int) (rho : int) : positive =
  let k = (th, rho) in
  match Hashtbl.find_opt bin_names k with
  | Some p -> p
  | None ->
      let p = int_pos (Hashtbl.length bin_names + 1) in
      Hashtbl.add bin_names k p;
      p
let parse_bins (s : string) : positive list =
  List.concat_map
    (fun t ->
      match String.split_on_char '.' t with
      | [ th; lo; n ] ->
          let th = int_of_string th and lo = int_of_string lo and n = int_of_string n in
          List.init n (fun k -> bin_name th (lo + k))
      | _ -> failwith "bins")
    (split ',' s)

(* c15bins: the rho_bin sequence of the case line as a function N -> Z, and the run-length encoding of a bin list
   exactly as harness/phys/src/c15.rs rle_bins prints it *)
let int_z i = if i = 0 then Z0 else if i > 0 then Zpos (int_pos i) else Zneg (int_pos (-i))
let rle_bins (b : (int * int) list) : string =
  let rec go acc = function
    | [] -> List.rev acc
    | (t, lo) :: rest ->
        let rec run n = function (t', r') :: tl when t' = t && r' = lo + n -> run (n + 1) tl | tl -> (n, tl) in
        let n, tl = run 1 rest in
        go (Printf.sprintf "%d.%d.%d" t lo n :: acc) tl
  in
  if b = [] then "-" else String.concat "," (go [] b)

let near_fun (ncls : int) (s : string) : n -> n -> bool =
  let m = Bytes.make (ncls * ncls) '\000' in
  List.iteri
    (fun i row -> List.iter (fun t -> Bytes.set m ((i * ncls) + int_of_string t) '\001') (split ',' row))
    (split ';' s);
  fun p q -> Bytes.get m ((n_int p * ncls) + n_int q) = '\001'

(* oracle for sort_unstable_by: the order the implementation produced on this case (checked to be a
   rearrangement of the argument), or its panic *)
let sort_oracle (sorted : string) (oracle_ok : bool ref) (l : n list) : n list res =
  if sorted = "panic" then Panic
  else
    let s = ids sorted in
    let key l = List.sort compare (List.map n_int l) in
    if key s = key l then Ok s
    else begin
      oracle_ok := false;
      Panic
    end

let count_classes s = List.length (split ';' s)

let handle (line : string) : string =
  match String.split_on_char ' ' line with
  | [ "c15"; classes; pts; bins; near ] -> (
      let ncls = count_classes classes in
      Hashtbl.reset bin_names;
      let btab = Array.of_list (List.map parse_bins (split ';' bins)) in
      if Array.length btab <> ncls then "bad-case"
      else
        let bins_f p = btab.(n_int p) in
        match cluster_spacepoints_pub bins_f (near_fun ncls near) (ids pts) with
        | Ok (cl, rem) -> Printf.sprintf "ok %s | %s" (show_lists cl) (show_ids rem)
        | Err _ -> "out-of-fuel"
        | Panic -> "panic")
  | [ "c15bins"; _point; rhoseq ] -> (
      let seq = Array.of_list (List.map int_of_string (split ',' rhoseq)) in
      let n = Array.length seq in
      if n < 1 then "bad-case"
      else
        let rho_bin k = let i = n_int k in if i < n then int_z seq.(i) else Z0 in
        match get_bins_res rho_bin (int_n (n - 1)) with
        | Ok l -> "ok " ^ rle_bins (List.map (fun (t, r) -> (n_int t, n_int r)) l)
        | Err _ -> "out-of-fuel"
        | Panic -> "panic")
  | [ "c15lc"; classes; pts; near ] -> (
      let ncls = count_classes classes in
      match largest_cluster (near_fun ncls near) (ids pts) with
      | Ok c -> "ok " ^ show_ids c
      | Err _ -> "out-of-fuel"
      | Panic -> "panic")
  | [ "c15v"; classes; pts; flags; sorted; zclose; rbits ] -> (
      let ncls = count_classes classes in
      let fl = Array.of_list (split ',' flags) in
      let long_enough t = fl.(n_int t).[0] = '1' and close_beam t = fl.(n_int t).[1] = '1' in
      let oracle_ok = ref true in
      let sort_f = sort_oracle sorted oracle_ok in
      let zc = near_fun ncls zclose in
      let r = Array.of_list (List.map (fun h -> Int64.float_of_bits (Int64.of_string ("0x" ^ h))) (split ',' rbits)) in
      let sum l = List.fold_left (fun a t -> a +. r.(n_int t)) (-0.0) l in
      let cmp_r a b =
        let x = sum a and y = sum b in
        if x <> x || y <> y then Panic else Ok (if x < y then Lt else if x > y then Gt else Eq)
      in
      match find_vertices long_enough close_beam sort_f zc cmp_r (fun _ -> Ok ()) (ids pts) with
      | Ok (v, rem) ->
          Printf.sprintf "ok %s | %s" (match v with Some c -> show_ids c | None -> "none") (show_ids rem)
      | Err _ -> "err"
      | Panic -> if !oracle_ok then "panic" else "bad-oracle")
  | [ "c15bc"; classes; pts; sorted; zclose ] -> (
      let ncls = count_classes classes in
      let oracle_ok = ref true in
      match beamline_clusters (sort_oracle sorted oracle_ok) (near_fun ncls zclose) (ids pts) with
      | Ok cl -> "ok " ^ show_lists cl
      | Err _ -> "err"
      | Panic -> if !oracle_ok then "panic" else "bad-oracle")
  | tag :: _ when String.length tag >= 3 && String.sub tag 0 3 = "rel" -> "holds"
  | _ -> "unknown-case"

(* The cases are independent: large inputs are spread round-robin over worker processes (C15_WORKERS,
   default 8) and the observation lines are printed in input order. *)
let safe_handle line = try handle line with e -> "model-exception " ^ Printexc.to_string e

let () =
  let lines =
    let rec go acc = match input_line stdin with l -> go (l :: acc) | exception End_of_file -> List.rev acc in
    Array.of_list (go [])
  in
  let n = Array.length lines in
  let workers = try int_of_string (Sys.getenv "C15_WORKERS") with _ -> 8 in
  if n < 64 || workers <= 1 then
    Array.iter
      (fun l ->
        print_string (safe_handle l);
        print_char '\n')
      lines
  else begin
    let files = Array.init workers (fun k -> Filename.temp_file ("c15w" ^ string_of_int k ^ "_") ".out") in
    flush stdout;
    let pids =
      Array.init workers (fun k ->
          match Unix.fork () with
          | 0 ->
              let oc = open_out files.(k) in
              let i = ref k in
              while !i < n do
                output_string oc (safe_handle lines.(!i));
                output_char oc '\n';
                i := !i + workers
              done;
              close_out oc;
              Unix._exit 0
          | pid -> pid)
    in
    Array.iter (fun pid -> ignore (Unix.waitpid [] pid)) pids;
    let ics = Array.map open_in files in
    for i = 0 to n - 1 do
      print_string (try input_line ics.(i mod workers) with End_of_file -> "model-crash");
      print_char '\n'
    done;
    Array.iteri
      (fun k ic ->
        close_in ic;
        Sys.remove files.(k))
      ics
  end
