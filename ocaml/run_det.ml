(* Model runner of the extraction unit `det` (C02, C06, C07): one observation line per case line,
   in the canonical format the Rust harness also prints. *)
open Model
open Common

let cb_entry = function
  | TS (c, tr, t) -> Printf.sprintf "T%s.%d.%s" (n_str c) (if tr then 1 else 0) (n_str t)
  | MK (top, c) -> Printf.sprintf "M%d.%s" (if top then 1 else 0) (n_str c)
let cb_obs ((es, r) : entry list * n list) =
  String.concat " " (string_of_int (List.length es) :: string_of_int (List.length r) :: List.map cb_entry es)


let adc_obs (p : adc) : string =
  let chan = BZ.to_int (n_to_z p.a_chan) in
  let kind, ch = if chan < 128 then (16, chan) else (32, chan - 128) in
  let board, off, build, wave =
    match p.a_long with
    | None -> ("-", "-", "-", [])
    | Some lg -> (hexn lg.al_mac, zz_str lg.al_offset, n_str lg.al_build, lg.al_wave)
  in
  Printf.sprintf "ok %s %s %d %d %s %s %s %s %s %s %s %s %s [%s]" (n_str p.a_trig) (n_str p.a_module) kind ch
    (n_str p.a_req) (n_str p.a_ts) board off build (zz_str p.a_baseline) (n_str p.a_keep_last) (bit p.a_keep_bit)
    (bit p.a_supp)
    (String.concat "," (List.map zz_str wave))

let handle (line : string) : string =
  match String.split_on_char ' ' line with
  | [ "trg"; h ] -> (
      match trg_decode (unhex h) with
      | Ok p -> "ok " ^ obs_list (trg_obs p)
      | Err _ -> "err"
      | Panic -> "panic")
  | [ "adc"; h ] -> (
      (* both overflow modes must agree (C02_adc_no_wrap); the checked mode is printed *)
      match adc_decode adc_macs Checked (unhex h) with
      | Ok p -> adc_obs p
      | Err _ -> "err"
      | Panic -> "panic")
  | [ "cb"; h ] | [ "cblong"; h ] -> cb_obs (cb_fifo (unhex h))
  | [ "cbfeed"; hs ] | [ "cbfeedlong"; hs ] -> cb_obs (cb_feed [] (List.map unhex (String.split_on_char ',' hs)))
  | _ -> "unknown-case"

let () = main handle
