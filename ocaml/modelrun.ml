(* Runs the extracted Coq models on the case lines written by the Rust harnesses.
   One observation line per case line, in the canonical format the harness also prints. *)
open Model

let rec pos_to_z (p : positive) : Z.t =
  match p with
  | XH -> Z.one
  | XO q -> Z.shift_left (pos_to_z q) 1
  | XI q -> Z.succ (Z.shift_left (pos_to_z q) 1)
let n_to_z = function N0 -> Z.zero | Npos p -> pos_to_z p
let rec z_to_pos (z : Z.t) : positive =
  if Z.equal z Z.one then XH
  else
    let q = Z.shift_right z 1 in
    if Z.testbit z 0 then XI (z_to_pos q) else XO (z_to_pos q)
let z_to_n z = if Z.sign z = 0 then N0 else Npos (z_to_pos z)
let n_of_int i = z_to_n (Z.of_int i)
let n_str n = Z.to_string (n_to_z n)

let byte_tbl = Array.init 256 n_of_int
let unhex (s : string) : n list =
  if s = "-" then []
  else begin
    let len = String.length s / 2 in
    let rec go i acc =
      if i < 0 then acc
      else go (i - 1) (byte_tbl.(int_of_string ("0x" ^ String.sub s (2 * i) 2)) :: acc)
    in
    go (len - 1) []
  end

let obs_list (l : n list) = String.concat " " (List.map n_str l)

let handle (line : string) : string =
  match String.split_on_char ' ' line with
  | [ "trg"; h ] -> (
      match trg_decode (unhex h) with
      | Ok p -> "ok " ^ obs_list (trg_obs p)
      | Err _ -> "err"
      | Panic -> "panic")
  | _ -> "unknown-case"

let () =
  try
    while true do
      let line = input_line stdin in
      print_string (handle line);
      print_char '\n'
    done
  with End_of_file -> ()
