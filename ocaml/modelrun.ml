(* Runs the extracted Coq models on the case lines written by the Rust harnesses.
   One observation line per case line, in the canonical format the harness also prints. *)
module BZ = Z (* zarith, before the extracted module Z shadows it *)
open Model

let rec pos_to_z (p : positive) : BZ.t =
  match p with
  | XH -> BZ.one
  | XO q -> BZ.shift_left (pos_to_z q) 1
  | XI q -> BZ.succ (BZ.shift_left (pos_to_z q) 1)
let n_to_z = function N0 -> BZ.zero | Npos p -> pos_to_z p
let rec z_to_pos (z : BZ.t) : positive =
  if BZ.equal z BZ.one then XH
  else
    let q = BZ.shift_right z 1 in
    if BZ.testbit z 0 then XI (z_to_pos q) else XO (z_to_pos q)
let z_to_n z = if BZ.sign z = 0 then N0 else Npos (z_to_pos z)
let n_of_int i = z_to_n (BZ.of_int i)
let n_str n = BZ.to_string (n_to_z n)

let byte_tbl = Array.init 256 n_of_int
let unhex (s : string) : n list =
  if s = "-" then []
  else begin
    let len = String.length s / 2 in
    let rec go i acc =
      if i < 0 then acc
      else go (i - 1) (byte_tbl.(int_of_string ("0x" ^ String.sub s (2 * i) 2)) :: acc)
    in
    go (len - 1) []
  end

let obs_list (l : n list) = String.concat " " (List.map n_str l)

let cb_entry = function
  | TS (c, tr, t) -> Printf.sprintf "T%s.%d.%s" (n_str c) (if tr then 1 else 0) (n_str t)
  | MK (top, c) -> Printf.sprintf "M%d.%s" (if top then 1 else 0) (n_str c)
let cb_obs ((es, r) : entry list * n list) =
  String.concat " " (string_of_int (List.length es) :: string_of_int (List.length r) :: List.map cb_entry es)

let zz_to_z = function Z0 -> BZ.zero | Zpos p -> pos_to_z p | Zneg p -> BZ.neg (pos_to_z p)
let zz_str z = BZ.to_string (zz_to_z z)
let hexn (l : n list) = if l = [] then "-" else String.concat "" (List.map (fun b -> Printf.sprintf "%02x" (BZ.to_int (n_to_z b))) l)
let bit b = if b then "1" else "0"

let adc_obs (p : adc) : string =
  let chan = BZ.to_int (n_to_z p.a_chan) in
  let kind, ch = if chan < 128 then (16, chan) else (32, chan - 128) in
  let board, off, build, wave =
    match p.a_long with
    | None -> ("-", "-", "-", [])
    | Some lg -> (hexn lg.al_mac, zz_str lg.al_offset, n_str lg.al_build, lg.al_wave)
  in
  Printf.sprintf "ok %s %s %d %d %s %s %s %s %s %s %s %s %s [%s]" (n_str p.a_trig) (n_str p.a_module) kind ch
    (n_str p.a_req) (n_str p.a_ts) board off build (zz_str p.a_baseline) (n_str p.a_keep_last) (bit p.a_keep_bit)
    (bit p.a_supp)
    (String.concat "," (List.map zz_str wave))

let handle (line : string) : string =
  match String.split_on_char ' ' line with
  | [ "trg"; h ] -> (
      match trg_decode (unhex h) with
      | Ok p -> "ok " ^ obs_list (trg_obs p)
      | Err _ -> "err"
      | Panic -> "panic")
  | [ "adc"; h ] -> (
      (* both overflow modes must agree (C02_adc_no_wrap); the checked mode is printed *)
      match adc_decode adc_macs Checked (unhex h) with
      | Ok p -> adc_obs p
      | Err _ -> "err"
      | Panic -> "panic")
  | [ "cb"; h ] -> cb_obs (cb_fifo (unhex h))
  | [ "cbfeed"; hs ] -> cb_obs (cb_feed [] (List.map unhex (String.split_on_char ',' hs)))
  | _ -> "unknown-case"

let () =
  try
    while true do
      let line = input_line stdin in
      print_string (handle line);
      print_char '\n'
    done
  with End_of_file -> ()
