(* Model runner of the extraction unit `c03` (C03, C04): one observation line per case line,
   in the canonical format the Rust harness also prints. *)
open Model
open Common

let chunk_line (l : n list) : string =
  let show m =
    match chunk_decode pwb_devices m l with
    | Ok c -> (
        match chunk_obs l c with
        | Ok o -> "ok " ^ obs_list o ^ " " ^ hexn c.c_payload
        | Err _ -> "err-accessor"
        | Panic -> "panic")
    | Err _ -> "err"
    | Panic -> "panic"
  in
  (* both overflow modes must agree (C03_chunk_no_wrap) *)
  let a = show Checked and b = show Wrapping in
  if a = b then a else "mode-mismatch " ^ a ^ " | " ^ b

(* C04: decode every chunk, then the structural part of the reassembly (the payload decoder is abstract):
   `reasm-err` when a structural check fails, else the bytes handed to the payload decoder *)
let reasm_line (hs : string) : string =
  let parts = if hs = "-" then [] else String.split_on_char ',' hs in
  let rec dec acc = function
    | [] -> Some (List.rev acc)
    | h :: t -> (
        match chunk_decode pwb_devices Checked (unhex h) with
        | Ok c -> dec (c :: acc) t
        | _ -> None)
  in
  match dec [] parts with
  | None -> "chunk-err"
  | Some cs ->
      let show m =
        match reasm_struct pwb_devices m isort_by_id cs with
        | Ok b -> (
            (* the payload decoder of C05 on the id-ordered concatenation: success or payload error *)
            match pwb_decode pwb_macs m b with
            | Ok _ -> "concat ok " ^ hexn b
            | Err _ -> "concat payload-err " ^ hexn b
            | Panic -> "panic")
        | Err _ -> "reasm-err"
        | Panic -> "panic"
      in
      let a = show Checked and b = show Wrapping in
      if a = b then a else "mode-mismatch " ^ a ^ " | " ^ b

let handle (line : string) : string =
  match String.split_on_char ' ' line with
  | [ "c3chunk"; h ] -> chunk_line (unhex h)
  | [ "c4reasm"; hs ] -> reasm_line hs
  | [ "c3crc"; h ] -> "crc " ^ n_str (crc32c_raw (unhex h))
  | tag :: _ when String.length tag >= 3 && String.sub tag 0 3 = "rel" -> "holds"
  | _ -> "unknown-case"

let () = main handle
