(* Model runner of the extraction unit `c16` (C16, C14).
   The libm record is filled with the C library's functions: OCaml's sin/cos/atan2/hypot/floor on floats are
   direct calls of glibc's sin, cos, atan2, hypot, floor (the functions Rust's f64 methods call).
   Coq's extracted float type is coq-core's Float64.t (an OCaml float); conversions as Float64 does. *)
open Model
open Common

let of_f = Float64.of_float
(* Float64.to_float canonicalises NaN; Obj.magic keeps the value as is (Float64.t is OCaml's float) *)
let to_f (x : Float64.t) : float = (Obj.magic x : float)

let glibc : libm =
  { lsin = (fun x -> of_f (sin (to_f x)));
    lcos = (fun x -> of_f (cos (to_f x)));
    latan2 = (fun y x -> of_f (atan2 (to_f y) (to_f x)));
    lhypot = (fun a b -> of_f (hypot (to_f a) (to_f b)));
    lfloor = (fun x -> of_f (floor (to_f x))) }

(* 16 hex digits <-> float *)
let fbits (s : string) : Float64.t = of_f (Int64.float_of_bits (Int64.of_string ("0x" ^ s)))
let hexf (x : Float64.t) : string =
  let f = to_f x in
  if f <> f then "7ff8000000000000" else Printf.sprintf "%016Lx" (Int64.bits_of_float f)

let triple ((a, b), c) = Printf.sprintf "%s %s %s" (hexf a) (hexf b) (hexf c)

let handle (line : string) : string =
  match String.split_on_char ' ' line with
  | tag :: _ when String.length tag >= 3 && String.sub tag 0 3 = "rel" -> "holds"
  | [ "kt"; tol; iters; x0; y0; z0; r; phi0; h; pr; pphi; pz; tq ] ->
      let (t, a), b =
        c16_obs glibc (fbits x0) (fbits y0) (fbits z0) (fbits r) (fbits phi0) (fbits h) (fbits pr) (fbits pphi)
          (fbits pz) (fbits tol)
          (nat_of_int (int_of_string iters))
          (fbits tq)
      in
      Printf.sprintf "ok %s %s %s" (hexf t) (triple a) (triple b)
  | (("fit3" | "cls14") as tag) :: n :: rest ->
      let rec pts = function
        | r :: phi :: z :: t -> mk_spoint (fbits r) (fbits phi) (fbits z) :: pts t
        | _ -> []
      in
      let l = pts rest in
      if List.length l <> int_of_string n then "bad-case"
      else if tag = "cls14" then (if tinyphi_class glibc l then "tinyphi" else "ordinary")
      else (
        match n_to_int (fit3_outcome glibc l) with 0 -> "noinit" | 1 -> "track" | _ -> "panic")
  | _ -> "unknown-case"

let () = main handle
