(* Model runner of the extraction unit `c16` (C16, C14).
   The libm record is filled with the C library's functions: OCaml's sin/cos/atan2/hypot/floor on floats are
   direct calls of glibc's sin, cos, atan2, hypot, floor (the functions Rust's f64 methods call).
   Coq's extracted float type is coq-core's Float64.t (an OCaml float); conversions as Float64 does. *)
open Model
open Common

let of_f = Float64.of_float
(* Float64.to_float canonicalises NaN; Obj.magic keeps the value as is (Float64.t is OCaml's float) *)
let to_f (x : Float64.t) : float = (Obj.magic x : float)

let glibc : libm =
  { lsin = (fun x -> of_f (sin (to_f x)));
    lcos = (fun x -> of_f (cos (to_f x)));
    latan2 = (fun y x -> of_f (atan2 (to_f y) (to_f x)));
    lhypot = (fun a b -> of_f (hypot (to_f a) (to_f b)));
    lfloor = (fun x -> of_f (floor (to_f x))) }

(* 16 hex digits <-> float *)
let fbits (s : string) : Float64.t = of_f (Int64.float_of_bits (Int64.of_string ("0x" ^ s)))
let hexf (x : Float64.t) : string =
  let f = to_f x in
  if f <> f then "7ff8000000000000" else Printf.sprintf "%016Lx" (Int64.bits_of_float f)

let triple ((a, b), c) = Printf.sprintf "%s %s %s" (hexf a) (hexf b) (hexf c)

(* ---- relkt / relkc / relkv: the quantifier of C16 on the helices the library produced -------------------------
   Case line  <tag> <n> <payload: w tokens per item>*n | <k> <x0 y0 z0 r phi0 h>*k   (w = 3, for relkv 8).
   The trailer lists the helices the library fitted / attached to the primary vertex (harness/phys/src/c16.rs writes
   it and re-checks it on replay).  A helix outside the quantifier (centre within +-3 m, radius 0.03-5 m,
   |pitch| <= 1e2 m, all parameters finite) is an explicit outcome: `skipped out-of-domain <bound>` with the bound of
   the FIRST such track, the first violated bound in the order below -- the same predicate, on the same bit patterns,
   as `domain_bound` of the harness.  Otherwise `holds` (the oracle itself runs on the implementation only). *)
let raw (s : string) : float = Int64.float_of_bits (Int64.of_string ("0x" ^ s))
let finite (x : float) = match classify_float x with FP_nan | FP_infinite -> false | _ -> true
let domain_bound x0 y0 z0 r phi0 h : string option =
  if not (List.for_all finite [ x0; y0; z0; r; phi0; h ]) then Some "nonfinite-params"
  else if r < 0.0 then Some "negative-radius"
  else if r < 0.03 then Some "radius<0.03m"
  else if r > 5.0 then Some "radius>5m"
  else if abs_float x0 > 3.0 || abs_float y0 > 3.0 || abs_float z0 > 3.0 then Some "centre"
  else if abs_float h > 1e2 then Some "pitch"
  else None

let rec drop n l = if n <= 0 then Some l else match l with [] -> None | _ :: t -> drop (n - 1) t

let trailer_obs (w : int) (n : string) (rest : string list) : string =
  let is_hex s = String.length s = 16 && String.for_all (fun c -> (c >= '0' && c <= '9') || (c >= 'a' && c <= 'f')) s in
  match int_of_string_opt n with
  | None -> "bad-case"
  | Some n when n < 0 -> "bad-case"
  | Some n -> (
      match drop (w * n) rest with
      | Some ("|" :: k :: hs) -> (
          match int_of_string_opt k with
          | Some k when k >= 0 && List.length hs = 6 * k && List.for_all is_hex hs ->
              let rec first = function
                | x0 :: y0 :: z0 :: r :: phi0 :: h :: t -> (
                    match domain_bound (raw x0) (raw y0) (raw z0) (raw r) (raw phi0) (raw h) with
                    | Some b -> "skipped out-of-domain " ^ b
                    | None -> first t)
                | _ -> "holds"
              in
              first hs
          | _ -> "bad-case")
      | _ -> "bad-case")

let handle (line : string) : string =
  match String.split_on_char ' ' line with
  | ("relkt" | "relkc") :: n :: rest -> trailer_obs 3 n rest
  | "relkv" :: n :: rest -> trailer_obs 8 n rest
  | tag :: _ when String.length tag >= 3 && String.sub tag 0 3 = "rel" -> "holds"
  | [ "kt"; tol; iters; x0; y0; z0; r; phi0; h; pr; pphi; pz; tq ] ->
      let (t, a), b =
        c16_obs glibc (fbits x0) (fbits y0) (fbits z0) (fbits r) (fbits phi0) (fbits h) (fbits pr) (fbits pphi)
          (fbits pz) (fbits tol)
          (nat_of_int (int_of_string iters))
          (fbits tq)
      in
      Printf.sprintf "ok %s %s %s" (hexf t) (triple a) (triple b)
  | (("fit3" | "cls14") as tag) :: n :: rest ->
      let rec pts = function
        | r :: phi :: z :: t -> mk_spoint (fbits r) (fbits phi) (fbits z) :: pts t
        | _ -> []
      in
      let l = pts rest in
      if List.length l <> int_of_string n then "bad-case"
      else if tag = "cls14" then (if tinyphi_class glibc l then "tinyphi" else "ordinary")
      else (
        match n_to_int (fit3_outcome glibc l) with 0 -> "noinit" | 1 -> "track" | _ -> "panic")
  | _ -> "unknown-case"

let () = main handle
