(* Model runner of the extraction unit `e2e` (end-to-end tie of C09, C10, C11).
   Case lines (written by harness/phys/src/e2e.rs):
     e2e <run> <namehex>:<datahex>*     observation: outcome + occupied slots + timestamp, exactly as `evt10`
     calw <run>                          observation: count / hash / first / last of the 256 wire calibration triples
     calp <run> <column>                 the same for the 576 pads of a column
   The model gets nothing but the arguments of MainEvent::try_from_banks. *)
open Model
open Common

let split c s = String.split_on_char c s
let bits_of_f (f : Float64.t) : int64 = Int64.bits_of_float (Float64.to_float f)

let fnv (l : Float64.t list) : int64 =
  let h = ref 0xcbf29ce484222325L in
  List.iter
    (fun f ->
      let b = bits_of_f f in
      for i = 0 to 7 do
        let byte = Int64.logand (Int64.shift_right_logical b (8 * i)) 0xFFL in
        h := Int64.mul (Int64.logxor !h byte) 0x100000001b3L
      done)
    l;
  !h

let sig_str (l : Float64.t list) : string =
  let rec take n = function [] -> [] | x :: t -> if n = 0 then [] else x :: take (n - 1) t in
  Printf.sprintf "%d:%016Lx:%s" (List.length l) (fnv l)
    (String.concat "," (List.map (fun f -> Printf.sprintf "%016Lx" (bits_of_f f)) (take 4 l)))

let obs_event (ev : Float64.t event) : string =
  let ws = List.sort compare (List.map (fun (w, s) -> (n_to_int w, s)) ev.ev_wires) in
  let ps = List.sort compare (List.map (fun ((c, r), s) -> ((n_to_int c, n_to_int r), s)) ev.ev_pads) in
  String.concat " "
    (("ok " ^ n_str ev.ev_ts)
     :: (List.map (fun (w, s) -> Printf.sprintf "w%d=%s" w (sig_str s)) ws
        @ List.map (fun ((c, r), s) -> Printf.sprintf "p%d.%d=%s" c r (sig_str s)) ps))

let obs_res = function Ok ev -> obs_event ev | Err _ -> "err" | Panic -> "panic"

let parse_bank (t : string) : n list * n list =
  match split ':' t with [ n; d ] -> (unhex n, unhex d) | _ -> failwith ("bad bank token " ^ t)

(* evaluated for two HashMap iteration orders and both overflow modes; e2e_group_order_irrelevant and
   e2e_build_no_wrap say they agree, the runner checks it again on every case of up to 8 kilobytes of bank data (larger ones are
   evaluated once) *)
let run_model (len : int) (toks : string list) : string =
  match toks with
  | [] -> failwith "no run number"
  | r :: rest ->
      let run = n_of_string r in
      let banks = List.map parse_bank (List.filter (fun t -> t <> "") rest) in
      let o1 = obs_res (try_from_banks_model64 Checked run banks (fun l -> l)) in
      if len > 16000 then o1
      else
        let o2 = obs_res (try_from_banks_model64 Checked run banks List.rev) in
        let o3 = obs_res (try_from_banks_model64 Wrapping run banks (fun l -> l)) in
        if o1 <> o2 then "order-dependent [" ^ o1 ^ "] [" ^ o2 ^ "]"
        else if o1 <> o3 then "mode-dependent [" ^ o1 ^ "] [" ^ o3 ^ "]"
        else o1

let cal_tok = function
  | DErr -> "E"
  | DOk ((bl, g), dl) -> Printf.sprintf "%s:%016Lx:%s" (zz_str bl) (bits_of_f g) (n_str dl)

let summarise (toks : string list) : string =
  let h = ref 0xcbf29ce484222325L in
  let ok = ref 0 in
  let mix byte = h := Int64.mul (Int64.logxor !h (Int64.of_int byte)) 0x100000001b3L in
  List.iter
    (fun t ->
      String.iter (fun c -> mix (Char.code c)) t;
      mix 0x2c;
      if t <> "E" then incr ok)
    toks;
  let first = match toks with [] -> "-" | x :: _ -> x in
  let last = match List.rev toks with [] -> "-" | x :: _ -> x in
  Printf.sprintf "%d %016Lx %s %s" !ok !h first last

let handle (line : string) : string =
  match split ' ' line with
  | "e2e" :: rest -> run_model (String.length line) rest
  | [ "calw"; r ] -> summarise (List.map cal_tok (wire_cal_row64 (n_of_string r)))
  | [ "calp"; r; c ] -> summarise (List.map cal_tok (pad_cal_col64 (n_of_string r) (n_of_string c)))
  | tag :: _ when String.length tag >= 3 && String.sub tag 0 3 = "rel" -> "holds"
  | _ -> "unknown-case"

let () = main handle
