(* Model runner of the extraction unit `c17`: one observation line per case line, in the canonical
   format harness/phys/src/c17.rs also prints.

   case:  c17 <kind> <offlo> <offhi> <lalo> <lahi> <response> <signal>
          kind: w (wire response), p (pad response), x (other); floats are 16-hex-digit bit patterns
   obs:   outcome class ("ok", or "panic" if any of the calls below panicked), then
          for every offset in offlo..=offhi, look_ahead in lalo..=lahi (offsets outer):
            "<off>.<la>=" nn ;  then "ls=" ls_deconvolution over the same grid ;
            kind p: "pad=" pad_deconvolution ; kind w: "wire=" ls over 0..=1 x 3..=12
          nn  = "panic" | <residual> "/" vec ;  vec = <len> ":" i "=" bits "," ... (samples that are not +0.0)
          NaN is printed as "nan" whatever its payload.
   case:  rel17scale <kind> <k> <want> <exact> <response> <signal>     (see below)
   other rel17* lines: relations on the implementation alone; the model answers "holds". *)
open Model
open Common

(* Float64.t is the kernel's abstract binary64; of_float/to_float are the identity on bits *)
let bits (x : Float64.t) : int64 = Int64.bits_of_float (Float64.to_float x)
let fbits (x : Float64.t) : string = if Float64.is_nan x then "nan" else Printf.sprintf "%016Lx" (bits x)

let parse_floats (s : string) : Float64.t list =
  if s = "-" then []
  else begin
    let n = String.length s / 16 in
    let rec go i acc =
      if i < 0 then acc else go (i - 1) (Float64.of_float (Int64.float_of_bits (Int64.of_string ("0x" ^ String.sub s (16 * i) 16))) :: acc)
    in
    go (n - 1) []
  end

let vec (l : Float64.t list) : string =
  let b = Buffer.create 256 in
  Buffer.add_string b (string_of_int (List.length l));
  Buffer.add_char b ':';
  let first = ref true in
  List.iteri
    (fun i x ->
      if bits x <> 0L then begin
        if not !first then Buffer.add_char b ',';
        first := false;
        Buffer.add_string b (string_of_int i);
        Buffer.add_char b '=';
        Buffer.add_string b (fbits x)
      end)
    l;
  Buffer.contents b

let nn_obs = function
  | Ok (r, inp) -> fbits r ^ "/" ^ vec inp
  | Err _ -> "model-out-of-fuel"
  | Panic -> "panic"
let ls_obs = function Ok v -> vec v | Err _ -> "model-out-of-fuel" | Panic -> "panic"

let rec irange lo hi = if lo > hi then [] else lo :: irange (lo + 1) hi

let handle (line : string) : string =
  match String.split_on_char ' ' line with
  | [ "c17"; kind; offlo; offhi; lalo; lahi; resp; sg ] ->
      let offlo = int_of_string offlo and offhi = int_of_string offhi in
      let lalo = int_of_string lalo and lahi = int_of_string lahi in
      let resp = parse_floats resp and sg = parse_floats sg in
      let b = Buffer.create 4096 in
      List.iter
        (fun off ->
          List.iter
            (fun la ->
              Buffer.add_string b
                (Printf.sprintf "%d.%d=%s " off la (nn_obs (nn_greedy_f sg resp (nat_of_int off) (nat_of_int la)))))
            (irange lalo lahi))
        (irange offlo offhi);
      let nats l = List.map nat_of_int l in
      Buffer.add_string b ("ls=" ^ ls_obs (ls_deconv_f sg resp (nats (irange offlo offhi)) (nats (irange lalo lahi))));
      if kind = "p" then Buffer.add_string b (" pad=" ^ ls_obs (pad_deconv_f sg resp));
      if kind = "w" then Buffer.add_string b (" wire=" ^ ls_obs (wire_deconv_f sg resp));
      let s = Buffer.contents b in
      let has_panic =
        let n = String.length s in
        let rec go i = i + 5 <= n && (String.sub s i 5 = "panic" || go (i + 1)) in
        go 0
      in
      (if has_panic then "panic " else "ok ") ^ s
  | [ "rel17scale"; kind; k; want; exact; resp; sg ] ->
      (* the tie of C17_nn_greedy_scale_f64 / C17_ls_deconv_scale_f64 to the cases run: the theorems' executable
         hypothesis (nn_safe at every grid point, ls_safe over the grid; in the form nn_safe_fast / ls_safe_fast,
         C17_nn_safe_fast_eq / C17_ls_safe_fast_eq) is EVALUATED on the waveform, response,
         grid and k of the case.  `exact` is the implementation's verdict carried by the case line (1 = every
         sweep of the grid and the entry point scaled bit for bit).  Alarming: hypothesis true and not exact.
         `want` is the generator's claim about the predicate: s = must be true (in-domain waveform, |k| <= 20),
         u = must be false (|k| > kmax), a = either. *)
      let (offlo, offhi, lalo, lahi) = if kind = "p" then (3, 5, 7, 12) else (0, 1, 3, 12) in
      let resp = parse_floats resp and sg = parse_floats sg in
      let kz = zz_of_string k in
      let nats l = List.map nat_of_int l in
      let safe =
        ls_safe_fast kz sg resp (nats (irange offlo offhi)) (nats (irange lalo lahi))
        && List.for_all
             (fun off -> List.for_all (fun la -> nn_safe_fast kz sg resp (nat_of_int off) (nat_of_int la)) (irange lalo lahi))
             (irange offlo offhi)
      in
      if (kind <> "w" && kind <> "p") || (exact <> "0" && exact <> "1") then "bad-case-line"
      else if safe && exact = "0" then "violates-theorem: ls_safe/nn_safe hold and the implementation did not scale exactly"
      else if want = "s" && not safe then "predicate-false on a case of the class that must satisfy it"
      else if want = "u" && safe then "predicate-true beyond kmax"
      else "ok"
  | tag :: _ when String.length tag >= 3 && String.sub tag 0 3 = "rel" -> "holds"
  | _ -> "unknown-case"

let () = main handle
