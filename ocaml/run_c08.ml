(* Model runner of the extraction unit `c08`: one observation line per case line, in the canonical
   format harness/det/src/c08.rs also prints. *)
open Model
open Common

let board (nm, mac) = hexn nm ^ ":" ^ hexn mac
let chan_str k =
  let ((kind, b), ch) = chan_obs k in
  Printf.sprintf "ok:%s:%s:%s" (n_str kind) (board b) (n_str ch)
let out f = function Ok v -> f v | Err _ -> "err" | Panic -> "panic"

let parsers : (string * (n list -> string)) list = [
  ("main", fun s -> out chan_str (parse_main s));
  ("a16", fun s -> out chan_str (parse_alpha16 s));
  ("adc16", fun s -> out (fun (b, c) -> Printf.sprintf "ok:%s:%s" (board (a16_row b)) (n_str c)) (parse_adc16 s));
  ("adc32", fun s -> out (fun (b, c) -> Printf.sprintf "ok:%s:%s" (board (a16_row b)) (n_str c)) (parse_adc32 s));
  ("pwb", fun s -> out (fun b -> "ok:" ^ board (pwb_row b)) (parse_pwb s));
  ("trg", fun s -> out (fun _ -> "ok") (parse_trg s));
  ("trb3", fun s -> out (fun _ -> "ok") (parse_trb3 s));
  ("mcvx", fun s -> out (fun _ -> "ok") (parse_mcvx s));
  ("cb", fun s -> out (fun b -> "ok:" ^ hexn (cb_row b)) (parse_cb s));
  ("seq2", fun s -> out (fun _ -> "ok") (parse_seq2 s));
]

let name_obs (s : n list) : string =
  String.concat ","
    (List.filter_map (fun (p, f) -> let o = f s in if o = "err" then None else Some (p ^ "=" ^ o)) parsers)

(* The map observations are the ones the property REQUIRES (Ident/Maps.v: *_req; proved equal to the plain model by
   C08_required_is_actual), so a table/arm that breaks a theorem shows up as a concrete differing run number.
   Pure functions of the dispatch result, memoised because a table costs ~0.5 s with binary N. *)
let memo f =
  let h = Hashtbl.create 16 in
  fun k -> match Hashtbl.find_opt h k with Some v -> v | None -> let v = f k in Hashtbl.add h k v; v
let tbl_str ((nok, h), bij) = Printf.sprintf "%s/%s/%s" (n_str nok) (n_str h) (bit bij)
let wire_obs = memo (fun d -> tbl_str (wire_table_obs_req d))
let pad_obs = memo (fun d -> tbl_str (pad_table_obs_req d))

let contains (s : string) (sub : string) =
  let n = String.length s and m = String.length sub in
  let rec go i = i + m <= n && (String.sub s i m = sub || go (i + 1)) in
  go 0
let classify o = if o = "" then "err" else if contains o "=panic" then "panic" else "ok"

let handle (line : string) : string =
  match String.split_on_char ' ' line with
  | [ "nm"; h ] -> let o = name_obs (unhex h) in if o = "" then "err" else classify o ^ " " ^ o
  | [ "nmblk"; p; cs ] ->
      let p = unhex p in
      let comps = String.split_on_char ',' cs in
      let hits =
        List.filter_map
          (fun c -> let s = p @ unhex c in let o = name_obs s in if o = "" then None else Some (" " ^ hexn s ^ ":" ^ o))
          comps
      in
      let hs = String.concat "" hits in
      classify hs ^ " " ^ string_of_int (List.length comps) ^ hs
  | [ "radix"; r; h ] -> (
      match from_str_radix_u8 (n_of_string r) (unhex h) with Some v -> "ok " ^ n_str v | None -> "err")
  | [ "run"; r ] ->
      let run = n_of_string r in
      let w = wire_obs (wire_dispatch_req run) and p = pad_obs (pwb_dispatch_req run) in
      let zero x = String.length x >= 2 && String.sub x 0 2 = "0/" in
      Printf.sprintf "%s w=%s p=%s" (if zero w && zero p then "err" else "ok") w p
  | [ "wpos"; r; b; ch ] -> (
      match wpos_obs_req (n_of_string r) (unhex b) (n_of_string ch) with
      | None -> "noboard"
      | Some x -> out (fun w -> "ok " ^ n_str w) x)
  | [ "ppos"; r; b; a; ch ] -> (
      match ppos_obs_req (n_of_string r) (unhex b) (n_of_string a) (n_of_string ch) with
      | None -> "noboard"
      | Some x -> out (fun (c, w) -> Printf.sprintf "ok %s %s" (n_str c) (n_str w)) x)
  | [ "wcol"; w ] -> (
      match wcol_obs (n_of_string w) with None -> "nowire" | Some (s, c) -> "ok " ^ n_str s ^ " " ^ n_str c)
  | [ "colw"; c ] -> (
      match pad_column_to_wires (n_of_string c) with
      | [] -> "ok -"
      | l -> "ok " ^ obs_list (List.sort (fun a b -> BZ.compare (n_to_z a) (n_to_z b)) l))
  | _ -> "unknown-case"

let () = main handle
