(* Model runner of the extraction unit `c19`: one observation line per case line, in the canonical
   format of harness/apps/src/c19.rs.
     c19 <perm> <run>      V=<rows|fail> S=<rows|fail>
     rel...                holds           (implementation-only relations)
   <run> = <file>/<file>/..   <file> = run,t0,t1,ext:<ev>;<ev>;..
   <ev>  = id.kind.vs.serial.ts.in.drift.sd.pulser.out   (vs: decodable by the vertices / scalers binary)
           events with wire and pad data have three more fields .seed.ntracks.x_y_z : the last one is the
           payload of the vertices row (three columns, f64 bit patterns or `-`), passed through untouched.
   The payload type of the row model is a parameter (Rows.v, Section Rows, Variable P); here it is the
   list of the column texts. *)
open Model
open Common

type ev = { id : n; v : bool; s : bool; serial : n; ts : n; cols : string list; vcols : string list }

let parse_ev (x : string) : ev =
  let mk id vs serial ts scal vcols =
    { id = n_of_string id; v = vs.[0] = '1'; s = vs.[1] = '1'; serial = n_of_string serial;
      ts = n_of_string ts; cols = List.map (fun c -> n_str (n_of_string c)) scal; vcols }
  in
  match String.split_on_char '.' x with
  | [ id; _kind; vs; serial; ts; inp; drift; sd; pulser; out ] ->
      (* a TRG-only event: the library finds no vertex *)
      mk id vs serial ts [ inp; drift; sd; pulser; out ] [ "-"; "-"; "-" ]
  | [ id; _kind; vs; serial; ts; inp; drift; sd; pulser; out; _seed; _ntracks; vtx ] -> (
      match String.split_on_char '_' vtx with
      | [ _; _; _ ] as v -> mk id vs serial ts [ inp; drift; sd; pulser; out ] v
      | _ -> failwith "bad vertex columns")
  | _ -> failwith "bad event"

let parse_file (x : string) =
  match String.split_on_char ':' x with
  | [ head; evs ] -> (
      match String.split_on_char ',' head with
      | [ run; t0; t1; ext ] ->
          let ext = if ext = "-" then [] else List.init (String.length ext) (fun i -> n_of_int (Char.code ext.[i])) in
          let evs = List.filter (fun e -> e <> "") (String.split_on_char ';' evs) in
          (n_of_string run, n_of_string t0, n_of_string t1, ext, List.map parse_ev evs)
      | _ -> failwith "bad file head")
  | _ -> failwith "bad file"

(* the run as the vertices binary (payload: the vertex columns) or the scalers binary (the counters) sees it *)
let file_for (vertices : bool) (run, t0, t1, ext, evs) : string list file =
  let ev e =
    let dec = if vertices then e.v else e.s in
    { e_id = e.id; e_serial = e.serial;
      e_dec = (if dec then Some (e.ts, if vertices then e.vcols else e.cols) else None) }
  in
  { f_run = run; f_t0 = t0; f_t1 = t1; f_ext = ext; f_events = List.map ev evs }

let show_rows (ncols : int) (r : string list row list res) : string =
  match r with
  | Ok rows ->
      let empty = String.concat "," (List.init ncols (fun _ -> "-")) in
      let row (serial, d) =
        match d with
        | Some (ticks, cols) -> n_str serial ^ "," ^ n_str ticks ^ "," ^ String.concat "," cols
        | None -> n_str serial ^ ",-," ^ empty
      in
      Printf.sprintf "ok %d:%s" (List.length rows) (String.concat ";" (List.map row rows))
  | Err _ | Panic -> "fail"

let handle (line : string) : string =
  match String.split_on_char ' ' line with
  | [ "c19"; perm; run ] ->
      let files = Array.of_list (List.map parse_file (String.split_on_char '/' run)) in
      let args = List.init (String.length perm) (fun i -> files.(Char.code perm.[i] - 48)) in
      let v = run_rows_exec (List.map (file_for true) args) in
      let s = run_rows_exec (List.map (file_for false) args) in
      "V=" ^ show_rows 3 v ^ " S=" ^ show_rows 5 s
  | tag :: _ when String.length tag >= 3 && String.sub tag 0 3 = "rel" -> "holds"
  | _ -> "unknown-case"

let () = main handle
