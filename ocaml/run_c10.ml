(* Model runner of the extraction unit `c10` (C09, C10, C11): event assembly over decoded banks.
   Case lines (written by harness/phys/src/c10.rs):
     evt10 <run> <name:data>* | <view tokens>*     observation: outcome + occupied slots + timestamp
     tot09 <run> <name:data>* | <view tokens>*     observation: outcome class only
     rel...                                         implementation-only relation: `holds`
   The raw part before `|` is for the implementation; the model reads the decoded view after it. *)
open Model
open Common

let split c s = String.split_on_char c s
let zlist s = if s = "-" then [] else List.map zz_of_string (split ',' s)
let f_of_hex (h : string) : Float64.t = Float64.of_float (Int64.float_of_bits (Int64.of_string ("0x" ^ h)))
let bits_of_f (f : Float64.t) : int64 = Int64.bits_of_float (Float64.to_float f)
let ni s = n_of_string s

let parse_pchan (s : string) : pchan =
  let k = ni (String.sub s 1 (String.length s - 1)) in
  match s.[0] with 'P' -> Pad k | 'F' -> Fpn k | 'R' -> Reset k | _ -> failwith "pchan"

let parse_sent (s : string) : (pchan * z list) list =
  if s = "-" then []
  else
    List.map
      (fun t -> match split '=' t with [ c; w ] -> (parse_pchan c, zlist w) | _ -> failwith "sent")
      (split '/' s)

type view = {
  mutable banks : bank list;
  wp : (int * int, n dec) Hashtbl.t;
  wc : (int, ((z * Float64.t) * n) dec) Hashtbl.t;
  pp : (int * int * int, (n * n) dec) Hashtbl.t;
  pc : (int * int, ((z * Float64.t) * n) dec) Hashtbl.t;
  gr : (string, pwbv dec) Hashtbl.t;
}

let parse_view (toks : string list) : view =
  let v = { banks = []; wp = Hashtbl.create 16; wc = Hashtbl.create 16; pp = Hashtbl.create 16;
            pc = Hashtbl.create 16; gr = Hashtbl.create 16 } in
  let cal bl g dl = DOk ((zz_of_string bl, f_of_hex g), ni dl) in
  List.iter
    (fun t ->
      if t <> "" then
      match split ':' t with
      | [ "W"; nb; nc; "E" ] -> v.banks <- BWire (ni nb, ni nc, DErr) :: v.banks
      | [ "W"; nb; nc; b; ch; wf ] ->
          let board = if b = "-" then None else Some (ni b) in
          let c = ni (String.sub ch 1 (String.length ch - 1)) in
          let chan = if ch.[0] = 'A' then A32 c else BV16 c in
          v.banks <- BWire (ni nb, ni nc, DOk { a_board = board; a_chan = chan; a_wf = zlist wf }) :: v.banks
      | [ "P"; nb; "E" ] -> v.banks <- BPad (ni nb, DErr) :: v.banks
      | [ "P"; nb; b; chip; uid ] ->
          v.banks <- BPad (ni nb, DOk { c_board = ni b; c_chip = ni chip; c_uid = ni uid }) :: v.banks
      | [ "T"; "E" ] -> v.banks <- BTrg DErr :: v.banks
      | [ "T"; ts ] -> v.banks <- BTrg (DOk (ni ts)) :: v.banks
      | [ "O" ] -> v.banks <- BOther :: v.banks
      | [ "U" ] -> v.banks <- BUnknown :: v.banks
      | [ "wp"; b; c; "E" ] -> Hashtbl.replace v.wp (int_of_string b, int_of_string c) DErr
      | [ "wp"; b; c; w ] -> Hashtbl.replace v.wp (int_of_string b, int_of_string c) (DOk (ni w))
      | [ "wc"; w; "E" ] -> Hashtbl.replace v.wc (int_of_string w) DErr
      | [ "wc"; w; bl; g; dl ] -> Hashtbl.replace v.wc (int_of_string w) (cal bl g dl)
      | [ "pp"; b; chip; c; "E" ] -> Hashtbl.replace v.pp (int_of_string b, int_of_string chip, int_of_string c) DErr
      | [ "pp"; b; chip; c; col; row ] ->
          Hashtbl.replace v.pp (int_of_string b, int_of_string chip, int_of_string c) (DOk (ni col, ni row))
      | [ "pc"; col; row; "E" ] -> Hashtbl.replace v.pc (int_of_string col, int_of_string row) DErr
      | [ "pc"; col; row; bl; g; dl ] -> Hashtbl.replace v.pc (int_of_string col, int_of_string row) (cal bl g dl)
      | [ "g"; uids; "E" ] -> Hashtbl.replace v.gr uids DErr
      | [ "g"; uids; b; chip; sent ] ->
          Hashtbl.replace v.gr uids (DOk { p_board = ni b; p_chip = ni chip; p_sent = parse_sent sent })
      | _ -> failwith ("bad view token " ^ t))
    toks;
  v.banks <- List.rev v.banks;
  v

(* an oracle that is asked something the implementation side did not log is a broken tie *)
let find tbl k what = try Hashtbl.find tbl k with Not_found -> failwith ("oracle-miss " ^ what)

let env_of (v : view) =
  mk_env64
    (fun b c -> find v.wp (n_to_int b, n_to_int c) "wp")
    (fun b chip c -> find v.pp (n_to_int b, n_to_int chip, n_to_int c) "pp")
    (fun w -> find v.wc (n_to_int w) "wc")
    (fun c r -> find v.pc (n_to_int c, n_to_int r) "pc")
    (fun cs -> find v.gr (String.concat "," (List.map (fun c -> n_str c.c_uid) cs)) "g")

let fnv (l : Float64.t list) : int64 =
  let h = ref 0xcbf29ce484222325L in
  List.iter
    (fun f ->
      let b = bits_of_f f in
      for i = 0 to 7 do
        let byte = Int64.logand (Int64.shift_right_logical b (8 * i)) 0xFFL in
        h := Int64.mul (Int64.logxor !h byte) 0x100000001b3L
      done)
    l;
  !h

let sig_str (l : Float64.t list) : string =
  let rec take n = function [] -> [] | x :: t -> if n = 0 then [] else x :: take (n - 1) t in
  Printf.sprintf "%d:%016Lx:%s" (List.length l) (fnv l)
    (String.concat "," (List.map (fun f -> Printf.sprintf "%016Lx" (bits_of_f f)) (take 4 l)))

let obs_event (ev : Float64.t event) : string =
  let ws = List.sort compare (List.map (fun (w, s) -> (n_to_int w, s)) ev.ev_wires) in
  let ps = List.sort compare (List.map (fun ((c, r), s) -> ((n_to_int c, n_to_int r), s)) ev.ev_pads) in
  String.concat " "
    (("ok " ^ n_str ev.ev_ts)
     :: (List.map (fun (w, s) -> Printf.sprintf "w%d=%s" w (sig_str s)) ws
        @ List.map (fun ((c, r), s) -> Printf.sprintf "p%d.%d=%s" c r (sig_str s)) ps))

let obs_res full = function
  | Ok ev -> if full then obs_event ev else "ok"
  | Err _ -> "err"
  | Panic -> "panic"

(* the model is evaluated for two HashMap iteration orders and both overflow modes; the theorems
   C11_group_order_irrelevant and C09_build_no_wrap say they agree, the runner checks it again *)
let run_model full (toks : string list) : string =
  let v = parse_view toks in
  let e = env_of v in
  let o1 = obs_res full (build64 e Checked (fun l -> l) v.banks) in
  let o2 = obs_res full (build64 e Checked List.rev v.banks) in
  let o3 = obs_res full (build64 e Wrapping (fun l -> l) v.banks) in
  if o1 <> o2 then "order-dependent [" ^ o1 ^ "] [" ^ o2 ^ "]"
  else if o1 <> o3 then "mode-dependent [" ^ o1 ^ "] [" ^ o3 ^ "]"
  else o1

let rec after_bar = function [] -> [] | "|" :: t -> t | _ :: t -> after_bar t

let handle (line : string) : string =
  match split ' ' line with
  | "evt10" :: rest -> run_model true (after_bar rest)
  | "tot09" :: rest -> run_model false (after_bar rest)
  | tag :: _ when String.length tag >= 3 && String.sub tag 0 3 = "rel" -> "holds"
  | _ -> "unknown-case"

let () = main handle
