(* Shared helpers of the model runners: conversions between the extracted numerals and zarith,
   hex parsing, and the read-eval-print loop. Compiled against the `Model` module of each extraction unit. *)
module BZ = Z (* zarith, before the extracted module Z shadows it *)
open Model

let rec pos_to_z (p : positive) : BZ.t =
  match p with
  | XH -> BZ.one
  | XO q -> BZ.shift_left (pos_to_z q) 1
  | XI q -> BZ.succ (BZ.shift_left (pos_to_z q) 1)
let n_to_z = function N0 -> BZ.zero | Npos p -> pos_to_z p
let rec z_to_pos (z : BZ.t) : positive =
  if BZ.equal z BZ.one then XH
  else
    let q = BZ.shift_right z 1 in
    if BZ.testbit z 0 then XI (z_to_pos q) else XO (z_to_pos q)
let z_to_n z = if BZ.sign z = 0 then N0 else Npos (z_to_pos z)
let n_of_int i = z_to_n (BZ.of_int i)
let n_str n = BZ.to_string (n_to_z n)

let byte_tbl = Array.init 256 n_of_int
let unhex (s : string) : n list =
  if s = "-" then []
  else begin
    let len = String.length s / 2 in
    let rec go i acc =
      if i < 0 then acc
      else go (i - 1) (byte_tbl.(int_of_string ("0x" ^ String.sub s (2 * i) 2)) :: acc)
    in
    go (len - 1) []
  end

let obs_list (l : n list) = String.concat " " (List.map n_str l)

let zz_to_z = function Z0 -> BZ.zero | Zpos p -> pos_to_z p | Zneg p -> BZ.neg (pos_to_z p)
let zz_str z = BZ.to_string (zz_to_z z)
let z_to_zz (z : BZ.t) = if BZ.sign z = 0 then Z0 else if BZ.sign z > 0 then Zpos (z_to_pos z) else Zneg (z_to_pos (BZ.neg z))
let n_of_string s = z_to_n (BZ.of_string s)
let zz_of_string s = z_to_zz (BZ.of_string s)
let n_to_int n = BZ.to_int (n_to_z n)
let hexn (l : n list) = if l = [] then "-" else String.concat "" (List.map (fun b -> Printf.sprintf "%02x" (BZ.to_int (n_to_z b))) l)
let bit b = if b then "1" else "0"
let rec nat_of_int i = if i <= 0 then O else S (nat_of_int (i - 1))
let rec int_of_nat = function O -> 0 | S n -> 1 + int_of_nat n

(* read case lines from stdin, print one observation line per case *)
let main (handle : string -> string) =
  try
    while true do
      let line = input_line stdin in
      print_string (try handle line with e -> "model-exception " ^ Printexc.to_string e);
      print_char '\n'
    done
  with End_of_file -> ()
