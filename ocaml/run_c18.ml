(* Model runner of the extraction unit `c18` (drift lookup): one observation line per case line, in the
   canonical format harness/phys/src/c18.rs also prints.
     drift <t> <phi> <z>      (16-hex-digit bit patterns)  ->  ok <r> <phi> <z> | err-time | err-z | panic
     drift-ntab               ->  number of tables
     drift-tab <i>            ->  <number of knots> <z bound bits> <FNV-1a-64 of all bit patterns of table i>
     rel...                   ->  holds      (implementation-only oracles)
   The tables are the hexadecimal literals of coq/Gen/Drift.v (the file coqc compiles; see Extract/Ex_c18.v). *)
open Model
open Common

let bits_of (x : Float64.t) : int64 = Int64.bits_of_float (Float64.to_float x)
let show (x : Float64.t) : string =
  if Float64.is_nan x then "nan" else Printf.sprintf "%016Lx" (bits_of x)
let parse (s : string) : Float64.t =
  Float64.of_float (Int64.float_of_bits (Int64.of_string ("0x" ^ s)))

(* ---- Gen/Drift.v reader ---- *)
let gen_file () =
  match Sys.getenv_opt "VERIF_DRIFT_V" with
  | Some p -> p
  | None ->
      (* <root>/.build/extract/c18/modelrun *)
      let d = Filename.dirname Sys.executable_name in
      List.fold_left Filename.concat d [ ".."; ".."; ".."; "coq"; "Gen"; "Drift.v" ]

let read_file p =
  let ic = open_in_bin p in
  let n = in_channel_length ic in
  let s = really_input_string ic n in
  close_in ic;
  s

let is_hexfloat_char c =
  match c with '0' .. '9' | 'a' .. 'f' | 'A' .. 'F' | 'x' | '.' | 'p' | '+' | '-' -> true | _ -> false

(* all hexadecimal float literals of s.[a..b), in order ("(-0x..)" is a negative literal) *)
let hex_literals (s : string) (a : int) (b : int) : float list =
  let out = ref [] in
  let i = ref a in
  while !i < b - 1 do
    if s.[!i] = '0' && s.[!i + 1] = 'x' && (!i = a || not (is_hexfloat_char s.[!i - 1]) || s.[!i - 1] = '-') then begin
      let j = ref !i in
      while !j < b && is_hexfloat_char s.[!j] do incr j done;
      let v = float_of_string (String.sub s !i (!j - !i)) in
      let v = if !i > a && s.[!i - 1] = '-' then -.v else v in
      out := v :: !out;
      i := !j
    end
    else incr i
  done;
  List.rev !out

let find_from (s : string) (pat : string) (from : int) : int option =
  let n = String.length s and m = String.length pat in
  let rec go i =
    if i + m > n then None
    else if s.[i] = pat.[0] && String.sub s i m = pat then Some i
    else go (i + 1)
  in
  go from

let load_tables () : ptables =
  let s = read_file (gen_file ()) in
  let n = String.length s in
  (* block boundaries: every "Definition " *)
  let rec starts acc from =
    match find_from s "Definition " from with Some i -> starts (i :: acc) (i + 1) | None -> List.rev acc
  in
  let st = Array.of_list (starts [] 0) in
  let blocks = Array.to_list (Array.mapi (fun k a -> (a, if k + 1 < Array.length st then st.(k + 1) else n)) st) in
  let name a =
    (* identifier after "Definition " *)
    let i = a + 11 in
    let j = ref i in
    while !j < n && (match s.[!j] with 'a' .. 'z' | 'A' .. 'Z' | '0' .. '9' | '_' -> true | _ -> false) do incr j done;
    String.sub s i (!j - i)
  in
  let tabs = Hashtbl.create 128 in
  let top = ref None in
  List.iter
    (fun (a, b) ->
      let nm = name a in
      let body = match find_from s ":=" a with Some i when i < b -> i + 2 | _ -> failwith "Drift.v: no :=" in
      if nm = "drift_tables" then top := Some (body, b)
      else begin
        let rec triples = function
          | x :: y :: z :: r -> ((Float64.of_float x, Float64.of_float y), Float64.of_float z) :: triples r
          | [] -> []
          | _ -> failwith "Drift.v: knot is not a triple"
        in
        Hashtbl.replace tabs nm (triples (hex_literals s body b))
      end)
    blocks;
  match !top with
  | None -> failwith "Drift.v: drift_tables not found"
  | Some (a, b) ->
      (* entries "(drift_table_<k>, <bound>)" *)
      let rec go from acc =
        match find_from s "(drift_table_" from with
        | Some i when i < b ->
            let j = ref (i + 1) in
            while s.[!j] <> ',' do incr j done;
            let nm = String.sub s (i + 1) (!j - i - 1) in
            let k = ref !j in
            while s.[!k] <> ';' && s.[!k] <> ']' do incr k done;
            let bound =
              match hex_literals s !j !k with [ v ] -> Float64.of_float v | _ -> failwith "Drift.v: bound"
            in
            let t = try Hashtbl.find tabs nm with Not_found -> failwith ("Drift.v: missing " ^ nm) in
            go !k ((t, bound) :: acc)
        | _ -> List.rev acc
      in
      go a []

let tables : ptables Lazy.t = lazy (load_tables ())

(* FNV-1a 64 over the little-endian bytes of each bit pattern *)
let fnv_init = 0xcbf29ce484222325L
let fnv_u64 (h : int64) (x : int64) : int64 =
  let h = ref h in
  for k = 0 to 7 do
    let byte = Int64.logand (Int64.shift_right_logical x (8 * k)) 0xffL in
    h := Int64.mul (Int64.logxor !h byte) 0x100000001b3L
  done;
  !h

let table_obs (i : int) : string =
  match List.nth_opt (Lazy.force tables) i with
  | None -> "no-such-table"
  | Some (t, b) ->
      let h =
        List.fold_left
          (fun h ((x, y), z) -> fnv_u64 (fnv_u64 (fnv_u64 h (bits_of x)) (bits_of y)) (bits_of z))
          fnv_init t
      in
      Printf.sprintf "%d %s %016Lx" (List.length t) (show b) h

let point_obs m t phi z : string =
  match space_point_f m (Lazy.force tables) t phi z with
  | Ok ((r, p), z') -> Printf.sprintf "ok %s %s %s" (show r) (show p) (show z')
  | Err k ->
      if n_to_int k = n_to_int eRR_TIME then "err-time" else if n_to_int k = n_to_int eRR_Z then "err-z" else "err-other"
  | Panic -> "panic"

let handle (line : string) : string =
  match String.split_on_char ' ' line with
  | [ "drift"; t; phi; z ] ->
      let t, phi, z = (parse t, parse phi, parse z) in
      (* both overflow modes must agree (C18_no_wrap); the checked mode is printed *)
      let a = point_obs Checked t phi z and b = point_obs Wrapping t phi z in
      if a = b then a else "overflow-modes-differ " ^ a ^ " / " ^ b
  | [ "drift-ntab" ] -> string_of_int (List.length (Lazy.force tables))
  | [ "drift-tab"; i ] -> table_obs (int_of_string i)
  | tag :: _ when String.length tag >= 3 && String.sub tag 0 3 = "rel" -> "holds"
  | _ -> "unknown-case"

let () = main handle
