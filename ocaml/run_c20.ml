(* Model runner of the extraction unit `c20` (C20): one observation line per case line, in the canonical
   format harness/apps/src/c20.rs also prints.
     c20 <cutseed> <board>:<hex>,<board>:<hex>,…   bank payloads per board (`-` = no Chronobox bank at all)
        -> `fail` | `ok <n> <board>.<channel>.<leading>.<ticks|->…`
     c20hw <cutseed> <board>:<events>,…             hardware events (E<T>.<ch>.<trailing> ; M<c> ; S<fill>), `;`-separated
        -> the same observation, computed from the hardware SPEC (hw_rows) when the events are well-formed,
           and the program model's observation on hw_stream; both must agree (else `spec-differs`)
     rel…                                           implementation-only relation: `holds` *)
open Model
open Common

let row_str (r : row) =
  let (((b, c), l), t) = row_obs r in
  Printf.sprintf "%s.%s.%d.%s" (n_str b) (n_str c) (if l then 1 else 0) (match t with Some t -> n_str t | None -> "-")

let obs_rows rows = String.concat " " (("ok " ^ string_of_int (List.length rows)) :: List.map row_str rows)

let obs = function
  | Ok rows -> obs_rows rows
  | Err _ -> "fail"
  | Panic -> "panic"

let split_items s = if s = "-" then [] else String.split_on_char ',' s

let parse_piece it =
  match String.split_on_char ':' it with
  | [ b; h ] -> (n_of_string b, unhex h)
  | _ -> failwith "bad item"

let parse_event e =
  match e.[0] with
  | 'E' -> (
      match String.split_on_char '.' (String.sub e 1 (String.length e - 1)) with
      | [ t; c; tr ] -> HEdge (n_of_string t, n_of_string c, tr = "1")
      | _ -> failwith "bad edge")
  | 'M' -> HMarker (n_of_string (String.sub e 1 (String.length e - 1)))
  | 'S' ->
      let f = n_of_string (String.sub e 1 (String.length e - 1)) in
      HScalers (List.init 240 (fun i -> n_of_int ((n_to_int f + 7 * i) land 255)))
  | _ -> failwith "bad event"

let parse_hw it =
  match String.split_on_char ':' it with
  | [ b; evs ] -> (n_of_string b, if evs = "" then [] else List.map parse_event (String.split_on_char ';' evs))
  | _ -> failwith "bad item"

let handle (line : string) : string =
  match String.split_on_char ' ' line with
  | [ "c20"; _; items ] -> obs (cb_program (List.map parse_piece (split_items items)))
  | [ "c20hw"; _; items ] ->
      let boards = List.map parse_hw (split_items items) in
      let prog = obs (cb_program (List.map (fun (b, evs) -> (b, hw_stream evs)) boards)) in
      (* boards are listed in ascending order, once each, by the generator *)
      if List.for_all (fun (_, evs) -> hw_wfb evs) boards then begin
        let spec = obs (hw_program boards) in
        if spec = prog then prog else "spec-differs " ^ spec ^ " | " ^ prog
      end
      else prog
  | tag :: _ when String.length tag >= 3 && String.sub tag 0 3 = "rel" -> "holds"
  | _ -> "unknown-case"

let () = main handle
