(* Model runner of the extraction unit `avt`: replays the PANIC-AWARE model of MainEvent::avalanches
   (Signal/AvalTotal.v: every index / slice / unwrap / try_into / partial_cmp().unwrap() a panicking primitive)
   on the `av` case lines of the C13 harness, with the numeric kernels given as the oracle tables logged from the
   implementation on the same case.  Same case line format and same observation as ocaml/run_c13.ml:

   case line:  av <recipe> W:<wires> D:<blocks> P:<pads> Z:<centroids>
   observation: ok R=<sorted ranges f-l,...> A=<wire.t.zbits.wampbits.pampbits,...>  ("-" = empty),
                `panic` when the model reaches a panicking primitive, `model-out-of-fuel` on Err.
   Instantiation of the model's kernels (AvalTotal.avalanches_res_tab): sig = wire id / 576*col+row;
     solve i ids = D table (the block's deconvolved inputs, one column per wire, logged AFTER ls_deconvolution),
     wdec = identity, so that the model's y.read(row, column) for row < i runs over the logged column;
     slen id = length of the logged column of wire id (the implementation's i is the padded block length, which is
     the length of every non-empty output column);  pdec = P table;  zf = Z table.
   Every other tag is answered `unknown-case`, so that the unit can be combined with others through
   CFG["model_units"] (the driver takes the first answer that is not `unknown-case`). *)
open Model
open Common

let f_of_hex s = Float64.of_float (Int64.float_of_bits (Int64.of_string ("0x" ^ s)))
let bits (x : Float64.t) = Int64.bits_of_float (Float64.to_float x)
let hex_of_f x = Printf.sprintf "%016Lx" (bits x)

let split c s = if s = "" || s = "-" then [] else String.split_on_char c s

let parse_vec (s : string) : Float64.t list =
  match String.split_on_char '~' s with
  | [] -> []
  | len :: ents ->
      let n = int_of_string len in
      let a = Array.make n (Float64.of_float 0.0) in
      List.iter
        (fun e ->
          match String.split_on_char '^' e with
          | [ i; h ] -> a.(int_of_string i) <- f_of_hex h
          | _ -> failwith "vec entry")
        ents;
      Array.to_list a

let strip pre s =
  let n = String.length pre in
  if String.length s >= n && String.sub s 0 n = pre then String.sub s n (String.length s - n)
  else failwith ("expected " ^ pre)

let nan_marker = Float64.of_float nan

let handle_av w d p z =
  let present = Array.make 256 false in
  List.iter (fun s -> present.(int_of_string s) <- true) (split ',' (strip "W:" w));
  let ws = List.init 256 (fun i -> if present.(i) then Some (n_of_int i) else None) in
  let dtab : (int list, Float64.t list list) Hashtbl.t = Hashtbl.create 16 in
  List.iter
    (fun e ->
      match String.split_on_char '=' e with
      | [ k; v ] ->
          Hashtbl.replace dtab
            (List.map int_of_string (String.split_on_char ',' k))
            (List.map parse_vec (String.split_on_char '/' v))
      | _ -> failwith "D entry")
    (split ';' (strip "D:" d));
  let ptab : (int, Float64.t list) Hashtbl.t = Hashtbl.create 64 in
  List.iter
    (fun e ->
      match String.split_on_char '=' e with
      | [ k; v ] -> (
          match String.split_on_char '.' k with
          | [ c; r ] -> Hashtbl.replace ptab ((576 * int_of_string c) + int_of_string r) (parse_vec v)
          | _ -> failwith "P key")
      | _ -> failwith "P entry")
    (split ';' (strip "P:" p));
  let ztab : (int * int64 * int64 * int64, Float64.t) Hashtbl.t = Hashtbl.create 64 in
  List.iter
    (fun e ->
      match String.split_on_char '=' e with
      | [ k; v ] -> (
          match String.split_on_char ',' k with
          | [ r; f; m; l ] ->
              Hashtbl.replace ztab (int_of_string r, bits (f_of_hex f), bits (f_of_hex m), bits (f_of_hex l)) (f_of_hex v)
          | _ -> failwith "Z key")
      | _ -> failwith "Z entry")
    (split ';' (strip "Z:" z));
  let pads =
    List.init 32 (fun c ->
        List.init 576 (fun r ->
            let id = (576 * c) + r in
            if Hashtbl.mem ptab id then Some (n_of_int id) else None))
  in
  (* kernels: table lookups; an argument the implementation never passed gives a marker *)
  let dk (ids : n list) = try Hashtbl.find dtab (List.map n_to_int ids) with Not_found -> [] in
  let pk (id : n) = try Hashtbl.find ptab (n_to_int id) with Not_found -> [ nan_marker ] in
  let zk (row : n) f m l = try Hashtbl.find ztab (n_to_int row, bits f, bits m, bits l) with Not_found -> nan_marker in
  (* length of the logged column of each wire *)
  let wlen : (int, int) Hashtbl.t = Hashtbl.create 64 in
  Hashtbl.iter (fun ids vecs -> List.iter2 (fun i v -> Hashtbl.replace wlen i (List.length v)) ids vecs) dtab;
  let slen (id : n) = nat_of_int (try Hashtbl.find wlen (n_to_int id) with Not_found -> 0) in
  match contiguous_ranges_res_n ws with
  | Panic -> "panic"
  | Err _ -> "model-out-of-fuel"
  | Ok rs -> (
      let ranges = List.sort Stdlib.compare (List.map (fun (a, b) -> (n_to_int a, n_to_int b)) rs) in
      match avalanches_res_tab zk slen dk pk ws pads with
      | Panic -> "panic"
      | Err _ -> "model-out-of-fuel"
      | Ok avs ->
          let join = function [] -> "-" | l -> String.concat "," l in
          Printf.sprintf "ok R=%s A=%s"
            (join (List.map (fun (a, b) -> Printf.sprintf "%d-%d" a b) ranges))
            (join
               (List.map
                  (fun a ->
                    Printf.sprintf "%d.%d.%s.%s.%s" (n_to_int a.av_wire) (int_of_nat a.av_t) (hex_of_f a.av_z)
                      (hex_of_f a.av_wamp) (hex_of_f a.av_pamp))
                  avs)))

let handle (line : string) : string =
  match String.split_on_char ' ' line with
  | [ "av"; _recipe; w; d; p; z ] -> handle_av w d p z
  | _ -> "unknown-case"

let () = main handle
