(* Model runner of the extraction unit `c05` (C05): one observation line per case line, in the
   canonical format harness/det/src/c05.rs also prints. *)
open Model
open Common

let chan_str = function
  | Reset n -> "R" ^ n_str n
  | Fpn n -> "F" ^ n_str n
  | Pad n -> "P" ^ n_str n
let chans l = String.concat "," (List.map chan_str l)
let wf_str (c, r) =
  chan_str c ^ "="
  ^ (match r with
    | Ok None -> "-"
    | Ok (Some w) -> String.concat "," (List.map zz_str w)
    | Err _ -> "err"
    | Panic -> "panic")

let chip_str n = String.make 1 (Char.chr (65 + n_to_int n))

let pwb_obs (p : pwb) : string =
  String.concat " "
    [ "ok"; n_str (packet_version p); chip_str p.p_chip; n_str (compression p); n_str p.p_trig; hexn p.p_mac;
      n_str p.p_delay; n_str p.p_ts; n_str p.p_last; n_str p.p_req; n_str p.p_counter; n_str p.p_fifo;
      n_str p.p_wdepth; n_str p.p_rdepth; "S[" ^ chans p.p_sent ^ "]"; "T[" ^ chans p.p_over ^ "]";
      "W " ^ String.concat " " (List.map wf_str (pwb_all_waveforms p)) ]

let handle (line : string) : string =
  match String.split_on_char ' ' line with
  | [ "pwbv2"; h ] -> (
      let bytes = unhex h in
      (* the checked mode is printed; the wrapping mode must give the same outcome (C05_pwb_no_wrap) *)
      match pwb_decode pwb_macs Checked bytes with
      | Ok p ->
          (* spec side: re-encoding the decoded fields must reproduce the input (C05_pwb_exact) *)
          if pwb_encode p <> bytes then "model-ok-but-spec-encoder-differs" else pwb_obs p
      | Err _ -> "err"
      | Panic -> "panic")
  | _ -> "unknown-case"

let () = main handle
