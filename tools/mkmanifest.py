#!/usr/bin/env python3
"""Regenerates MANIFEST.json from tools/props.py (so the manifest is always consistent with the driver)."""
import json, os, sys
sys.path.insert(0, os.path.dirname(os.path.abspath(__file__)))
import props

ROOT = os.path.dirname(os.path.dirname(os.path.abspath(__file__)))
ALL = ["C%02d" % i for i in range(1, 21)]
NA = getattr(props, "NOT_APPLICABLE", {})
checks = []
for pid in ALL:
    if pid in props.PROPS:
        c = props.PROPS[pid]
        checks.append(dict(
            property_id=pid,
            quick_cmd="./check %s --tier quick" % pid,
            thorough_cmd="./check %s --tier thorough" % pid,
            evidence_file="/verif/evidence/%s.json" % pid,
            replay_cmd_template="./check --replay {path}",
            engine=c.get("engine", "coq-proof+differential"),
            level_claimed=dict(category="proof", text=(c["level_text"] + (" " + c["level_extra"] if c.get("level_extra") else "")), design_ref=c.get("design_ref", "DESIGN.md section 7 (%s)" % pid)),
            level_note=c["level_note"],
            technique=c.get("technique", "machine-checked proof in Coq 8.16.1 (model tied to source by differential correspondence check)"),
        ))
na = []
for pid in ALL:
    if pid not in props.PROPS:
        na.append(dict(property_id=pid, reason=NA.get(pid, "check not built yet (work in progress); not claimed")))
m = dict(
    version=1,
    setup_cmd="./check setup",
    hooks=dict(guard="alpha_g_verif", enable='RUSTFLAGS="--cfg alpha_g_verif" (set by tools/vlib.py build_harness)',
               baseline_off_cmd="cd /repo && cargo nextest run --workspace --no-fail-fast --offline || cargo test --workspace --no-fail-fast --offline",
               source_commits=getattr(props, "HOOK_COMMITS", []), add_only=True),
    engines=[
        dict(name="coq", path="/verif/coq", serves_properties=sorted(props.PROPS), kind_free_text="Coq 8.16.1 development: models, specs, theorems (Props/Cxx.v)"),
        dict(name="modelrun", path="/verif/ocaml", serves_properties=sorted(props.PROPS), kind_free_text="extracted OCaml model runner for the correspondence check"),
        dict(name="harness", path="/verif/harness", serves_properties=sorted(props.PROPS), kind_free_text="Rust harnesses running /repo's crates on generated cases"),
    ],
    checks=checks,
    not_applicable=na,
    notes="see DESIGN.md; known findings in known_findings.json",
)
json.dump(m, open(os.path.join(ROOT, "MANIFEST.json"), "w"), indent=1)
print("manifest: %d checks, %d not claimed" % (len(checks), len(na)))
