#!/bin/sh
# Differential validation of the COMBINATOR-level model of chronobox_fifo (coq/Codec/ChronoWinnow.v over
# coq/Codec/Winnow.v, extraction unit `c07w`) against the implementation, on the C07 case sets.
#   tools/c07w_run.sh [tiers="quick thorough"] [seed=1]      (env: C07W_JOBS=16 parallel model slices, C07W_OUT)
# 1. builds the det harness and the extracted runner (same functions the driver uses),
# 2. generates the C07 case set of each tier with the existing harness (vdet gen C07 <tier> <seed> <dir>) and
#    prepends corpus/C07/*.case,
# 3. observes every line on the real implementation (vdet obs) and on the extracted combinator model (which
#    also cross-checks itself against the recursive model and prints `models-disagree ...` if they differ),
# 4. diffs.  Exit 0 and "c07w <tier>: N cases, 0 differences" when they agree on every line; exit 1 otherwise.
# VERIF_REPO selects the source tree (default /repo), as for ./check.
set -e
ROOT=$(cd "$(dirname "$0")/.." && pwd)
TIERS=${1:-quick thorough}
SEED=${2:-1}
OUT=${C07W_OUT:-$ROOT/.build/c07w-run}
JOBS=${C07W_JOBS:-16}
rm -rf "$OUT"
mkdir -p "$OUT"

python3 - "$ROOT" "$OUT" <<'PY'
import sys
root, out = sys.argv[1], sys.argv[2]
sys.path.insert(0, root + "/tools")
import vlib
with vlib.Lock("build"):
    exe, log = vlib.build_harness("det")
    if exe is None:
        sys.stderr.write(log[-3000:]); raise SystemExit("c07w: harness build failed")
    run, log = vlib.build_modelrun("c07w")
    if run is None:
        sys.stderr.write(log[-3000:]); raise SystemExit("c07w: model runner build failed")
open(out + "/paths", "w").write(exe + "\n" + run + "\n")
PY
VDET=$(sed -n 1p "$OUT/paths")
MODEL=$(sed -n 2p "$OUT/paths")

RC=0
for TIER in $TIERS; do
  D="$OUT/$TIER"
  mkdir -p "$D/gen"
  "$VDET" gen C07 "$TIER" "$SEED" "$D/gen" > "$D/gen.log" 2>&1 || { cat "$D/gen.log"; echo "c07w: case generation failed"; exit 2; }
  : > "$D/cases"
  for f in "$ROOT"/corpus/C07/*.case; do
    [ -f "$f" ] && grep -h '^cb' "$f" >> "$D/cases" || true
  done
  grep '^cb' "$D/gen/cases.txt" >> "$D/cases"
  N=$(wc -l < "$D/cases")
  "$VDET" obs < "$D/cases" > "$D/impl.obs"
  # the case lines are independent: run the model on J contiguous slices concurrently, concatenate in order
  mkdir -p "$D/sl"
  split -n l/$JOBS -d -a 3 "$D/cases" "$D/sl/c."
  for s in "$D"/sl/c.*; do
    "$MODEL" < "$s" > "$D/sl/m.${s##*.}" &
  done
  wait
  cat "$D"/sl/m.* > "$D/model.obs"
  rm -rf "$D/sl"
  if diff "$D/impl.obs" "$D/model.obs" > "$D/diff.txt"; then
    NT=$(grep -vc '^0 ' "$D/impl.obs" || true)
    echo "c07w $TIER: $N cases ($NT with entries), 0 differences (seed $SEED)"
  else
    K=$(grep -c '^<' "$D/diff.txt" || true)
    echo "c07w $TIER: $N cases, $K differences; see $D/diff.txt"
    L=$(sed -n 's/^\([0-9]*\).*/\1/p' "$D/diff.txt" | head -1)
    echo "first differing case (line $L of $D/cases):"
    sed -n "${L}p" "$D/cases" | cut -c1-400
    echo "  impl : $(sed -n "${L}p" "$D/impl.obs" | cut -c1-300)"
    echo "  model: $(sed -n "${L}p" "$D/model.obs" | cut -c1-300)"
    RC=1
  fi
done
exit $RC
