"""Run-number dispatch front end shared by the translator plugins genx_maps.py and genx_calib.py.

A *dispatch* is the part of a function that decides, from the run number alone, which table (or delay value, or
"no map" error) is used.  Both plugins need it as a function  u32 -> value | None  and write it into coq/Gen as
`list (rpat * option N)` for Ident.Dispatch.dispatch.

1. SYNTACTIC FRONT END.  The function body is tokenised and the dispatching expression is parsed into a decision
   tree:  `match <run> { arms }`, `if / else if / else` chains, blocks with early `return`s, nested in any way.
   Patterns: integer literals, named integer constants (resolved to their values, `u32::MAX` included), `a..`,
   `a..=b`, `..=b`, `a..b`, or-patterns, `_`, a binding `n`, `n @ pat`, guards `n if <cond>`.  Conditions: comparisons
   (== != < <= > >=) of the run variable with a constant, joined by && / || / ! / parentheses.  Because every test is a
   comparison with a constant, the function is CONSTANT between consecutive break points {K, K+1 : K a constant of
   the tree}: evaluating the tree at those points (+ 0, u32::MAX-1, u32::MAX) gives the function exactly.
   Anything else (a pre-mapped run number, arithmetic on the run, a helper call, ...) raises GenError.

2. CANONICAL ARMS.  The function is written as  [PEq u32::MAX |-> f(MAX); PGe k_n |-> v_n; ...; PGe k_1 |-> v_1;
   PAny |-> f(0)]  with k_1 < .. < k_n the points where f changes on [0, MAX-1].  Every dispatch of the unchanged
   repository has this form already, so the generated text is the same; a semantically neutral rewrite of the Rust
   code (named constants, guards, closed ranges, if-chains, arm order where it does not matter) gives the same
   text too, and a change of the function COMPUTED BY THE STATEMENTS READ (the dispatching `let` and the early
   returns in front of it) changes the text.  The other statements of the body are not interpreted: they are
   CHECKED not to use the run number (outside the arguments of error constructors) and not to bind it again
   (`dispatch_statements`); one that does raises GenError, i.e. the fallback 3. or a translator failure.  A named
   constant with two different definitions in the file (an inner `const` shadowing an outer one) raises GenError
   too: the front end does not model scopes.

3. SEMANTIC FALLBACK (callers: genx_maps.py, genx_calib.py), used only when 1. fails: the real implementation is
   evaluated (harness binary, `obs` mode) at candidate boundaries = every integer literal and every integer constant
   of the dispatching source file, each +-1, plus 0, 1, u32::MAX-1, u32::MAX; for each candidate the parsed table that
   reproduces the implementation's complete answer is identified, and the step function found is written in the
   canonical form, ASSUMING the dispatch is constant between consecutive candidates (the differential run probes
   arm boundaries +-2 and a stride of runs: it is the check on that assumption).
"""
import re

from gen import GenError

U32_MAX = 2 ** 32 - 1
FALLBACK_MARK = "(* dispatch reconstructed by probing the implementation *)"
INT_TYPES = "u8|u16|u32|u64|u128|usize|i8|i16|i32|i64|i128|isize"

TOK = re.compile(r"""\s*(?:
    (b?"(?:[^"\\]|\\.)*")
  | (b?'(?:[^'\\]|\\.)')
  | (0x[0-9A-Fa-f_]+|0b[01_]+|0o[0-7_]+|\d[\d_]*)(?:%s)?
  | ([A-Za-z_][A-Za-z0-9_]*(?:::[A-Za-z_][A-Za-z0-9_]*)*)
  | (\.\.=|\.\.|=>|==|!=|>=|<=|&&|\|\||->|::|[\[\](){},;=&*+\-|!<>./:\#?'@%%^$~])
)""" % INT_TYPES, re.X)


def tokens(s):
    """[(kind, value)], kind in str / chr / int / id / p"""
    pos, out = 0, []
    s = s.rstrip()
    while pos < len(s):
        m = TOK.match(s, pos)
        if not m:
            raise GenError("cannot tokenise near: %r" % s[pos:pos + 40])
        if m.group(1) is not None:
            out.append(("str", m.group(1)))
        elif m.group(2) is not None:
            out.append(("chr", m.group(2)))
        elif m.group(3) is not None:
            out.append(("int", int(m.group(3).replace("_", ""), 0)))
        elif m.group(4) is not None:
            out.append(("id", m.group(4)))
        else:
            out.append(("p", m.group(5)))
        pos = m.end()
    return out


def comment_safe(s, limit=300):
    """text that can stand inside a Coq comment (comments nest and strings are lexed inside them)"""
    return s[:limit].replace("(*", "( *").replace("*)", "* )").replace('"', "'")


def show(toks):
    return " ".join(str(v) for _, v in toks)


TYPE_MAX = {"u8": 2 ** 8 - 1, "u16": 2 ** 16 - 1, "u32": U32_MAX, "u64": 2 ** 64 - 1, "usize": 2 ** 64 - 1,
            "i16": 2 ** 15 - 1, "i32": 2 ** 31 - 1, "i64": 2 ** 63 - 1}


def eval_const_expr(expr, env):
    """integer value of a constant expression (literals, named constants, T::MAX / T::MIN, + - * / and parentheses, `as T`)"""
    e = re.sub(r"\bas\s+\w+", "", expr)
    e = re.sub(r"\b(0x[0-9A-Fa-f_]+|\d[\d_]*?)_?(?:%s)\b" % INT_TYPES, r"\1", e)
    e = re.sub(r"\b(\w+)::MAX\b", lambda m: str(TYPE_MAX[m.group(1)]) if m.group(1) in TYPE_MAX else m.group(0), e)
    e = re.sub(r"\b(u8|u16|u32|u64|usize)::MIN\b", "0", e)
    e = re.sub(r"(?<=\d)_(?=\d)", "", e)

    def name(m):
        w = m.group(0)
        if w in env:
            return str(env[w])
        raise KeyError(w)
    e = re.sub(r"\b[A-Za-z_]\w*\b", lambda m: m.group(0) if re.fullmatch(r"0x[0-9A-Fa-f]+", m.group(0)) else name(m), e)
    if not re.fullmatch(r"[0-9a-fA-Fx\s+\-*/()]+", e):
        raise KeyError(expr)
    return int(eval(e.replace("/", "//"), {"__builtins__": {}}, {}))


def int_consts(src):
    """every `const|static NAME: <integer type> = <constant expression>;` of the file (any module, any nesting) -> value"""
    items = re.findall(r"\b(?:const|static)\s+(\w+)\s*:\s*(?:%s)\s*=\s*([^;{}]+);" % INT_TYPES, src)
    seen = {}
    for n, e in items:
        e1 = re.sub(r"\s+", " ", e.strip())
        if n in seen and seen[n] != e1:
            raise GenError("constant %s is defined twice with different values (%s / %s): scopes are not modelled"
                           % (n, seen[n], e1))
        seen[n] = e1
    env = {}
    for _ in range(len(items) + 1):
        progress = False
        for n, e in items:
            if n in env:
                continue
            try:
                env[n] = eval_const_expr(e, env)
                progress = True
            except (KeyError, SyntaxError, ZeroDivisionError, TypeError, ValueError):
                pass
        if not progress:
            break
    return env


def candidate_runs(src, consts=None):
    """candidate boundaries of a dispatch written in `src`: every integer literal and integer constant value, each +-1,
    plus 0, 1, u32::MAX-1, u32::MAX (restricted to u32)"""
    vals = set()
    for m in re.finditer(r"(?<![\w.])(0x[0-9A-Fa-f_]+|\d[\d_]*)", src):
        try:
            vals.add(int(m.group(1).replace("_", ""), 0))
        except ValueError:
            pass
    vals.update((consts if consts is not None else int_consts(src)).values())
    pts = {0, 1, U32_MAX - 1, U32_MAX}
    for v in vals:
        for d in (-1, 0, 1):
            if 0 <= v + d <= U32_MAX:
                pts.add(v + d)
    return sorted(pts)


def brace_body(src, start):
    """text between the braces of the first `{` at or after position start"""
    j = src.find("{", start)
    if j < 0:
        raise GenError("no `{` found")
    depth, k = 1, j + 1
    while depth:
        if k >= len(src):
            raise GenError("unbalanced braces")
        if src[k] == "{":
            depth += 1
        elif src[k] == "}":
            depth -= 1
        k += 1
    return src[j + 1:k - 1]


def fn_body(src, marker):
    i = src.find(marker)
    if i < 0:
        raise GenError("marker %r not found" % marker)
    return brace_body(src, i)


# ------------------------------------------------------------------------------------------------ decision trees
class Leaf:
    def __init__(self, toks, diverges_only=False):
        self.toks = toks

    def consts(self):
        return set()


class If:
    def __init__(self, cond, then, other):
        self.cond, self.then, self.other = cond, then, other    # other None: no else branch


class Match:
    def __init__(self, scrut, arms):
        self.scrut, self.arms = scrut, arms                       # arms: [(alternatives, binding, guard, node)]


class Block:
    def __init__(self, stmts):
        self.stmts = stmts                                        # [(node, terminated_by_semicolon)]


class Let:
    def __init__(self, name, node):
        self.name, self.node = name, node


class Parser:
    def __init__(self, toks):
        self.t = toks
        self.i = 0

    def peek(self, k=0):
        return self.t[self.i + k] if self.i + k < len(self.t) else (None, None)

    def at(self, v):
        return self.peek()[1] == v and self.peek()[0] in ("p", "id")

    def take(self, v=None):
        if self.i >= len(self.t):
            raise GenError("dispatch: unexpected end of input")
        tok = self.t[self.i]
        if v is not None and tok[1] != v:
            raise GenError("dispatch: expected %r, found %r" % (v, tok[1]))
        self.i += 1
        return tok

    def until(self, stops, keep_depth=True):
        """tokens up to (excluding) the first token at nesting depth 0 whose value is in stops, or an unmatched closer"""
        out, depth = [], 0
        while self.i < len(self.t):
            k, v = self.t[self.i]
            if k == "p":
                if depth == 0 and v in stops:
                    break
                if v in "([{":
                    depth += 1
                elif v in ")]}":
                    if depth == 0:
                        break
                    depth -= 1
            out.append((k, v))
            self.i += 1
        return out

    def block(self):
        self.take("{")
        stmts = []
        while not self.at("}"):
            if self.at(";"):
                self.take()
                continue
            node = self.stmt()
            semi = False
            if self.at(";"):
                self.take()
                semi = True
            stmts.append((node, semi))
        self.take("}")
        return Block(stmts)

    def stmt(self):
        if self.peek() == ("id", "let"):
            self.take()
            if self.peek() == ("id", "mut"):
                self.take()
            name = self.until(("=", ":"))
            if self.at(":"):
                self.take()
                self.type_until_eq()
            self.take("=")
            node = self.expr()
            return Let(show(name), node)
        return self.expr()

    def type_until_eq(self):
        depth = 0
        while self.i < len(self.t):
            k, v = self.t[self.i]
            if k == "p" and v in "<([":
                depth += 1
            elif k == "p" and v in ">)]":
                depth -= 1
            elif k == "p" and v == "=" and depth <= 0:
                return
            elif k == "p" and v == ";":
                raise GenError("dispatch: `let` without initialiser")
            self.i += 1
        raise GenError("dispatch: unterminated `let`")

    def expr(self, arm=False):
        if self.peek() == ("id", "if"):
            self.take()
            cond = self.until(("{",))
            then = self.block()
            other = None
            if self.peek() == ("id", "else"):
                self.take()
                other = self.expr() if self.peek() == ("id", "if") else self.block()
            return If(cond, then, other)
        if self.peek() == ("id", "match"):
            self.take()
            scrut = self.until(("{",))
            self.take("{")
            arms = []
            while not self.at("}"):
                pat = self.until(("=>",))
                self.take("=>")
                if self.at("{"):
                    node = self.block()
                    # a block arm may be followed by further postfix tokens (`.foo()`): not a plain dispatch
                    if not (self.at(",") or self.at("}")) and not self.arm_start():
                        raise GenError("dispatch: tokens after a block arm: %r" % show(self.t[self.i:self.i + 6]))
                else:
                    node = self.expr(arm=True)
                if self.at(","):
                    self.take()
                arms.append((pat, node))
            self.take("}")
            m = Match(scrut, arms)
            return m
        if self.at("{"):
            return self.block()
        toks = self.until((",",) if arm else (";",))
        if not toks:
            raise GenError("dispatch: empty expression near %r" % show(self.t[self.i:self.i + 6]))
        return Leaf(toks)

    def arm_start(self):
        """after a `{..}` arm without comma the next arm starts directly: accept when a `=>` follows before `,`/`}`"""
        depth = 0
        for k, v in self.t[self.i:]:
            if k == "p" and v in "([{":
                depth += 1
            elif k == "p" and v in ")]}":
                if depth == 0:
                    return False
                depth -= 1
            elif k == "p" and depth == 0 and v == "=>":
                return True
            elif k == "p" and depth == 0 and v in (",", ";"):
                return False
        return False


def parse_body(body_text):
    """the statements of a function body (text between its braces) as a Block"""
    p = Parser([("p", "{")] + tokens(body_text) + [("p", "}")])
    b = p.block()
    if p.i != len(p.t):
        raise GenError("dispatch: trailing tokens in function body")
    return b


# ------------------------------------------------------------------------------------------------ evaluation
class Fall(Exception):
    pass


class Evaluator:
    """evaluates a decision tree at one run number; `runvars` are the names bound to the run number"""

    def __init__(self, consts, runvar="run_number"):
        self.consts = consts
        self.runvar = runvar
        self.used = set()          # constants compared against (break points)

    def value(self, toks, env):
        """constant operand of a comparison / pattern bound"""
        if len(toks) == 1 and toks[0][0] == "int":
            v = toks[0][1]
        else:
            try:
                v = eval_const_expr(show(toks).replace(" :: ", "::"), self.consts)
            except (KeyError, SyntaxError, ZeroDivisionError, TypeError, ValueError):
                raise GenError("dispatch: not a constant: %r" % show(toks))
        self.used.add(v)
        return v

    def is_run(self, toks, env):
        return len(toks) == 1 and toks[0][0] == "id" and toks[0][1] in env

    # cond := or ; or := and (|| and)* ; and := not (&& not)* ; not := !not | ( or ) | cmp
    def cond(self, toks, env, run):
        parts = split_top(toks, "||")
        if len(parts) > 1:
            return any([self.cond(p, env, run) for p in parts])
        parts = split_top(toks, "&&")
        if len(parts) > 1:
            return all([self.cond(p, env, run) for p in parts])
        if toks and toks[0] == ("p", "!"):
            return not self.cond(toks[1:], env, run)
        if toks and toks[0] == ("p", "(") and matching(toks, 0) == len(toks) - 1:
            return self.cond(toks[1:-1], env, run)
        for idx, (k, v) in enumerate(toks):
            if k == "p" and v in ("==", "!=", "<", "<=", ">", ">="):
                lhs, rhs, op = toks[:idx], toks[idx + 1:], v
                if self.is_run(lhs, env):
                    a, b = run, self.value(rhs, env)
                elif self.is_run(rhs, env):
                    a, b = self.value(lhs, env), run
                else:
                    raise GenError("dispatch: condition does not compare the run number with a constant: %r" % show(toks))
                return {"==": a == b, "!=": a != b, "<": a < b, "<=": a <= b, ">": a > b, ">=": a >= b}[op]
        raise GenError("dispatch: unknown condition %r" % show(toks))

    def pattern(self, toks, env, run):
        """-> (matches, env')"""
        guard = None
        parts = split_top_id(toks, "if")
        if len(parts) == 2:
            toks, guard = parts
        elif len(parts) > 2:
            raise GenError("dispatch: unknown pattern %r" % show(toks))
        env2 = set(env)
        ok = False
        for alt in split_top(toks, "|"):
            if not alt:
                continue                      # leading `|`
            if self.alt(alt, env2, run):
                ok = True
                break
        if ok and guard is not None:
            ok = self.cond(guard, env2, run)
        return ok, env2

    def alt(self, toks, env, run):
        if len(toks) >= 3 and toks[0][0] == "id" and toks[1] == ("p", "@"):
            env.add(toks[0][1])
            toks = toks[2:]
        if toks and toks[0] == ("p", "(") and matching(toks, 0) == len(toks) - 1:
            return any(self.alt(a, env, run) for a in split_top(toks[1:-1], "|") if a)
        if len(toks) == 1 and toks[0] == ("id", "_"):
            return True
        if (len(toks) == 1 and toks[0][0] == "id" and "::" not in toks[0][1] and toks[0][1] not in self.consts
                and re.fullmatch(r"[a-z_][a-z0-9_]*", toks[0][1])):
            env.add(toks[0][1])               # a binding
            return True
        for op in ("..=", ".."):
            parts = split_top(toks, op)
            if len(parts) == 2:
                lo = self.value(parts[0], env) if parts[0] else 0
                if parts[1]:
                    hi = self.value(parts[1], env)
                    if op == "..":
                        self.used.add(hi)
                        hi -= 1
                    else:
                        self.used.add(hi + 1)
                else:
                    if op == "..=":
                        raise GenError("dispatch: `..=` without upper bound")
                    hi = U32_MAX
                return lo <= run <= hi
        return run == self.value(toks, env)

    def eval(self, node, env, run):
        """-> leaf tokens (value of the expression, or the operand of a `return`); raises Fall when the node is an
        `if` without else whose condition is false / a block that ends without value"""
        if isinstance(node, Leaf):
            return node.toks
        if isinstance(node, If):
            if self.cond(node.cond, env, run):
                return self.eval(node.then, env, run)
            if node.other is None:
                raise Fall()
            return self.eval(node.other, env, run)
        if isinstance(node, Match):
            if not self.is_run(node.scrut, env):
                raise GenError("dispatch: `match` on %r, not on the run number" % show(node.scrut))
            for pat, sub in node.arms:
                ok, env2 = self.pattern(pat, env, run)
                if ok:
                    return self.eval(sub, env2, run)
            raise GenError("dispatch: no arm matches run %d" % run)
        if isinstance(node, Block):
            n = len(node.stmts)
            for k, (st, semi) in enumerate(node.stmts):
                last = k == n - 1
                if isinstance(st, Let):
                    raise GenError("dispatch: `let %s` inside the dispatching expression" % st.name)
                try:
                    leaf = self.eval(st, env, run)
                except Fall:
                    if last:
                        raise
                    continue
                if is_return(leaf) or (last and not semi):
                    return leaf
                raise GenError("dispatch: statement without effect on the dispatch: %r" % show(leaf))
            raise Fall()
        raise GenError("dispatch: unknown node")


def is_return(leaf):
    return bool(leaf) and leaf[0] == ("id", "return")


def matching(toks, i):
    depth = 0
    for k in range(i, len(toks)):
        if toks[k][0] == "p" and toks[k][1] in "([{":
            depth += 1
        elif toks[k][0] == "p" and toks[k][1] in ")]}":
            depth -= 1
            if depth == 0:
                return k
    return -1


def split_top(toks, sep):
    out, cur, depth = [], [], 0
    for k, v in toks:
        if k == "p" and v in "([{":
            depth += 1
        elif k == "p" and v in ")]}":
            depth -= 1
        if k == "p" and v == sep and depth == 0:
            out.append(cur)
            cur = []
        else:
            cur.append((k, v))
    out.append(cur)
    return out


def split_top_id(toks, word):
    out, cur, depth = [], [], 0
    for k, v in toks:
        if k == "p" and v in "([{":
            depth += 1
        elif k == "p" and v in ")]}":
            depth -= 1
        if k == "id" and v == word and depth == 0:
            out.append(cur)
            cur = []
        else:
            cur.append((k, v))
    out.append(cur)
    return out


def mentions(node, names):
    """does the decision tree test one of the names (in a condition / as a scrutinee)?"""
    if isinstance(node, If):
        return (any(k == "id" and v in names for k, v in node.cond) or mentions(node.then, names)
                or (node.other is not None and mentions(node.other, names)))
    if isinstance(node, Match):
        return any(k == "id" and v in names for k, v in node.scrut) or any(mentions(n, names) for _, n in node.arms)
    if isinstance(node, Block):
        return any(mentions(s, names) for s, _ in node.stmts)
    if isinstance(node, Let):
        return mentions(node.node, names)
    return False


def tree_function(nodes, consts, resolve, runvar="run_number"):
    """the exact function of a decision tree.  nodes: statements executed in order (the early-return `if`s in front
    of the dispatching expression, then the expression itself); resolve(leaf tokens) -> value | None.
    returns {run: value} at all break points (the function is constant between them: see the module text)"""
    ev = Evaluator(consts, runvar)
    blk = nodes if isinstance(nodes, Block) else Block([(n, i < len(nodes) - 1) for i, n in enumerate(nodes)])
    pts = {0, 1, U32_MAX - 1, U32_MAX}
    out = {}
    for _ in range(4):
        for r in sorted(pts - set(out)):
            try:
                leaf = ev.eval(blk, {runvar}, r)
            except Fall:
                raise GenError("dispatch: run %d falls through every branch" % r)
            out[r] = resolve(leaf)
        new = set()
        for v in ev.used:
            for d in (-1, 0, 1):
                if 0 <= v + d <= U32_MAX:
                    new.add(v + d)
        if new <= pts:
            break
        pts |= new
    else:
        raise GenError("dispatch: break points do not stabilise")
    return out


# ------------------------------------------------------------------------------------------------ canonical arms
def canonical_arms(samples):
    """samples: {run: value} containing 0, u32::MAX-1 and u32::MAX, the function being constant between consecutive
    sample points.  -> [(kind, k, value)] = [('eq', MAX, f MAX), ('ge', k_n, v_n), .., ('ge', k_1, v_1), ('any', None, f 0)]"""
    for need in (0, U32_MAX - 1, U32_MAX):
        if need not in samples:
            raise GenError("dispatch: sample point %d missing" % need)
    segs = []
    for p in sorted(samples):
        if p == U32_MAX:
            continue
        v = samples[p]
        if not segs or segs[-1][1] != v:
            segs.append((p, v))
    return ([("eq", U32_MAX, samples[U32_MAX])] + [("ge", lo, v) for lo, v in reversed(segs[1:])]
            + [("any", None, segs[0][1])])


def apply_arms(arms, run):
    for kind, k, v in arms:
        if kind == "any" or (kind == "eq" and run == k) or (kind == "ge" and run >= k):
            return v
    return None


def coq_arms(arms):
    """list (rpat * option N) literal"""
    pat = {"eq": "PEq %s", "ge": "PGe %s", "any": "PAny%s"}
    return "[" + "; ".join("(%s, %s)" % (pat[k] % ("" if n is None else n), "None" if v is None else "Some %d" % v)
                           for k, n, v in arms) + "]"


def first_selection_order(names, arms):
    """canonical order of tables that may be renamed / re-ordered in the source: the table of the simulation run
    (u32::MAX) first, then by the lowest run number that selects the table, tables no run selects last (source order)"""
    key = {}
    for kind, k, v in arms:
        if v is None:
            continue
        rank = (0, 0) if kind == "eq" and k == U32_MAX else (1, 0 if kind == "any" else k)
        if v not in key or rank < key[v]:
            key[v] = rank
    sel = sorted((n for n in names if n in key), key=lambda n: (key[n], names.index(n)))
    return sel + [n for n in names if n not in key]


# ------------------------------------------------------------------------------------------------ leaves
def leaf_table(leaf):
    """`&*NAME` / `&NAME` / `&**NAME` / `NAME.deref()` / `NAME` / a tuple ending in one of these -> NAME, else None"""
    t = list(leaf)
    if t and t[0] == ("p", "(") and matching(t, 0) == len(t) - 1:
        # a tuple `(extra data, .., <table>)`: the table is its last component (the others carry e.g. the first run of
        # the map for an error message; they do not take part in the selection)
        parts = [x for x in split_top(t[1:-1], ",") if x]
        return leaf_table(parts[-1]) if parts else None
    while t and t[0] in (("p", "&"), ("p", "*")):
        t = t[1:]
    if len(t) == 1 and t[0][0] == "id":
        return t[0][1].split("::")[-1]        # `tables::MAP_X`: items are located by name, whatever module they are in
    if (len(t) == 5 and t[0][0] == "id" and t[1] == ("p", ".") and t[2] == ("id", "deref") and t[3] == ("p", "(")
            and t[4] == ("p", ")")):
        return t[0][1].split("::")[-1]
    return None


def leaf_is_err(leaf):
    """`return Err(..)` / `Err(..)` (the expression position decides whether `return` is needed; both mean "no map")"""
    t = list(leaf)
    if t and t[0] == ("id", "return"):
        t = t[1:]
    return len(t) >= 3 and t[0] == ("id", "Err") and t[1] == ("p", "(") and matching(t, 1) == len(t) - 1


def leaf_ok_int(leaf, consts):
    """`Ok(<constant>)` / `return Ok(<constant>)` -> the integer, else None"""
    t = list(leaf)
    if t and t[0] == ("id", "return"):
        t = t[1:]
    if len(t) >= 4 and t[0] == ("id", "Ok") and t[1] == ("p", "(") and matching(t, 1) == len(t) - 1:
        try:
            return eval_const_expr(show(t[2:-1]), consts)
        except (KeyError, SyntaxError, ZeroDivisionError, TypeError, ValueError):
            return None
    return None


BENIGN_CALLS = ("Err", "ok_or", "ok_or_else", "map_err", "unwrap_or_else", "expect", "format", "panic", "unreachable")


def all_tokens(node):
    """every token of a statement / decision tree (conditions, scrutinees, patterns, leaves, `let` names)"""
    if isinstance(node, Leaf):
        return list(node.toks)
    if isinstance(node, If):
        return list(node.cond) + all_tokens(node.then) + (all_tokens(node.other) if node.other is not None else [])
    if isinstance(node, Match):
        out = list(node.scrut)
        for pat, sub in node.arms:
            out += list(pat) + all_tokens(sub)
        return out
    if isinstance(node, Block):
        return [t for s, _ in node.stmts for t in all_tokens(s)]
    if isinstance(node, Let):
        return tokens(node.name) + all_tokens(node.node)
    return []


def strip_benign(toks):
    """the tokens outside the argument lists of error constructors / error adaptors (`Err(..)`, `.ok_or(..)`, ...): the
    run number may be MENTIONED there (it is carried in the error value); it cannot influence the selection there"""
    out, i = [], 0
    while i < len(toks):
        k, v = toks[i]
        if (k == "id" and v.split("::")[-1] in BENIGN_CALLS and i + 1 < len(toks)
                and toks[i + 1] in (("p", "("), ("p", "!"))):
            j = i + 1 if toks[i + 1] == ("p", "(") else i + 2
            if j < len(toks) and toks[j][0] == "p" and toks[j][1] in "([{":
                e = matching(toks, j)
                if e > 0:
                    i = e + 1
                    continue
        out.append((k, v))
        i += 1
    return out


def uses_run(node, runvar):
    return any(k == "id" and v == runvar for k, v in strip_benign(all_tokens(node)))


def dispatch_statements(block, runvar="run_number"):
    """(early, lets): the statements in front of a dispatching `let` that test the run number (early returns: `if`
    with or without else, `match` with unit arms, blocks), each with its position, and the
    `let NAME = <decision tree testing the run number>` statements of a function body.

    EVERY other statement of the body is checked: one that uses the run number outside the argument list of an error
    constructor / adaptor (`Err(..)`, `.ok_or(..)`, ...), or that binds the run variable again, raises GenError -- the
    function of the run number would then not be the one read from the `let`s (the callers fall back to probing the
    implementation, or fail)."""
    early, lets = [], []
    for k, (st, semi) in enumerate(block.stmts):
        if isinstance(st, Let):
            bound = {v for kk, v in tokens(st.name) if kk == "id"}
            if runvar in bound:
                raise GenError("dispatch: the run variable `%s` is bound again (`let %s`)" % (runvar, st.name))
            if isinstance(st.node, (If, Match, Block)) and mentions(st.node, {runvar}):
                lets.append((k, st.name, st.node))
            elif uses_run(st, runvar):
                raise GenError("dispatch: `let %s` uses the run number outside a decision tree" % st.name)
        elif isinstance(st, (If, Match, Block)) and mentions(st, {runvar}) and k < len(block.stmts) - 1:
            early.append((k, st))
        elif uses_run(st, runvar):
            raise GenError("dispatch: a statement uses the run number outside the dispatching `let`: %r"
                           % show(all_tokens(st))[:120])
    if lets:
        last_let = max(k for k, _, _ in lets)
        late = [k for k, _ in early if k > last_let]
        if late:
            raise GenError("dispatch: the run number is tested again after the dispatching `let` (statement %d)" % late[0])
    return early, lets


# ------------------------------------------------------------------------------------------------ semantic fallback
def parse_coq_arms(text, name):
    """canonical arms of `Definition <name> : list (rpat * option N) := [..].` in a generated file, or None"""
    m = re.search(r"Definition\s+%s\b[^=]*:=\s*\[(.*?)\]\s*\." % re.escape(name), text, re.S)
    if not m:
        return None
    arms = []
    for kind, k, v in re.findall(r"\(\s*(PEq|PGe|PAny)\s*(\d*)\s*,\s*(None|Some\s+\d+)\s*\)", m.group(1)):
        val = None if v == "None" else int(v.split()[1])
        arms.append(({"PEq": "eq", "PGe": "ge", "PAny": "any"}[kind], int(k) if k else None, val))
    return arms or None


def reconstruct(what, runs, domains, known, matches, no_map, more=None, prior=None):
    """Reconstruct the dispatches the front end could not read from the implementation's answers.

    runs     candidate run numbers (sorted; contain 0, u32::MAX-1, u32::MAX)
    domains  {family: [candidate values] | function run -> [candidate values]}  (None = "no map" is always a candidate)
    known    {family: canonical arms} for the families that were read syntactically
    matches(selection {family: value | None}, run) -> bool : does this selection reproduce the implementation's COMPLETE answer
    no_map(run) -> bool : the implementation answers "no map" for every entry at this run
    more([run, ..])     : make the implementation's answers for further runs available (None: no refinement)

    Where the implementation has no map at all, a dispatch that is hidden behind another one's error cannot be observed
    (the composition is the same function of the run number whatever it says there).  `prior` = {family: function
    run -> value | None} (the PINNED configuration's dispatch): where the implementation has no map, the prior's
    selection is taken if it, too, predicts "no map" there - so that an unchanged composite function is written with
    the pinned arms - else every reconstructed dispatch says None there.
    When two consecutive candidates that are not neighbouring integers select differently, the boundary is not at a
    literal of the source: it is located by bisection (one change per gap assumed, as everywhere between candidates).
    returns {family: canonical arms} for the families not in `known`; with every family known this is a pure check."""
    import itertools
    unknown = [f for f in domains if f not in known]
    samples = {f: {} for f in unknown}
    chosen = {}

    def evaluate(r):
        sel = {f: apply_arms(known[f], r) for f in known}
        choice = None
        if no_map(r):
            if prior is not None and all(f in prior for f in unknown):
                trial = dict(sel)
                trial.update({f: prior[f](r) for f in unknown})
                if matches(trial, r):
                    choice = trial
            if choice is None:
                trial = dict(sel)
                trial.update({f: None for f in unknown})
                if matches(trial, r):
                    choice = trial
        else:
            doms = []
            for f in unknown:
                d = domains[f]
                doms.append(list(d(r) if callable(d) else d) + [None])
            for combo in itertools.product(*doms):
                trial = dict(sel)
                trial.update(zip(unknown, combo))
                if matches(trial, r):
                    choice = trial
                    break
        if choice is None:
            raise GenError("%s: run %d: the implementation's answer is reproduced by no parsed table%s"
                           % (what, r, "" if unknown else " under the dispatch read from the source"))
        for f in unknown:
            samples[f][r] = choice[f]
        chosen[r] = tuple(choice[f] for f in unknown)

    for r in runs:
        evaluate(r)
    budget = [400]

    def refine(a, b):
        if b - a <= 1 or chosen[a] == chosen[b]:
            return
        budget[0] -= 1
        if budget[0] < 0:
            raise GenError("%s: the dispatch changes at too many places that are not literals of the source" % what)
        m = (a + b) // 2
        more([m])
        evaluate(m)
        refine(a, m)
        refine(m, b)
    if more is not None and unknown:
        pts = sorted(r for r in runs if r != U32_MAX)          # u32::MAX is a point of its own (PEq)
        for a, b in zip(pts, pts[1:]):
            refine(a, b)
    return {f: canonical_arms(samples[f]) for f in unknown}


# ------------------------------------------------------------------------------------------------ self test
def _selftest():
    want = [("eq", U32_MAX, "S"), ("ge", 11084, "B"), ("ge", 9277, "A"), ("any", None, None)]
    consts_src = "const SIM: u32 = u32::MAX; const FIRST_B: u32 = 11084; const FIRST_A: u32 = 9_277;"
    variants = [
        "let map = match run_number { u32::MAX => &*S, 11084.. => &*B, 9277.. => &*A, _ => return Err(E::M { run_number }), };",
        "let map: &HashMap<K, f64> = match run_number { SIM => &S, n if n >= FIRST_B => &B, n if n >= FIRST_A => &A, "
        "_ => return Err(E::M { run_number }), };",
        "let map = if run_number == SIM { &S } else if run_number >= FIRST_B { &B } else if run_number >= FIRST_A { &A } "
        "else { return Err(E::M { run_number }); };",
        "let map = if run_number == u32::MAX { &*S } else { match run_number { 0..=9276 => return Err(E::M { run_number }), "
        "9277..=11083 => &*A, 11084..=u32::MAX => &*B, } };",
        "if run_number < FIRST_A { return Err(E::M { run_number }); } "
        "let (first, map) = match run_number { SIM => (0, S.deref()), 9277 | 9278..=11083 => (9277, A.deref()), _ => (11084, &B) };",
        "let map = match run_number { x @ (0..=9276) => return Err(E::M { run_number: x }), u32::MAX => &S, "
        "n if !(n < FIRST_B) => &B, _ => &A };",
    ]
    consts = int_consts(consts_src)

    def resolve(leaf):
        return None if leaf_is_err(leaf) else leaf_table(leaf)
    for v in variants:
        early, lets = dispatch_statements(parse_body(v + " map.get(&k).copied().ok_or(E::N { run_number })"))
        assert len(lets) == 1, v
        k, _, node = lets[0]
        got = canonical_arms(tree_function([e for j, e in early if j < k] + [node], consts, resolve))
        assert got == want, (v, got)
    body = ("if run_number == u32::MAX { return Ok(SIM_DELAY); } if run_number < FIRST { return Err(E::M { run_number }); } "
            "Ok(DATA_DELAY)")
    c2 = int_consts("const SIM_DELAY: usize = 100; const DATA_DELAY: usize = 129; const FIRST: u32 = 7000;")
    got = canonical_arms(tree_function(parse_body(body), c2, lambda l: None if leaf_is_err(l) else leaf_ok_int(l, c2)))
    assert got == [("eq", U32_MAX, 100), ("ge", 7000, 129), ("any", None, None)], got
    # what the front end must refuse (left to the semantic fallback)
    for bad in ("let e = if run_number == SIM { 5000 } else { run_number }; let map = if e >= 9277 { &A } else { &B };",
                "let map = match run_number / 1000 { 9 => &A, _ => &B };",
                "let map = match run_number { n if lookup(n) => &A, _ => &B };"):
        try:
            early, lets = dispatch_statements(parse_body(bad + " map"))
            for k, _, node in lets:
                tree_function([node], consts, lambda l: leaf_table(l) or (_ for _ in ()).throw(GenError("leaf")))
            assert not lets or False, bad
        except GenError:
            pass
    f = lambda r: "S" if r == U32_MAX else (None if r < 7777 else ("A" if r < 12345 else "B"))
    rec = reconstruct("t", [0, 1, 99, 100, 101, U32_MAX - 1, U32_MAX], {"x": ["A", "B", "S"]}, {},
                      lambda sel, r: sel["x"] == f(r), lambda r: f(r) is None, more=lambda rs: None)
    assert rec["x"] == [("eq", U32_MAX, "S"), ("ge", 12345, "B"), ("ge", 7777, "A"), ("any", None, None)], rec
    assert first_selection_order(["B", "A", "S", "U"], want) == ["S", "A", "B", "U"]
    print("dispatchx self test ok")


if __name__ == "__main__":
    _selftest()
