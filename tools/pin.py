"""Configuration pin: the generated tables (coq/Gen/*.v: board tables, wire/pad maps and their run-number arms,
calibration tables and arms, drift tables) are regenerated from /repo on every run, so the theorems always speak
about the current source.  What they cannot know is whether a table ENTRY or an arm BOUNDARY is the intended one:
there is no specification of that in the repository.  The pin records the configuration the properties were
established for (pinned/<Name>.v.gz, a copy of the generated text); a run whose regenerated text differs reports
which definitions changed.  `./check --repin` re-pins after a reviewed, deliberate change (new calibration, new map).
"""
import difflib
import gzip
import os
import re

ROOT = os.path.dirname(os.path.dirname(os.path.abspath(__file__)))
GEN = os.path.join(ROOT, "coq", "Gen")
PIN = os.path.join(ROOT, "pinned")

# which generated files a property's statement depends on
PINS = {
    "C01": ["Boards"], "C02": ["Boards"], "C03": ["Boards"], "C04": ["Boards"], "C05": ["Boards"],
    "C08": ["Boards", "WireMaps", "PadMaps"],
    "C09": ["Boards", "WireMaps", "PadMaps", "Calib"],
    "C10": ["Boards", "WireMaps", "PadMaps", "Calib"],
    "C13": ["PadMaps"],
    "C11": ["Boards", "WireMaps", "PadMaps", "Calib"],
    "C18": ["Drift"],
}


def repin():
    os.makedirs(PIN, exist_ok=True)
    n = 0
    for f in sorted(os.listdir(GEN)):
        if f.endswith(".v"):
            with gzip.GzipFile(os.path.join(PIN, f + ".gz"), "wb", mtime=0) as g:
                g.write(open(os.path.join(GEN, f), "rb").read())
            n += 1
    return n


def definitions(text):
    """name -> body of every `Definition name ... .` of a generated file"""
    out = {}
    for m in re.finditer(r"^Definition\s+(\w+)\b(.*?)\.\s*$", text, re.S | re.M):
        out[m.group(1)] = " ".join(m.group(2).split())
    return out


def compare(pid):
    """list of human-readable differences between the pinned and the regenerated configuration of property pid"""
    diffs = []
    for name in PINS.get(pid, []):
        cur_p = os.path.join(GEN, name + ".v")
        pin_p = os.path.join(PIN, name + ".v.gz")
        if not os.path.exists(pin_p):
            diffs.append("pinned/%s.v.gz is missing (the configuration pin cannot be checked)" % name)
            continue
        if not os.path.exists(cur_p):
            diffs.append("Gen/%s.v was not regenerated" % name)
            continue
        cur = open(cur_p).read()
        try:
            old = gzip.open(pin_p, "rt").read()
        except (OSError, EOFError, UnicodeDecodeError) as e:
            diffs.append("pinned/%s.v.gz cannot be read (%s): the configuration pin cannot be checked" % (name, e))
            continue
        if cur == old:
            continue
        dc, do = definitions(cur), definitions(old)
        for k in sorted(set(dc) | set(do)):
            if k not in do:
                diffs.append("Gen/%s.v: new definition %s" % (name, k))
            elif k not in dc:
                diffs.append("Gen/%s.v: definition %s disappeared" % (name, k))
            elif dc[k] != do[k]:
                a, b = do[k], dc[k]
                sm = difflib.SequenceMatcher(None, a, b, autojunk=False) if len(a) + len(b) < 20000 else None
                where = ""
                if sm:
                    for tag, i1, i2, j1, j2 in sm.get_opcodes():
                        if tag != "equal":
                            where = ": `%s` -> `%s` (at character %d)" % (a[max(0, i1 - 20):i2 + 20], b[max(0, j1 - 20):j2 + 20], i1)
                            break
                else:
                    i = next((i for i, (x, y) in enumerate(zip(a, b)) if x != y), min(len(a), len(b)))
                    where = ": `%s` -> `%s` (at character %d)" % (a[max(0, i - 30):i + 30], b[max(0, i - 30):i + 30], i)
                diffs.append("Gen/%s.v: definition %s changed%s" % (name, k, where))
    return diffs
