"""Translator: regenerates coq/Gen/*.v from the CURRENT /repo sources on every run.

It covers data tables and run-number dispatch (`match run_number { ... }`), i.e. the parts of the code
where a stale hand-written model would be most dangerous.  The source is tokenised (comments and
strings handled), constants are located by name and their initialisers parsed as nested literals.
If an item is missing or has a shape the translator does not know, `regenerate()` returns an error
string (a broken tie, handled by the caller as in DESIGN.md section 5).
"""
import os
import re

REPO = os.environ.get("VERIF_REPO", "/repo")
ROOT = os.path.dirname(os.path.dirname(os.path.abspath(__file__)))
GEN = os.path.join(ROOT, "coq", "Gen")


class GenError(Exception):
    pass


def strip_comments(src):
    out = []
    i, n = 0, len(src)
    while i < n:
        c = src[i]
        if src.startswith("//", i):
            j = src.find("\n", i)
            i = n if j < 0 else j
        elif src.startswith("/*", i):
            depth, i = 1, i + 2
            while i < n and depth:
                if src.startswith("/*", i):
                    depth += 1
                    i += 2
                elif src.startswith("*/", i):
                    depth -= 1
                    i += 2
                else:
                    i += 1
        elif c == '"':
            j = i + 1
            while j < n and src[j] != '"':
                j += 2 if src[j] == "\\" else 1
            out.append(src[i:j + 1])
            i = j + 1
        else:
            out.append(c)
            i += 1
    return "".join(out)


TOKEN = re.compile(r'\s*(?:(b?"(?:[^"\\]|\\.)*")|(0x[0-9A-Fa-f_]+|\d[\d_]*)(?:u8|u16|u32|u64|usize|i32)?|([A-Za-z_][A-Za-z0-9_:]*)|(\.\.=|\.\.|=>|[\[\]\(\)\{\},;=&\*\+\-\|!<>\./:#\?\']))')


def tokens(s):
    pos, out = 0, []
    s = s.rstrip()
    while pos < len(s):
        m = TOKEN.match(s, pos)
        if not m:
            raise GenError("cannot tokenise near: %r" % s[pos:pos + 40])
        if m.group(1) is not None:
            out.append(("str", m.group(1)))
        elif m.group(2) is not None:
            out.append(("int", int(m.group(2).replace("_", ""), 0)))
        elif m.group(3) is not None:
            out.append(("id", m.group(3)))
        else:
            out.append(("p", m.group(4)))
        pos = m.end()
    return out


def parse_literal(toks, i, consts):
    """nested arrays / tuples of ints, strings and named integer constants"""
    k, v = toks[i]
    if k == "p" and v in "[(":
        close = "]" if v == "[" else ")"
        items = []
        i += 1
        while toks[i] != ("p", close):
            x, i = parse_literal(toks, i, consts)
            items.append(x)
            if toks[i] == ("p", ","):
                i += 1
        return items, i + 1
    if k == "int":
        return v, i + 1
    if k == "str":
        return v.strip('b')[1:-1], i + 1
    if k == "id" and v in consts:
        return consts[v], i + 1
    raise GenError("unexpected token in literal: %r" % (toks[i],))


def const_init(src, name, consts=None):
    m = re.search(r"\bconst\s+%s\s*:[^=]*=\s*" % re.escape(name), src)
    if not m:
        raise GenError("constant %s not found" % name)
    j = src.find(";", m.end())
    # the initialiser may contain ';' only inside array types, which are before '='
    toks = tokens(src[m.end():j])
    val, _ = parse_literal(toks, 0, consts or {})
    return val


def const_int(src, name):
    m = re.search(r"\bconst\s+%s\s*:\s*\w+\s*=\s*([^;]+);" % re.escape(name), src)
    if not m:
        raise GenError("constant %s not found" % name)
    e = m.group(1).strip()
    return e


def eval_int(expr, env):
    e = re.sub(r"\b(\d+)(u8|u16|u32|u64|usize)\b", r"\1", expr)
    e = re.sub(r"std::mem::size_of::<u32>\(\)", "4", e)
    e = e.replace("/", "//")
    if not re.fullmatch(r"[\w\s\+\-\*/\(\)]+", e):
        raise GenError("cannot evaluate %r" % expr)
    return int(eval(e, {"__builtins__": {}}, dict(env)))


def match_arms(src, fn_marker, scrutinee, nth=0):
    """arms of the nth `match <scrutinee> {` after fn_marker, in source order: list of (pattern, body)"""
    i = src.find(fn_marker)
    if i < 0:
        raise GenError("marker %r not found" % fn_marker)
    pat = re.compile(r"\bmatch\s+%s\s*\{" % re.escape(scrutinee))
    ms = list(pat.finditer(src, i))
    if len(ms) <= nth:
        raise GenError("match %s #%d after %r not found" % (scrutinee, nth, fn_marker))
    start = ms[nth].end()
    depth, j = 1, start
    while depth:
        if src[j] == "{":
            depth += 1
        elif src[j] == "}":
            depth -= 1
        j += 1
    body = src[start:j - 1]
    arms, depth, cur = [], 0, ""
    for ch in body:
        if ch in "{([":
            depth += 1
        elif ch in "})]":
            depth -= 1
        if ch == "," and depth == 0:
            arms.append(cur)
            cur = ""
        else:
            cur += ch
    if cur.strip():
        arms.append(cur)
    out = []
    for a in arms:
        if "=>" not in a:
            raise GenError("arm without =>: %r" % a)
        p, b = a.split("=>", 1)
        out.append((p.strip(), " ".join(b.split())))
    return out


def run_pattern(p):
    """translate a run-number pattern into (kind, value): ('eq', n) | ('ge', n) | ('any', None)"""
    p = p.strip()
    if p == "u32::MAX":
        return ("eq", 2 ** 32 - 1)
    if p == "_":
        return ("any", None)
    m = re.fullmatch(r"(\d[\d_]*)\s*\.\.", p)
    if m:
        return ("ge", int(m.group(1).replace("_", "")))
    m = re.fullmatch(r"(\d[\d_]*)", p)
    if m:
        return ("eq", int(m.group(1).replace("_", "")))
    raise GenError("unknown run-number pattern %r" % p)


def coq_nlist(xs):
    return "[" + "; ".join(str(x) for x in xs) + "]"


def coq_str(s):
    return coq_nlist(list(s.encode()))


def write_if_changed(path, text):
    os.makedirs(os.path.dirname(path), exist_ok=True)
    if os.path.exists(path) and open(path).read() == text:
        return
    with open(path, "w") as f:
        f.write(text)


HEADER = "(* GENERATED from /repo by tools/gen.py on every run -- do not edit *)\nFrom AG Require Import Base.Prelude.\n\n"


def gen_boards():
    a16 = strip_comments(open(os.path.join(REPO, "detector/src/alpha16.rs")).read())
    pwb = strip_comments(open(os.path.join(REPO, "detector/src/padwing.rs")).read())
    cb = strip_comments(open(os.path.join(REPO, "detector/src/chronobox.rs")).read())
    # the order of the rows of a board table carries no meaning (look-ups by name / MAC / device id; rows are
    # proved pairwise distinct): generate them sorted, so that re-ordering the source table changes nothing
    boards = sorted(const_init(a16, "ALPHA16BOARDS"), key=lambda r: r[0])
    t = HEADER
    t += "(* detector/src/alpha16.rs ALPHA16BOARDS: (name bytes, mac) *)\n"
    t += "Definition alpha16_boards : list (list N * list N) :=\n  [" + ";\n   ".join(
        "(%s, %s)" % (coq_str(n), coq_nlist(mac)) for n, mac in boards) + "].\n"
    bs = eval_int(const_int(a16, "BASELINE_SAMPLES"), {})
    mk = eval_int(const_int(a16, "MIN_KEEP_LAST"), {"BASELINE_SAMPLES": bs})
    t += "Definition gen_BASELINE_SAMPLES : N := %d.\nDefinition gen_MIN_KEEP_LAST : N := %d.\n" % (bs, mk)
    pboards = sorted(const_init(pwb, "PADWING_BOARDS"), key=lambda r: r[0])
    t += "\n(* detector/src/padwing.rs PADWING_BOARDS: (name bytes, mac, device id) *)\n"
    t += "Definition padwing_boards : list (list N * list N * N) :=\n  [" + ";\n   ".join(
        "(%s, %s, %d)" % (coq_str(n), coq_nlist(mac), dev) for n, mac, dev in pboards) + "].\n"
    nin = eval_int(const_int(cb, "NUM_INPUT_CHANNELS"), {})
    names = const_init(cb, "CHRONOBOX_NAMES")
    t += "\n(* detector/src/chronobox.rs *)\nDefinition gen_NUM_INPUT_CHANNELS : N := %d.\n" % nin
    t += "Definition chronobox_names : list (list N) := [" + "; ".join(coq_str(n) for n in names) + "].\n"
    write_if_changed(os.path.join(GEN, "Boards.v"), t)


LAST_ERRORS = {}


def regenerate(only=None):
    """returns None on success, else an error string; `only` = names of the plugins to run (None: all).
    LAST_ERRORS = {plugin name ("boards" for the board tables): message} of the plugins that failed: a property is
    affected only by the plugins whose output it uses (tools/props.py)"""
    LAST_ERRORS.clear()
    try:
        gen_boards()
    except Exception as e:  # any failure of the translator is a broken tie, reported by the caller
        LAST_ERRORS["boards"] = "%s: %s" % (type(e).__name__, e)
    try:
        plugins = extra_generators(only)
    except Exception as e:
        LAST_ERRORS["plugins"] = "%s: %s" % (type(e).__name__, e)
        plugins = []
    for name, f in plugins:
        try:
            f()
        except Exception as e:
            LAST_ERRORS[name] = "%s: %s" % (type(e).__name__, e)
    if LAST_ERRORS:
        return "; ".join("%s: %s" % kv for kv in sorted(LAST_ERRORS.items()))
    return None


def extra_generators(only=None):
    """tools/genx_*.py each define generate() (one translator plugin per table family)"""
    import importlib.util
    out = []
    d = os.path.dirname(os.path.abspath(__file__))
    for f in sorted(os.listdir(d)):
        if f.startswith("genx_") and f.endswith(".py") and (only is None or f[5:-3] in only):
            spec = importlib.util.spec_from_file_location(f[:-3], os.path.join(d, f))
            m = importlib.util.module_from_spec(spec)
            spec.loader.exec_module(m)
            out.append((f[5:-3], m.generate))
    return out


if __name__ == "__main__":
    print(regenerate() or "generated")
