#!/usr/bin/env python3
"""Driver of the ALPHA-g proof machinery.

  ./check setup                      build everything from files on disk (offline)
  ./check <Cxx> [--tier quick|thorough]
  ./check --replay <replay.json>

Protocol per property (DESIGN.md section 5):
  1. regenerate coq/Gen from /repo (translator), where the property uses generated tables
  2. build the Coq theorems of the property (full .vo build), collect Print Assumptions, hygiene grep
  3. build the extracted model runner and the Rust harness against /repo's current working tree
  4. corpus + generated cases through implementation and model; diff
  5. decide, write evidence/<id>.json, print VIOLATION / KNOWN-FINDING lines
"""
import fcntl
import hashlib
import json
import os
import re
import shutil
import subprocess
import sys
import time

ROOT = os.path.dirname(os.path.dirname(os.path.abspath(__file__)))
BUILD = os.path.join(ROOT, ".build")
COQ = os.path.join(ROOT, "coq")
# the registered checks always run against /repo; VERIF_REPO exists so that tools/seedcheck.py can run a
# scratch copy of this machinery against a scratch worktree carrying a seeded change
REPO = os.environ.get("VERIF_REPO", "/repo")
CFG = "alpha_g_verif"

ENV = dict(os.environ)
ENV.update({"CARGO_NET_OFFLINE": "true", "PIP_NO_INDEX": "1", "GOPROXY": "off"})


def sh(cmd, cwd=None, timeout=None, env=None, check=False, stdin=None):
    """run a command, return (rc, output)"""
    try:
        p = subprocess.run(cmd, cwd=cwd, shell=isinstance(cmd, str), stdout=subprocess.PIPE,
                           stderr=subprocess.STDOUT, timeout=timeout, env=env or ENV, input=stdin)
        out = p.stdout.decode("utf-8", "replace")
        rc = p.returncode
    except subprocess.TimeoutExpired as e:
        out = (e.stdout or b"").decode("utf-8", "replace") + "\n[timeout]"
        rc = 124
    if check and rc != 0:
        sys.stderr.write(out)
        raise SystemExit("command failed: %s" % cmd)
    return rc, out


class Lock:
    def __init__(self, name):
        os.makedirs(BUILD, exist_ok=True)
        self.path = os.path.join(BUILD, name + ".lock")

    def __enter__(self):
        self.f = open(self.path, "w")
        fcntl.flock(self.f, fcntl.LOCK_EX)

    def __exit__(self, *a):
        fcntl.flock(self.f, fcntl.LOCK_UN)
        self.f.close()


# ---------------------------------------------------------------------------
# Coq
# ---------------------------------------------------------------------------
STD_AXIOMS_REAL = [
    "ClassicalDedekindReals.sig_forall_dec", "ClassicalDedekindReals.sig_not_dec",
    "FunctionalExtensionality.functional_extensionality_dep", "Classical_Prop.classic",
]
HYGIENE = re.compile(r"\b(Admitted|admit|Axiom|Axioms|Parameter|Parameters|Conjecture|Abort All|"
                     r"Unset Guard Checking|bypass_check|Admit Obligations|Unset Positivity Checking|"
                     r"Unset Universe Checking)\b|-type-in-type|-impredicative-set")


def coq_project_text():
    """_CoqProject is derived from the files present (Props/, Extract/ and everything they need)"""
    files = []
    for dp, _, fs in os.walk(COQ):
        for f in fs:
            # Extract/Ex_*.v are compiled by build_modelrun in their own directory (Extraction writes into the cwd)
            if f.endswith(".v") and os.path.basename(dp) != "Extract":
                files.append(os.path.relpath(os.path.join(dp, f), COQ))
    files.sort()
    head = ("-Q . AG\n-arg -w -arg -notation-overridden,-deprecated-hint-without-locality,"
            "-deprecated-instance-without-locality\n")
    return head + "\n".join(files) + "\n"


def coq_makefile():
    mk = os.path.join(COQ, "Makefile")
    cp = os.path.join(COQ, "_CoqProject")
    text = coq_project_text()
    if not os.path.exists(cp) or open(cp).read() != text:
        with open(cp, "w") as f:
            f.write(text)
    if not os.path.exists(mk) or os.path.getmtime(mk) < os.path.getmtime(cp):
        sh("coq_makefile -f _CoqProject -o Makefile", cwd=COQ, check=True)


def strip_comments(src):
    out, depth, i = [], 0, 0
    while i < len(src):
        if src.startswith("(*", i):
            depth += 1
            i += 2
        elif src.startswith("*)", i) and depth > 0:
            depth -= 1
            i += 2
        else:
            if depth == 0:
                out.append(src[i])
            i += 1
    return "".join(out)


def coq_hygiene():
    """grep the whole development (comments stripped) for forbidden constructs"""
    bad = []
    for dp, _, fs in os.walk(COQ):
        for f in fs:
            if f.endswith(".v"):
                p = os.path.join(dp, f)
                src = strip_comments(open(p).read())
                for m in HYGIENE.finditer(src):
                    # `Variable`/`Hypothesis` are allowed only inside Sections; checked separately
                    bad.append("%s: %s" % (os.path.relpath(p, COQ), m.group(0)))
                # top-level Variable/Hypothesis outside a section
                depth = 0
                for line in src.splitlines():
                    s = line.strip()
                    if re.match(r"Section\s+\w+", s):
                        depth += 1
                    elif re.match(r"End\s+\w+", s) and depth > 0:
                        depth -= 1
                    elif depth == 0 and re.match(r"(Variable|Variables|Hypothesis|Hypotheses|Context)\b", s):
                        bad.append("%s: top-level %s" % (os.path.relpath(p, COQ), s[:40]))
    return bad


def coq_build_prop(pid, timeout, allowed_axioms):
    """(re)build Props/<pid>.vo, return dict(obligations, discharged, log, axioms, ok, failed)"""
    coq_makefile()
    target = "Props/%s.vo" % pid
    vfile = os.path.join(COQ, "Props", pid + ".v")
    src = strip_comments(open(vfile).read())
    theorems = re.findall(r"^\s*Theorem\s+(\w+)", src, re.M)
    printed = re.findall(r"^\s*Print\s+Assumptions\s+(\w+)\s*\.", src, re.M)
    unpaired = [t for t in theorems if printed.count(t) != 1] + [q for q in printed if q not in theorems]
    # force recompilation of the pin file so that Print Assumptions output is fresh
    for ext in (".vo", ".vok", ".vos", ".glob"):
        try:
            os.remove(os.path.join(COQ, "Props", pid + ext))
        except FileNotFoundError:
            pass
    rc, out = sh("make -j16 %s" % target, cwd=COQ, timeout=timeout)
    blocks = []  # one per Print Assumptions
    cur = None
    for line in out.splitlines():
        if line.startswith("Closed under the global context"):
            blocks.append([])
            cur = None
        elif line.startswith("Axioms:"):
            cur = []
            blocks.append(cur)
        elif cur is not None:
            # one axiom per non-indented line `name : type` (the type may start on the next, indented line)
            if line and not line[0].isspace():
                m = re.match(r"^([A-Za-z_][\w.']*)\s*(:|$)", line)
                if m:
                    cur.append(m.group(1))
                else:
                    cur = None
    used = sorted({a for b in blocks for a in b})
    bad_ax = [a for a in used if a not in allowed_axioms]
    discharged = len(blocks) if rc == 0 else min(len(blocks), len(theorems))
    failed_thm = None
    if unpaired:
        failed_thm = "every Theorem must be followed by exactly one `Print Assumptions` of the same name: %s" % unpaired[:5]
    if rc != 0:
        m = re.search(r'File "\./(.*?)", line (\d+)', out)
        failed_thm = m.group(0) if m else "build failed"
    return dict(obligations=len(theorems), discharged=discharged if not bad_ax else 0, theorems=theorems,
                ok=(rc == 0 and not bad_ax and not unpaired and len(blocks) >= len(printed) >= len(theorems)), log=out, axioms=used,
                bad_axioms=bad_ax, failed=failed_thm, rc=rc)


def coqchk_prop(pid, allowed_axioms, timeout=3000):
    """thorough tier: re-check Props/<pid>.vo and everything it depends on with the independent checker"""
    rc, out = sh("coqchk -silent -o -Q . AG AG.Props.%s" % pid, cwd=COQ, timeout=timeout)
    axioms, bad, section = [], [], None
    for line in out.splitlines():
        m = re.match(r"^\* (Axioms|Constants/Inductives relying on type-in-type|Constants/Inductives relying on unsafe "
                     r"\(co\)fixpoints|Inductives whose positivity is assumed): ?(.*)$", line)
        if m:
            section = m.group(1)
            if m.group(2).strip() not in ("<none>", ""):
                (axioms if section == "Axioms" else bad).append(m.group(2).strip())
        elif section and line.startswith("    ") and line.strip():
            (axioms if section == "Axioms" else bad).append(line.strip())
        elif line.startswith("* "):
            section = None
    # coqchk lists every axiom / primitive declared anywhere in the closure of loaded libraries (not only those the
    # pinned theorems depend on -- that finer check is the Print Assumptions allowlist): here everything declared by
    # the Coq standard library itself (Coq.*) is accepted and reported; anything declared elsewhere (this development
    # is AG.*) must be explicitly allowed by the property's configuration
    short = lambda a: a.split(".")[-1]
    allowed = {short(a) for a in allowed_axioms}
    not_allowed = [a for a in axioms if not a.startswith("Coq.") and short(a) not in allowed]
    return dict(ok=(rc == 0 and not bad and not not_allowed), rc=rc, axioms=axioms, unsafe=bad,
                not_allowed=not_allowed, tail=out[-1500:])


def build_modelrun(unit="det", ocaml_pkgs="zarith", ocaml_flags=""):
    """extract unit `unit` (coq/Extract/Ex_<unit>.v) and build its runner ocaml/run_<unit>.ml
    (rebuilt when any .v or .ml is newer)"""
    exdir = os.path.join(BUILD, "extract", unit)
    os.makedirs(exdir, exist_ok=True)
    exe = os.path.join(exdir, "modelrun")
    coq_makefile()
    exsrc = strip_comments(open(os.path.join(COQ, "Extract", "Ex_%s.v" % unit)).read())
    deps = []
    for m in re.finditer(r"From\s+AG\s+Require\s+(?:Import\s+|Export\s+)?((?:[A-Za-z_][\w']*(?:\.[A-Za-z_][\w']*)*\s*)+)\.(?:\s|$)", exsrc):
        for tok in m.group(1).split():
            deps.append(tok.replace(".", "/") + ".vo")
    rc, out = sh("make -j16 %s" % " ".join(deps), cwd=COQ, timeout=3000)
    if rc != 0:
        return None, out
    newest = 0
    for dp, _, fs in os.walk(COQ):
        for f in fs:
            if f.endswith(".v"):
                newest = max(newest, os.path.getmtime(os.path.join(dp, f)))
    for f in ("common.ml", "run_%s.ml" % unit):
        newest = max(newest, os.path.getmtime(os.path.join(ROOT, "ocaml", f)))
    if os.path.exists(exe) and os.path.getmtime(exe) >= newest:
        return exe, ""
    # Extraction writes model.ml into the cwd of coqc
    shutil.copy(os.path.join(COQ, "Extract", "Ex_%s.v" % unit), os.path.join(exdir, "Exrun.v"))
    rc, out = sh("coqc -Q %s AG Exrun.v" % COQ, cwd=exdir, timeout=1200)
    if rc != 0:
        return None, out
    shutil.copy(os.path.join(ROOT, "ocaml", "common.ml"), exdir)
    shutil.copy(os.path.join(ROOT, "ocaml", "run_%s.ml" % unit), os.path.join(exdir, "run.ml"))
    rc, out2 = sh("ocamlfind ocamlopt -O3 -w -a %s -package %s -linkpkg model.mli model.ml common.ml run.ml -o modelrun"
                  % (ocaml_flags, ocaml_pkgs), cwd=exdir, timeout=1200)
    if rc != 0:
        return None, out + out2
    return exe, ""


# ---------------------------------------------------------------------------
# Rust harnesses
# ---------------------------------------------------------------------------
def build_harness(name, profile="release", cfg=True):
    """build harness/<name> against /repo's working tree; returns path of the binary"""
    hdir = os.path.join(ROOT, "harness", name)
    lock = os.path.join(hdir, "Cargo.lock")
    src_lock = os.path.join(REPO, "Cargo.lock")
    # the harness links what /repo's lock file names: follow it on every run (a dependency bump in /repo must reach the
    # differential), remembering which /repo lock the harness lock was derived from
    stamp = lock + ".from"
    cur = hashlib.sha256(open(src_lock, "rb").read()).hexdigest() if os.path.exists(src_lock) else "none"
    old = open(stamp).read().strip() if os.path.exists(stamp) else None
    if (not os.path.exists(lock) or old != cur) and os.path.exists(src_lock):
        shutil.copy(src_lock, lock)
        with open(stamp, "w") as f:
            f.write(cur + "\n")
    tdir = os.path.join(BUILD, "cargo-" + name)
    env = dict(ENV)
    env["CARGO_TARGET_DIR"] = tdir
    if cfg:
        env["RUSTFLAGS"] = "--cfg " + CFG
    flag = "--release" if profile == "release" else ""
    rc, out = sh("cargo build %s --offline" % flag, cwd=hdir, env=env, timeout=3000)
    if rc != 0 and "lock file" in out:
        shutil.copy(src_lock, lock)
        rc, out = sh("cargo build %s --offline" % flag, cwd=hdir, env=env, timeout=3000)
    binname = {"det": "vdet", "phys": "vphys", "apps": "vapps"}[name]
    if rc == 0 and name == "apps":
        # the analysis binaries themselves, from /repo's current working tree (no cfg flag: as shipped)
        adir = os.path.join(BUILD, "cargo-analysis")
        env2 = dict(ENV)
        env2["CARGO_TARGET_DIR"] = adir
        rc, out2 = sh("cargo build --release --offline -p alpha-g-analysis", cwd=REPO, env=env2, timeout=3000)
        out += out2
        os.environ["VERIF_ANALYSIS_BIN"] = os.path.join(adir, "release")
        ENV["VERIF_ANALYSIS_BIN"] = os.path.join(adir, "release")
    exe = os.path.join(tdir, "release" if profile == "release" else "debug", binname)
    return (exe if rc == 0 else None), out


# ---------------------------------------------------------------------------
# source fingerprints (escalation only, DESIGN.md 4.4)
# ---------------------------------------------------------------------------
PHYS = "physics/src/"
WATCH = {
    "C01": ["detector/src"],
    "C02": ["detector/src/alpha16.rs"],
    "C03": ["detector/src/padwing.rs"],
    "C04": ["detector/src/padwing.rs"],
    "C05": ["detector/src/padwing.rs"],
    "C06": ["detector/src/trigger.rs"],
    "C07": ["detector/src/chronobox.rs"],
    "C08": ["detector/src/midas.rs", "detector/src/alpha16.rs", "detector/src/alpha16/aw_map.rs", "detector/src/padwing.rs",
            "detector/src/padwing/map.rs", "detector/src/chronobox.rs", PHYS + "matching.rs"],
    "C09": [PHYS + "lib.rs", PHYS + "calibration", PHYS + "matching.rs", PHYS + "deconvolution.rs", PHYS + "deconvolution",
            PHYS + "drift.rs", PHYS + "reconstruction.rs", PHYS + "reconstruction"],
    "C10": [PHYS + "lib.rs", PHYS + "calibration", "physics/data/calibration"],
    "C11": [PHYS + "lib.rs", PHYS + "calibration", PHYS + "matching.rs", PHYS + "reconstruction/track_finding.rs"],
    "C13": [PHYS + "lib.rs", PHYS + "matching.rs", PHYS + "deconvolution/wires.rs"],
    "C14": [PHYS + "reconstruction.rs", PHYS + "reconstruction"],
    "C15": [PHYS + "reconstruction.rs", PHYS + "reconstruction/track_finding.rs", PHYS + "reconstruction/vertex_fitting.rs"],
    "C16": [PHYS + "reconstruction.rs"],
    "C17": [PHYS + "deconvolution.rs", PHYS + "deconvolution", "physics/data/simulation/tpc_response"],
    "C18": [PHYS + "drift.rs", PHYS + "lib.rs", "physics/data/simulation/drift_table"],
    "C19": ["analysis/src/lib.rs", "analysis/src/bin/alpha-g-vertices", "analysis/src/bin/alpha-g-trg-scalers"],
    "C20": ["analysis/src/lib.rs", "analysis/src/bin/alpha-g-chronobox-timestamps", "detector/src/chronobox.rs"],
}
# thorough-volume generation of these takes too long to be an automatic reaction to a source change
NO_ESCALATION = {"C17"}


def source_fingerprint(pid):
    """sha256 over the comment- and whitespace-insensitive text of the non-test sources a property is anchored in"""
    import gen
    h = hashlib.sha256()
    files = []
    for d in WATCH[pid]:
        p = os.path.join(REPO, d)
        if os.path.isdir(p):
            for dp, dns, fs in os.walk(p):
                files += [os.path.join(dp, f) for f in fs]
        else:
            files.append(p)
    for p in sorted(set(files)):
        rel = os.path.relpath(p, REPO)
        f = os.path.basename(p)
        if f == "tests.rs" or "/tests/" in rel or not os.path.exists(p):
            continue
        if f.endswith(".rs"):
            txt = " ".join(gen.strip_comments(open(p, errors="replace").read()).split())
            h.update(rel.encode() + b"\0" + txt.encode() + b"\0")
        elif f.endswith((".json", ".ron")):
            h.update(rel.encode() + b"\0" + open(p, "rb").read() + b"\0")
    return h.hexdigest()


def fingerprint_changed(pid):
    """(changed?, current) against tools/fingerprints.json, which records the sources the committed models were
    written against; a difference is NOT a violation: it only makes the tier's generators run with three seeds"""
    cur = source_fingerprint(pid)
    p = os.path.join(ROOT, "tools", "fingerprints.json")
    known = json.load(open(p)) if os.path.exists(p) else {}
    return known.get(pid) != cur, cur


# ---------------------------------------------------------------------------
# evidence / findings
# ---------------------------------------------------------------------------
def load_findings():
    p = os.path.join(ROOT, "known_findings.json")
    if os.path.exists(p):
        return json.load(open(p))
    return {"findings": []}


def write_evidence(pid, tier, seed, coverage, assumptions, wall, violations):
    os.makedirs(os.path.join(ROOT, "evidence"), exist_ok=True)
    ev = dict(property_id=pid, tier=tier, seed=seed, level="proof", coverage=coverage,
              assumptions=assumptions, wall_s=round(wall, 2), violations=violations)
    with open(os.path.join(ROOT, "evidence", pid + ".json"), "w") as f:
        json.dump(ev, f, indent=1)


def write_replay(pid, payload):
    os.makedirs(os.path.join(ROOT, "replays"), exist_ok=True)
    h = hashlib.sha1(json.dumps(payload, sort_keys=True).encode()).hexdigest()[:12]
    p = os.path.join(ROOT, "replays", "%s-%s.json" % (pid, h))
    with open(p, "w") as f:
        json.dump(payload, f, indent=1)
    return p


