#!/usr/bin/env python3
"""Regenerate the seeded-change table of DESIGN.md section 12.5 from seeded/*/meta.json."""
import json, os, re
ROOT = os.path.dirname(os.path.dirname(os.path.abspath(__file__)))
rows = []
for d in sorted(os.listdir(os.path.join(ROOT, "seeded"))):
    mp = os.path.join(ROOT, "seeded", d, "meta.json")
    if os.path.exists(mp):
        m = json.load(open(mp))
        rows.append("| %s | %s | %s | %s | %s |" % (d, m["property"], m.get("needs_to_manifest", "").replace("|", "/"),
                                              ", ".join(m.get("detected_by_checks", [])) or "—",
                                              m.get("detection", "not run yet").replace("|", "/")))
table = "| seed | breaks | needs, to manifest | caught by | how |\n|---|---|---|---|---|\n" + "\n".join(rows)
p = os.path.join(ROOT, "DESIGN.md")
s = open(p).read()
if "SEEDTABLE" in s:
    s = s.replace("SEEDTABLE", "<!-- seedtable:begin -->\n" + table + "\n<!-- seedtable:end -->")
else:
    s = re.sub(r"<!-- seedtable:begin -->.*?<!-- seedtable:end -->", "<!-- seedtable:begin -->\n" + table.replace("\\", "\\\\") + "\n<!-- seedtable:end -->", s, flags=re.S)
open(p, "w").write(s)
print("%d seeded changes in the table" % len(rows))
