#!/bin/sh
# End-to-end differential run of the composed model (coq/Event/E2E.v) against the real
# MainEvent::try_from_banks, on raw (bank name, bytes) lists.
#
#   tools/e2e_run.sh [quick|thorough|both] [seed]
#
# Steps: regenerate coq/Gen from /repo (incl. Gen/Calib.v), build the theorems (Event/E2E_pins.vo, with the
# hygiene grep and Print Assumptions of every pinned theorem), extract and build the runner of unit `e2e`,
# build the phys harness against /repo's working tree, generate the cases of the tier (harness property `E2E`),
# run the extracted model on them (in parallel slices) and diff the two observation files.
# Exit status 0 only if everything built and there is no difference in any requested tier.
set -u
ROOT=$(cd "$(dirname "$0")/.." && pwd)
TIER=${1:-both}
SEED=${2:-${VERIF_SEED:-1}}
JOBS=${E2E_JOBS:-16}
cd "$ROOT" || exit 2
WORK="$ROOT/.build/e2e"
mkdir -p "$WORK"
T0=$(date +%s)

python3 - "$ROOT" "$WORK" <<'EOF' || exit 1
import os, re, sys
root, work = sys.argv[1], sys.argv[2]
sys.path.insert(0, os.path.join(root, "tools"))
import gen, vlib
with vlib.Lock("build"):
    err = gen.regenerate()
    if err:
        print("E2E: translator failed: " + err); sys.exit(1)
    vlib.coq_makefile()
    pins = os.path.join(vlib.COQ, "Event", "E2E_pins.v")
    target = "Event/E2E_pins.vo" if os.path.exists(pins) else "Event/E2E.vo"
    # Print Assumptions output is produced only when the file is compiled: it is kept in .build/e2e/pins.log and
    # reused as long as make finds Event/E2E_pins.vo up to date (any change of a dependency recompiles it)
    log = os.path.join(work, "pins.log")
    if os.path.exists(pins) and not os.path.exists(log):
        for ext in (".vo", ".glob", ".vos", ".vok"):
            q = pins[:-2] + ext
            if os.path.exists(q):
                os.remove(q)
    rc, out = vlib.sh("make -j16 %s" % target, cwd=vlib.COQ, timeout=7200)
    if rc != 0:
        if os.path.exists(log):
            os.remove(log)
        sys.stdout.write(out[-4000:]); print("E2E: coq build failed"); sys.exit(1)
    bad = vlib.coq_hygiene()
    if bad:
        print("E2E: hygiene findings: %r" % (bad,)); sys.exit(1)
    if os.path.exists(pins):
        if "COQC Event/E2E_pins.v" in out:
            open(log, "w").write(out)
        out = open(log).read()
        # every `Print Assumptions` must report a closed theorem
        n_thm = len(re.findall(r"^Theorem ", vlib.strip_comments(open(pins).read()), re.M))
        n_pa = len(re.findall(r"^Print Assumptions ", vlib.strip_comments(open(pins).read()), re.M))
        n_closed = out.count("Closed under the global context")
        n_ax = out.count("Axioms:")
        print("E2E: pinned theorems %d, Print Assumptions %d, closed under the global context %d, with axioms %d"
              % (n_thm, n_pa, n_closed, n_ax))
        if n_ax or n_closed != n_pa or n_pa < n_thm:
            os.remove(log)
            sys.stdout.write(out[-3000:]); print("E2E: a pinned theorem is not closed"); sys.exit(1)
    exe, out = vlib.build_modelrun("e2e", "zarith,coq-core.kernel", "-rectypes -thread")
    if exe is None:
        sys.stdout.write(out[-4000:]); print("E2E: model runner build failed"); sys.exit(1)
    hexe, out = vlib.build_harness("phys")
    if hexe is None:
        sys.stdout.write(out[-4000:]); print("E2E: harness build failed"); sys.exit(1)
open(os.path.join(work, "exes"), "w").write(exe + "\n" + hexe + "\n")
EOF
MODEL=$(sed -n 1p "$WORK/exes")
HARNESS=$(sed -n 2p "$WORK/exes")
T1=$(date +%s)
echo "E2E: build $((T1 - T0)) s"

case "$TIER" in
  both) TIERS="quick thorough" ;;
  quick|thorough) TIERS="$TIER" ;;
  *) echo "usage: $0 [quick|thorough|both] [seed]"; exit 2 ;;
esac

STATUS=0
for T in $TIERS; do
  TS=$(date +%s)
  OUT="$WORK/$T"
  rm -rf "$OUT"
  mkdir -p "$OUT"
  # corpus first (one case line per line), then the generated cases
  : > "$OUT/corpus.txt"
  for f in "$ROOT"/corpus/E2E/*.case; do
    [ -f "$f" ] && grep -v '^#' "$f" | grep -v '^$' >> "$OUT/corpus.txt"
  done
  "$HARNESS" gen E2E "$T" "$SEED" "$OUT" || { echo "E2E[$T]: harness gen failed"; STATUS=1; continue; }
  "$HARNESS" obs < "$OUT/corpus.txt" > "$OUT/corpus_impl.txt"
  cat "$OUT/corpus.txt" "$OUT/cases.txt" > "$OUT/all_cases.txt"
  cat "$OUT/corpus_impl.txt" "$OUT/impl.txt" > "$OUT/all_impl.txt"
  N=$(wc -l < "$OUT/all_cases.txt")
  TG=$(date +%s)
  # model in parallel slices (round robin, so that the large cases are spread), order restored afterwards
  awk -v jobs="$JOBS" -v out="$OUT/slice." '{ print > (out (NR % jobs)) }' "$OUT/all_cases.txt"
  for k in $(seq 0 $((JOBS - 1))); do
    [ -f "$OUT/slice.$k" ] || : > "$OUT/slice.$k"
    "$MODEL" < "$OUT/slice.$k" > "$OUT/slice.$k.out" &
  done
  wait
  awk -v jobs="$JOBS" -v out="$OUT/slice." -v n="$N" 'BEGIN { for (i = 1; i <= n; i++) { f = out (i % jobs) ".out"; if ((getline line < f) > 0) print line; else print "model-missing-line" } }' > "$OUT/model.txt"
  rm -f "$OUT"/slice.*
  NM=$(wc -l < "$OUT/model.txt")
  paste -d '\n' "$OUT/all_impl.txt" "$OUT/model.txt" | awk -v cases="$OUT/all_cases.txt" -v out="$OUT/diff.txt" '
    NR % 2 == 1 { impl = $0; next }
    { k = NR / 2; if (impl != $0) { n++; print k "\timpl:  " impl "\n\tmodel: " $0 > out } }
    END { print n + 0 }' > "$OUT/ndiff"
  ND=$(cat "$OUT/ndiff")
  TE=$(date +%s)
  OKS=$(grep -c '^ok' "$OUT/all_impl.txt")
  ERRS=$(grep -c '^err' "$OUT/all_impl.txt")
  PANICS=$(grep -c '^panic' "$OUT/all_impl.txt")
  echo "E2E[$T]: cases $N (impl ok $OKS, err $ERRS, panic $PANICS, calibration lines $((N - OKS - ERRS - PANICS))); model lines $NM; differences $ND; gen $((TG - TS)) s, model $((TE - TG)) s"
  if [ "$N" != "$NM" ] || [ "$ND" != "0" ] || [ "$PANICS" != "0" ]; then
    STATUS=1
    if [ -f "$OUT/diff.txt" ]; then
      head -c 3000 "$OUT/diff.txt"
      K=$(head -1 "$OUT/diff.txt" | cut -f1)
      echo "first differing case (line $K of $OUT/all_cases.txt):"
      sed -n "${K}p" "$OUT/all_cases.txt" | cut -c1-600
    fi
    echo "VIOLATION property=E2E tier=$T differences=$ND panics=$PANICS replay=$OUT/diff.txt"
  fi
done
echo "E2E: total $(( $(date +%s) - T0 )) s, status $STATUS"
exit $STATUS
