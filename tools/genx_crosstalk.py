"""Translator plugin (C09): regenerates coq/Gen/CrossTalk.v with the wire cross-talk factors of
physics/src/deconvolution/wires.rs (`NEIGHBOR_FACTORS`), as the EXACT rational values of the binary64 constants the
compiler produces from the decimal literals (Python's float() is correctly rounded, as rustc's literal parsing is).

`a_matrix(n)` builds the n x n matrix  A[i][j] = NEIGHBOR_FACTORS.get(|i - j|).copied().unwrap_or(0.0)  that is handed
to faer's Cholesky factorisation (`cholesky_in_place(..).unwrap()`).  coq/Signal/CrossTalk.v proves, for the
regenerated factors and EVERY n, that this matrix is positive definite over the reals (strict diagonal dominance).
What is read from the source: the constant (exactly five finite literals, else GenError) and that `a_matrix` indexes
it by the absolute index difference with 0.0 beyond the table (a few equivalent spellings are accepted, else GenError).
"""
import os
import re

import gen

SRC = "physics/src/deconvolution/wires.rs"


def generate():
    src = gen.strip_comments(open(os.path.join(gen.REPO, SRC)).read())
    m = re.search(r"const\s+NEIGHBOR_FACTORS\s*:\s*\[\s*f64\s*;\s*(\w+)\s*\]\s*=\s*\[([^\]]*)\]\s*;", src)
    if not m:
        raise gen.GenError("%s: const NEIGHBOR_FACTORS: [f64; N] = [..]; not found" % SRC)
    items = [x.strip() for x in m.group(2).split(",") if x.strip()]
    vals = []
    for it in items:
        lit = re.fullmatch(r"(-?\d[\d_]*(?:\.[\d_]*)?(?:[eE][-+]?\d+)?)(?:_?f64)?", it)
        if not lit:
            raise gen.GenError("%s: NEIGHBOR_FACTORS entry %r is not a decimal literal" % (SRC, it))
        vals.append(float(lit.group(1).replace("_", "")))
    if len(vals) != 5 or m.group(1) not in ("5",):
        raise gen.GenError("%s: NEIGHBOR_FACTORS has %d entries (the model has the diagonal and four neighbours)"
                           % (SRC, len(vals)))
    i = src.find("fn a_matrix")
    if i < 0:
        raise gen.GenError("%s: fn a_matrix not found" % SRC)
    depth, j = 0, src.find("{", i)
    k = j
    while True:
        if src[k] == "{":
            depth += 1
        elif src[k] == "}":
            depth -= 1
            if depth == 0:
                break
        k += 1
    body = "".join(src[j:k + 1].split())
    diffs = ["ifi>j{i-j}else{j-i}", "ifj>i{j-i}else{i-j}", "ifi>=j{i-j}else{j-i}", "ifj>=i{j-i}else{i-j}",
             "i.abs_diff(j)", "j.abs_diff(i)", "ifi<j{j-i}else{i-j}", "ifj<i{i-j}else{j-i}",
             "ifi<=j{j-i}else{i-j}", "ifj<=i{i-j}else{j-i}", "i.max(j)-i.min(j)", "j.max(i)-j.min(i)"]
    uses = re.search(r"NEIGHBOR_FACTORS\.get\((\w+|[^()]*\([^()]*\))\)(\.copied\(\)|\.cloned\(\))\.unwrap_or\(0(\.0?)?(_?f64)?\)", body)
    direct = [d for d in diffs if d in body]
    if not uses or not direct or "with_dims(n,n," not in body:
        raise gen.GenError("%s: a_matrix has a shape the translator does not know: %s" % (SRC, body[:200]))
    out = [gen.HEADER.replace("tools/gen.py", "tools/genx_crosstalk.py").replace("From AG Require Import Base.Prelude.\n", "")]
    out.append("From Coq Require Import Reals.\nLocal Open Scope R_scope.\n")
    out.append("(* NEIGHBOR_FACTORS of %s = %s : the exact values of the binary64 constants *)\n" % (SRC, ", ".join(items)))
    for n, v in enumerate(vals):
        if v != v or v in (float("inf"), float("-inf")):
            raise gen.GenError("%s: non-finite factor" % SRC)
        p, q = v.as_integer_ratio()
        out.append("Definition neighbor_factor_%d : R := IZR (%d) / IZR (%d).\n" % (n, p, q))
    gen.write_if_changed(os.path.join(gen.GEN, "CrossTalk.v"), "".join(out))
