"""Translator plugin (C09): regenerates coq/Gen/CrossTalk.v with the wire cross-talk factors, taken FROM THE
IMPLEMENTATION on every run: the matrix `a_matrix(n)` of physics/src/deconvolution/wires.rs (the one handed to faer's
`cholesky_in_place(..).unwrap()`), read through the hook `alpha_g_physics::verif::crosstalk_matrix(n)` (phys harness,
`vphys obs`, case line `amat <n>`).

Checked here on every run, for the block lengths N_CHECK (1..=16, 64, 255, 256): the matrix is n x n, every entry is
finite, A[i][j] depends on |i - j| only (the SAME function for every n), and is exactly 0.0 for |i - j| >= 5: i.e. it
is the band Toeplitz matrix the model coq/Signal/CrossTalk.v is about; else GenError.  The five factors are written as
the EXACT rational values of the binary64 numbers.  How the source spells the matrix (a constant table, a `match` on
the distance, helper functions) is irrelevant.  Block lengths not in N_CHECK are assumed to follow the same rule
(the harness runs the real deconvolution on every block length 1..=256: rel17block)."""
import os
import struct

import gen
import vlib

N_CHECK = list(range(1, 17)) + [64, 255, 256]
BAND = 5


def generate():
    exe, out = vlib.build_harness("phys")
    if exe is None:
        raise gen.GenError("phys harness does not build against /repo: " + out[-600:])
    rc, out = vlib.sh([exe, "obs"], stdin="".join("amat %d\n" % n for n in N_CHECK).encode(), timeout=900)
    lines = out.split("\n")
    if rc != 0 or len(lines) < len(N_CHECK):
        raise gen.GenError("amat failed: %r" % out[:300])
    factor = {}
    for n, line in zip(N_CHECK, lines):
        t = line.split(" ")
        if t[0] != str(n) or len(t) != 1 + n * n:
            raise gen.GenError("amat %d: unexpected shape %r" % (n, line[:80]))
        vals = [struct.unpack("<d", struct.pack("<Q", int(h, 16)))[0] for h in t[1:]]
        for i in range(n):
            for j in range(n):
                v, d = vals[i * n + j], abs(i - j)
                if v != v or v in (float("inf"), float("-inf")):
                    raise gen.GenError("a_matrix(%d)[%d][%d] is not finite" % (n, i, j))
                if d >= BAND:
                    if v != 0.0:
                        raise gen.GenError("a_matrix(%d)[%d][%d] = %r: not a band matrix of half-width %d" % (n, i, j, v, BAND - 1))
                elif factor.setdefault(d, v) != v:
                    raise gen.GenError("a_matrix(%d)[%d][%d] = %r but distance %d had %r: not a Toeplitz matrix"
                                       % (n, i, j, v, d, factor[d]))
    if sorted(factor) != list(range(BAND)):
        raise gen.GenError("a_matrix: distances seen %r" % sorted(factor))
    out = [gen.HEADER.replace("tools/gen.py", "tools/genx_crosstalk.py").replace("From AG Require Import Base.Prelude.\n", "")]
    out.append("From Coq Require Import Reals.\nLocal Open Scope R_scope.\n")
    out.append("(* a_matrix(n)[i][j] of physics/src/deconvolution/wires.rs as the implementation builds it (hook\n"
               "   verif::crosstalk_matrix), checked for n = 1..16, 64, 255, 256 to be the band Toeplitz matrix\n"
               "   A[i][j] = factor |i - j| (0 beyond distance 4) with factors %s:\n"
               "   the exact values of the binary64 numbers *)\n" % ", ".join(repr(factor[d]) for d in range(BAND)))
    for d in range(BAND):
        p, q = factor[d].as_integer_ratio()
        out.append("Definition neighbor_factor_%d : R := IZR (%d) / IZR (%d).\n" % (d, p, q))
    gen.write_if_changed(os.path.join(gen.GEN, "CrossTalk.v"), "".join(out))
