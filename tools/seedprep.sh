#!/bin/sh
# prepare a scratch worktree of /repo and the property text for an independent seeding sub-agent:
#   tools/seedprep.sh C05     -> /tmp/seed/C05 (worktree), /tmp/seed/C05/out/PROPERTY.txt
set -e
P=$1
mkdir -p /tmp/seed
git -C /repo worktree add -q --detach /tmp/seed/$P HEAD
mkdir -p /tmp/seed/$P/out
python3 - "$P" <<'PY'
import json,sys
pid=sys.argv[1]
for l in open('/verif/properties.jsonl'):
    p=json.loads(l)
    if p['id']==pid:
        open('/tmp/seed/%s/out/PROPERTY.txt'%pid,'w').write("id: %s\ntitle: %s\n\nstatement: %s\n\nquantifier: %s\n\nwhy tests cannot settle it: %s\n\nanchors: %s\n" % (p['id'],p['title'],p['statement'],p['quantifier']['text'],p['why_tests_cant'],json.dumps(p['anchors'],indent=1)))
PY
echo /tmp/seed/$P
