#!/usr/bin/env python3
"""Confirm a seeded change independently and file it under /verif/seeded/<id>/.

  tools/seedconfirm.py <srcdir with patch.diff demo.rs notes.md> <seed id> <property> <crate dir: detector|physics|analysis> "<what it needs to manifest>" [cfg]

In a scratch worktree of /repo (removed afterwards): the demo passes on the unchanged code, the patch applies, the
demo fails with it, and the whole existing test suite still passes with it.  Only then is seeded/<id>/ written.
"""
import json
import os
import shutil
import subprocess
import sys

ROOT = os.path.dirname(os.path.dirname(os.path.abspath(__file__)))


def sh(cmd, **kw):
    p = subprocess.run(cmd, shell=True, stdout=subprocess.PIPE, stderr=subprocess.STDOUT, **kw)
    return p.returncode, p.stdout.decode("utf-8", "replace")


def main():
    src, sid, prop, crate, needs = sys.argv[1:6]
    use_cfg = len(sys.argv) > 6 and sys.argv[6] == "cfg"  # demo uses the cfg(alpha_g_verif) hooks
    wt = "/tmp/seedconf/" + sid
    shutil.rmtree(wt, ignore_errors=True)
    os.makedirs("/tmp/seedconf", exist_ok=True)
    env = dict(os.environ, CARGO_NET_OFFLINE="true", CARGO_TARGET_DIR=os.environ.get("SEEDCONF_TARGET", "/tmp/seedconf/target"))
    pkg = {"detector": "alpha_g_detector", "physics": "alpha_g_physics", "analysis": "alpha-g-analysis"}[crate]
    ran = []
    try:
        rc, out = sh("git -C /repo worktree add -q --detach %s HEAD" % wt)
        assert rc == 0, out
        os.makedirs("%s/%s/tests" % (wt, crate), exist_ok=True)
        shutil.copy(os.path.join(src, "demo.rs"), "%s/%s/tests/seed_demo.rs" % (wt, crate))
        demo = "cargo test -p %s --test seed_demo --offline" % pkg
        if use_cfg:
            demo = 'RUSTFLAGS="--cfg alpha_g_verif" ' + demo
        rc0, out0 = sh(demo, cwd=wt, env=env)
        ran.append(dict(cmd=demo + "   (unchanged code)", exit=rc0))
        rc, out = sh("git apply %s" % os.path.join(os.path.abspath(src), "patch.diff"), cwd=wt)
        assert rc == 0, "patch does not apply: " + out
        rc1, out1 = sh(demo, cwd=wt, env=env)
        ran.append(dict(cmd=demo + "   (with patch)", exit=rc1))
        os.remove("%s/%s/tests/seed_demo.rs" % (wt, crate))
        suite = "cargo test --workspace --offline"
        rc2, out2 = sh(suite, cwd=wt, env=env)
        passed = sum(int(l.split("ok. ")[1].split(" passed")[0]) for l in out2.splitlines() if l.startswith("test result: ok."))
        ran.append(dict(cmd=suite + "   (with patch)", exit=rc2, tests_passed=passed))
        ok = (rc0 == 0 and rc1 != 0 and rc2 == 0)
        print("demo unchanged: exit %d; demo with patch: exit %d; suite with patch: exit %d (%d tests passed) -> %s" % (
            rc0, rc1, rc2, passed, "CONFIRMED" if ok else "NOT CONFIRMED"))
        if not ok:
            print(out0[-800:] if rc0 else "", out1[-300:], out2[-800:] if rc2 else "")
            return 1
        dst = os.path.join(ROOT, "seeded", sid)
        os.makedirs(dst, exist_ok=True)
        for f in ("patch.diff", "demo.rs", "notes.md"):
            shutil.copy(os.path.join(src, f), dst)
        meta = dict(id=sid, property=prop, breaks=open(os.path.join(src, "notes.md")).read().split("\n\n")[0][:600],
                    needs_to_manifest=needs, demo="copy demo.rs to %s/tests/seed_demo.rs; %s" % (crate, demo),
                    confirmed=ran, origin="independent sub-agent given only the property text and a scratch worktree")
        json.dump(meta, open(os.path.join(dst, "meta.json"), "w"), indent=1)
        return 0
    finally:
        sh("git -C /repo worktree remove --force %s" % wt)


if __name__ == "__main__":
    sys.exit(main())
