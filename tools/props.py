"""Per-property configuration and the generic check runner."""
import collections
import shutil
import subprocess
import json
import os
import re
import sys
import time

import vlib
from vlib import ROOT, BUILD, COQ, sh

TRUSTED_COMMON = [
    "Coq 8.16.1 kernel and VM (vm_compute for finite reflection; no native_compute)",
    "extraction: ExtrOcamlBasic (bool/option/unit/list/prod/sumbool/sumor -> OCaml; andb/orb inlined); N/Z/positive/nat stay extracted inductives; units with binary64 models additionally ExtrOCamlFloats (PrimFloat.* -> coq-core Float64) and, where used, ExtrOCamlInt63",
    "ocaml/modelrun.ml (case parsing, printing) + zarith for decimal printing",
    "Rust harness harness/* (case generators, canonical printers)",
    "tools/vlib.py, tools/props.py (driver, diff, evidence)",
]

# what is modelled rather than verified, per engine
MODELLED_DET = [
    "hand-written Gallina model of the decoder, tied to detector/src by differential runs (not by translation)",
    "rustc/LLVM/std slice and integer semantics as encoded in Base/Res.v, Base/Bytes.v (slice/idx/arr panic exactly when Rust's do)",
]

NOT_APPLICABLE = {
    "C12": "statistical accuracy claim over the output distribution of an external stochastic forward model: there is no "
           "forall-statement to prove, only batches to sample, which this technique family may not substitute for a theorem",
}
HOOK_COMMITS = ["73ba0d54d0fb8567788edea16642a1256faee1af", "f8177ee9c91e9dad27a853b6a01583f9a3b02f8c"]

def load_props():
    """tools/propcfg/Cxx.py each define CFG (one file per property, so that work on different
    properties never touches the same file)"""
    import importlib.util
    out = {}
    d = os.path.join(ROOT, "tools", "propcfg")
    for f in sorted(os.listdir(d)):
        if re.fullmatch(r"C\d+\.py", f):
            spec = importlib.util.spec_from_file_location("propcfg_" + f[:-3], os.path.join(d, f))
            m = importlib.util.module_from_spec(spec)
            spec.loader.exec_module(m)
            out[f[:-3]] = m.CFG
    return out


PROPS = load_props()


def model_exe(cfg, unit=None):
    return vlib.build_modelrun(unit or cfg.get("model", "det"), cfg.get("ocaml_pkgs", "zarith"), cfg.get("ocaml_flags", ""))


def model_exes(cfg):
    """a check may combine several extraction units (cfg["model_units"]): each case line is answered by the
    first unit that knows its tag"""
    exes, log = [], ""
    for u in cfg.get("model_units") or [cfg.get("model", "det")]:
        ucfg = PROPS.get(u.upper(), cfg) if u != cfg.get("model") else cfg
        exe, out = vlib.build_modelrun(u, ucfg.get("ocaml_pkgs", cfg.get("ocaml_pkgs", "zarith")),
                                       ucfg.get("ocaml_flags", cfg.get("ocaml_flags", "")))
        log += out
        if exe is None:
            return None, log
        exes.append(exe)
    return exes, log


# the extracted models recurse over their input lists (native OCaml uses the system stack): streams of > 10^5 words
# need more than the default 8 MB
BIG_STACK = "ulimit -s unlimited 2>/dev/null || ulimit -s 4000000 2>/dev/null; "


def run_models(exes, cases_path, work, jobs=1):
    """every case line through every unit's runner (first answer that is not `unknown-case` wins); with jobs > 1 the
    case file is cut round-robin into slices that run concurrently (case lines are independent)"""
    lines = read_lines(cases_path)
    jobs = max(1, min(jobs, len(lines) // 200 or 1))
    outs = []
    for k, exe in enumerate(exes):
        if jobs == 1:
            mp = os.path.join(work, "model%d.txt" % k)
            sh("%s%s < %s > %s" % (BIG_STACK, exe, cases_path, mp), timeout=12000)
            outs.append(read_lines(mp))
            continue
        procs = []
        for j in range(jobs):
            sp = os.path.join(work, "slice%d_%d.txt" % (k, j))
            with open(sp, "w") as f:
                f.write("".join(l + "\n" for l in lines[j::jobs]))
            op = os.path.join(work, "model%d_%d.txt" % (k, j))
            procs.append((subprocess.Popen("%s%s < %s > %s" % (BIG_STACK, exe, sp, op), shell=True, env=vlib.ENV), op))
        res = [None] * len(lines)
        for j, (pr, op) in enumerate(procs):
            pr.wait()
            part = read_lines(op)
            for i, o in zip(range(j, len(lines), jobs), part):
                res[i] = o
        outs.append([x if x is not None else "model-no-output" for x in res])
    model = []
    n = max(len(o) for o in outs)
    for i in range(n):
        ans = [o[i] for o in outs if i < len(o)]
        pick = next((a for a in ans if a != "unknown-case"), "unknown-case")
        model.append(pick)
    return model


def setup():
    t0 = time.time()
    os.makedirs(BUILD, exist_ok=True)
    with vlib.Lock("build"):
        import gen
        gerr = gen.regenerate()
        if gerr:
            print("setup: translator failed: " + gerr)
            return 1
        vlib.coq_makefile()
        rc, out = sh("make -j16", cwd=COQ, timeout=7200)
        if rc != 0:
            sys.stdout.write(out[-4000:])
            print("setup: coq build failed")
            return 1
        done = set()
        for pid, cfg in PROPS.items():
            unit = cfg.get("model", "det")
            if unit in done:
                continue
            done.add(unit)
            exe, out = model_exe(cfg)
            if exe is None and not os.path.exists(os.path.join(COQ, "Extract", "Ex_%s.v" % unit)):
                continue
            if exe is None:
                sys.stdout.write(out[-4000:])
                print("setup: modelrun %s build failed" % unit)
                return 1
        for h in sorted({p["harness"] for p in PROPS.values() if p.get("harness")}):
            exe, out = vlib.build_harness(h)
            if exe is None:
                sys.stdout.write(out[-4000:])
                print("setup: harness %s build failed" % h)
                return 1
    print("setup ok in %.1fs" % (time.time() - t0))
    return 0


def read_lines(p):
    with open(p) as f:
        return f.read().split("\n")[:-1]


def corpus_cases(pid):
    d = os.path.join(ROOT, "corpus", pid)
    out = []
    if os.path.isdir(d):
        for f in sorted(os.listdir(d)):
            if f.endswith(".case"):
                for line in read_lines(os.path.join(d, f)):
                    if line.strip() and not line.startswith("#"):
                        out.append(line)
    return out


def known_class(pid, case, impl_obs, model_obs):
    """return the id of an open known finding whose class recognises this case, else None"""
    for f in vlib.load_findings().get("findings", []):
        if f.get("property") == pid and f.get("status") == "open":
            rec = f.get("case_prefix")
            # the implementation's observation must be the documented kind of failure (obs_prefix), so that another
            # failure on an input of the known class (a panic, a different relation failing) is still reported
            want = f.get("obs_prefix")
            if rec and want and case.startswith(rec) and impl_obs.startswith(want):
                return f
    return None


def cannot_run(pid, what, detail):
    """the check could not be carried out (the harness no longer builds against /repo, a runner crashed, ...): the
    property is not shown to hold on this tree -> a violation without a failing input, the replay names the step"""
    rp = vlib.write_replay(pid, dict(property=pid, kind="check-could-not-run", detail=what, log_tail=detail[-3000:]))
    sys.stdout.write(detail[-3000:])
    print("VIOLATION property=%s replay=%s no-failing-input-found" % (pid, rp))
    print("  " + what)
    return 1


def run(pid, tier, seed):
    if pid not in PROPS:
        print("unknown property", pid)
        return 2
    cfg = PROPS[pid]
    t0 = time.time()
    violations = []   # dicts: what, replay
    notes = []
    work = os.path.join(BUILD, "run", "%s-%s" % (pid, tier))
    os.makedirs(work, exist_ok=True)
    for f in os.listdir(work):
        q = os.path.join(work, f)
        shutil.rmtree(q) if os.path.isdir(q) else os.remove(q)

    with vlib.Lock("build"):
        import gen
        # translator plugins: detector-only properties need the board and map tables only
        plugins = cfg.get("gen_plugins", ["maps"] if cfg["harness"] == "det" else None)
        gerr = gen.regenerate(plugins)
        if gerr:
            notes.append("translator: " + gerr)
        coq = vlib.coq_build_prop(pid, timeout=3000, allowed_axioms=cfg["axioms"])
        hyg = vlib.coq_hygiene()
        chk = None
        if tier == "thorough" and coq["ok"]:
            chk = vlib.coqchk_prop(pid, cfg["axioms"])
            if not chk["ok"]:
                coq["ok"] = False
                coq["failed"] = "coqchk: rc=%s unsafe=%s axioms-not-allowed=%s" % (chk["rc"], chk["unsafe"], chk["not_allowed"])
        m_exe, mout = model_exes(cfg)
        h_exe, hout = vlib.build_harness(cfg["harness"])
        h_dev = None
        if h_exe is not None and "dev" in cfg.get("profiles", []):
            # second build WITH overflow checks (harness profile.dev: opt-level 1, overflow-checks on)
            h_dev, hout2 = vlib.build_harness(cfg["harness"], profile="dev")
            if h_dev is None:
                h_exe, hout = None, hout2
    import pin
    if gerr:
        # only the plugins whose output this property uses matter to it
        file_plugin = {"Boards": "boards", "WireMaps": "maps", "PadMaps": "maps", "Calib": "calib", "Drift": "drift",
                       "CrossTalk": "crosstalk"}
        needed = {file_plugin.get(f, f) for f in pin.PINS.get(pid, [])} | set(cfg.get("needs_gen", [])) | {"plugins"}
        mine = {k: v for k, v in gen.LAST_ERRORS.items() if k in needed}
        if not mine and gen.LAST_ERRORS:
            notes.append("translator plugins not used by this property failed: " + gerr)
            gerr = None
        elif mine:
            gerr = "; ".join("%s: %s" % kv for kv in sorted(mine.items()))
    if gerr and (cfg.get("uses_gen") or pid in pin.PINS or cfg.get("needs_gen")):
        coq["ok"] = False
        coq["failed"] = "translator could not regenerate coq/Gen from the current source: " + gerr
    # configuration pin (tools/pin.py): table entries and run-number arms have no specification in the repository;
    # the property was established for the pinned configuration, a regenerated configuration that differs is a broken
    # correspondence (reported with the changed definitions; `./check --repin` after a reviewed, deliberate change)
    pin_diffs = pin.compare(pid) if not gerr else []
    if pin_diffs:
        coq["ok"] = False
        coq["failed"] = ("regenerated configuration differs from the pinned one (pinned/*.v.gz): " + "; ".join(pin_diffs[:6])
                         + (" ... (%d differences)" % len(pin_diffs) if len(pin_diffs) > 6 else ""))
    if h_exe is None:
        # /repo no longer builds with the harness: not a property verdict, but the check cannot run
        return cannot_run(pid, "the harness (which calls the public API of /repo's crates) does not build against /repo's working tree", hout)
    if m_exe is None:
        return cannot_run(pid, "the model runner does not build (a definition of the executable model no longer compiles)", mout)

    # --- run implementation + model on corpus and generated cases
    corpus = corpus_cases(pid)
    # escalation: when a source file this property is anchored in differs from the one the committed model was
    # written against, the tier's generators are run with three seeds instead of one (a source change alone is never
    # a violation; the extra volume is bounded: three times the tier's generation time)
    changed, fp = vlib.fingerprint_changed(pid)
    escalate = changed and pid not in vlib.NO_ESCALATION and not os.environ.get("VERIF_NO_ESCALATION")
    gen_tier = tier
    seeds = [seed, seed + 1000, seed + 2000] if escalate else [seed]
    if changed:
        notes.append("source fingerprint of %s differs from tools/fingerprints.json: generators run with seeds %s" % (
            " ".join(vlib.WATCH[pid]), seeds))
    rc, out = sh([h_exe, "gen", pid, gen_tier, str(seed), work], timeout=6000)
    if rc != 0:
        return cannot_run(pid, "the harness crashed while generating cases / running the implementation", out)
    cases = read_lines(os.path.join(work, "cases.txt"))
    impl = read_lines(os.path.join(work, "impl.txt"))
    meta = read_lines(os.path.join(work, "meta.txt"))
    # further generators of the same harness whose cases belong to this check (e.g. the end-to-end cases of C10),
    # and the additional seeds of an escalated run
    extra = [(xp, seed) for xp in cfg.get("extra_gen", [])]
    for sd in seeds[1:]:
        extra += [(xp, sd) for xp in [pid] + cfg.get("extra_gen", [])]
    for xp, sd in extra:
        w2 = os.path.join(work, "extra-%s-%d" % (xp, sd))
        os.makedirs(w2, exist_ok=True)
        rc, out = sh([h_exe, "gen", xp, gen_tier, str(sd), w2], timeout=6000)
        if rc != 0:
            return cannot_run(pid, "the harness crashed while generating cases (generator %s)" % xp, out)
        cases += read_lines(os.path.join(w2, "cases.txt"))
        impl += read_lines(os.path.join(w2, "impl.txt"))
        meta += read_lines(os.path.join(w2, "meta.txt"))
    if corpus:
        rc, out = sh([h_exe, "obs"], stdin=("\n".join(corpus) + "\n").encode(), timeout=3000)
        cobs = out.split("\n")[:-1]
        cases = corpus + cases
        impl = cobs + impl
        meta = ["corpus 1"] * len(corpus) + meta
    if len(cases) < int(cfg.get("min_cases", 100)):
        return cannot_run(pid, "only %d cases were generated (at least %d expected): the differential would be vacuous"
                          % (len(cases), int(cfg.get("min_cases", 100))), "")
    with open(os.path.join(work, "all_cases.txt"), "w") as f:
        f.write("\n".join(cases) + "\n")
    model = run_models(m_exe, os.path.join(work, "all_cases.txt"), work, jobs=int(cfg.get("parallel_model", 1)))
    impl_dev = None
    if h_dev is not None:
        sh("%s obs < %s > %s" % (h_dev, os.path.join(work, "all_cases.txt"), os.path.join(work, "impl_dev.txt")), timeout=6000)
        impl_dev = read_lines(os.path.join(work, "impl_dev.txt"))
        if len(impl_dev) != len(cases):
            return cannot_run(pid, "line count mismatch cases=%d impl(overflow-checked build)=%d (the harness died)" % (len(cases), len(impl_dev)), "")
    if len(model) != len(cases) or len(impl) != len(cases) or len(meta) != len(cases):
        return cannot_run(pid, "line count mismatch cases=%d impl=%d model=%d meta=%d (a runner died)"
                          % (len(cases), len(impl), len(model), len(meta)), "")

    # --- diff
    diffs = []
    hist = collections.Counter()
    outcome = collections.Counter()
    distinct = set()
    for c, i, m, mt in zip(cases, impl, model, meta):
        label, nt = mt.rsplit(" ", 1)
        hist[label] += 1
        outcome[i.split(" ", 1)[0]] += 1
        if nt == "1":
            distinct.add(c)
        if i != m or i == "unknown-case":
            # a case line no module recognises must not count as agreement
            diffs.append((c, i, m, label))
    if impl_dev is not None:
        # the build with overflow checks must behave exactly like the plain release build (and like the model)
        for c, i, d, mt in zip(cases, impl, impl_dev, meta):
            if i != d:
                diffs.append((c, "release: %s | overflow-checked: %s" % (i[:200], d[:200]), "(profiles must agree)",
                              mt.rsplit(" ", 1)[0] + " [profile difference]"))
    known_hits = collections.OrderedDict()
    for c, i, m, label in diffs:
        kf = None if label.endswith("[profile difference]") else known_class(pid, c, i, m)
        if kf is not None:
            known_hits.setdefault(kf["id"], (kf, c))
            continue
        if len(violations) < 5:
            rp = vlib.write_replay(pid, dict(property=pid, kind="model-vs-implementation", case=c, label=label,
                                             implementation=i, model=m, seed=seed, tier=tier,
                                             note=cfg.get("note", "")))
            violations.append(dict(what="implementation and proved model differ on %s" % label, replay=rp, witness=True))

    # --- proof side
    proof_ok = coq["ok"] and not hyg
    if not proof_ok:
        what = []
        if hyg:
            what.append("hygiene: " + "; ".join(hyg[:5]))
        if coq["bad_axioms"]:
            what.append("axioms not in allowlist: " + ", ".join(coq["bad_axioms"]))
        if not coq["ok"]:
            if pin_diffs or (gerr and (cfg.get("uses_gen") or pid in pin.PINS)):
                what.append("correspondence with the source no longer checks: %s" % coq["failed"])
            else:
                what.append("theorem(s) of Props/%s.v no longer check: %s" % (pid, coq["failed"]))
        if not any(v.get("witness") for v in violations):
            rp = vlib.write_replay(pid, dict(property=pid, kind="proof-obligation-broken", detail=what,
                                             log_tail=coq["log"][-3000:], searched_cases=len(cases)))
            violations.append(dict(what="; ".join(what), replay=rp, witness=False))

    # --- evidence
    samples = []
    seen_labels = set()
    for c, i, m, mt in zip(cases, impl, model, meta):
        label = mt.rsplit(" ", 1)[0]
        if label not in seen_labels and len(samples) < 6:
            seen_labels.add(label)
            samples.append(dict(label=label, case=c[:400], implementation=i[:300], model=m[:300]))
    coverage = dict(
        obligations=coq["obligations"], discharged=coq["discharged"],
        theorems=coq["theorems"],
        checker_cmd="make -C coq Props/%s.vo (coqc 8.16.1, full .vo build) + Print Assumptions allowlist + hygiene grep" % pid,
        trusted_base=TRUSTED_COMMON + cfg["trusted"] + (
            ["axioms / kernel primitives the pinned theorems depend on, as Print Assumptions reports them (all declared by the "
             "Coq standard library or kernel, none by this development): " + ", ".join(coq["axioms"])] if coq["axioms"]
            else ["Print Assumptions: every pinned theorem is closed under the global context (no axioms)"]),
        axioms_reported=coq["axioms"], axioms_allowed=cfg["axioms"], hygiene_findings=hyg,
        evaluations=len(cases), distinct_nontrivial=len(distinct), rule=cfg["rule"],
        samples=samples, generator_histogram=dict(hist), implementation_outcomes=dict(outcome),
        model_vs_implementation_differences=len(diffs), corpus_cases=len(corpus),
        known_findings_hit=list(known_hits.keys()), notes=notes, configuration_pin_differences=pin_diffs, source_changed=changed, generator_seeds=seeds,
        coqchk=(dict(ok=chk["ok"], axioms=chk["axioms"], unsafe=chk["unsafe"]) if chk else "thorough tier only"),
    )
    vlib.write_evidence(pid, tier, seed, coverage,
                        ["the Gallina model is hand-written; its tie to /repo is the differential run reported here",
                         cfg.get("note", "")],
                        time.time() - t0, len(violations))
    for kid, (kf, c) in known_hits.items():
        print("KNOWN-FINDING: property=%s %s" % (pid, kf["what"]))
    for v in violations:
        tail = "" if v["witness"] else " no-failing-input-found"
        print("VIOLATION property=%s replay=%s%s" % (pid, v["replay"], tail))
        print("  " + v["what"])
    print("%s %s: obligations %d/%d, cases %d (distinct non-trivial %d), differences %d, %.1fs" % (
        pid, tier, coq["discharged"], coq["obligations"], len(cases), len(distinct), len(diffs), time.time() - t0))
    # the case files of a run can be gigabytes (thorough tiers): keep them only when something was found
    if not violations and not os.environ.get("VERIF_KEEP_RUN"):
        shutil.rmtree(work, ignore_errors=True)
    return 1 if violations else 0


def replay(path):
    rp = json.load(open(path))
    pid = rp["property"]
    cfg = PROPS[pid]
    if "case" not in rp:
        print(json.dumps(rp, indent=1)[:3000])
        return 0
    with vlib.Lock("build"):
        m_exe, _ = model_exes(cfg)
        h_exe, _ = vlib.build_harness(cfg["harness"])
    case = (rp["case"] + "\n").encode()
    _, i = sh([h_exe, "obs"], stdin=case)
    work = os.path.join(BUILD, "run", "replay")
    os.makedirs(work, exist_ok=True)
    with open(os.path.join(work, "case.txt"), "wb") as f:
        f.write(case)
    m = "\n".join(run_models(m_exe, os.path.join(work, "case.txt"), work))
    print("case:           ", rp["case"][:500])
    print("implementation: ", i.strip()[:500])
    print("model (= spec): ", m.strip()[:500])
    return 0 if i.strip() == m.strip() else 1
