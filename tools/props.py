"""Per-property configuration and the generic check runner."""
import collections
import json
import os
import sys
import time

import vlib
from vlib import ROOT, BUILD, COQ, sh

TRUSTED_COMMON = [
    "Coq 8.16.1 kernel and VM (vm_compute for finite reflection; no native_compute)",
    "extraction: ExtrOcamlBasic only (bool/option/unit/list/prod/sumbool/sumor -> OCaml; andb/orb inlined); N/Z/positive/nat stay extracted inductives",
    "ocaml/modelrun.ml (case parsing, printing) + zarith for decimal printing",
    "Rust harness harness/* (case generators, canonical printers)",
    "tools/vlib.py, tools/props.py (driver, diff, evidence)",
]

# what is modelled rather than verified, per engine
MODELLED_DET = [
    "hand-written Gallina model of the decoder, tied to detector/src by differential runs (not by translation)",
    "rustc/LLVM/std slice and integer semantics as encoded in Base/Res.v, Base/Bytes.v (slice/idx/arr panic exactly when Rust's do)",
]

NOT_APPLICABLE = {
    "C12": "statistical accuracy claim over the output distribution of an external stochastic forward model: there is no "
           "forall-statement to prove, only batches to sample, which this technique family may not substitute for a theorem",
}
HOOK_COMMITS = []

PROPS = {
    "C02": dict(
        harness="det",
        axioms=[],
        uses_gen=True,
        rule=("decision table of the property text (sample count around 63/64/last_index x suppression x keep_bit x "
              "keep_last around 0/33/34/last-index boundary/4095 x requested_samples in {0,1,2,n+1,n+2,n+3,n+100}) with sample "
              "fills incl. i16 extremes and negative sums not divisible by 64; short form with all flag/unused-bit "
              "combinations; valid packets with one field changed (22 kinds), truncations/extensions, byte changes; "
              "lengths 0..=120; random bytes. non-trivial = at least 16 bytes with type 1 and version 3; distinct = distinct bytes"),
        trusted=MODELLED_DET + ["tools/gen.py translator (ALPHA16BOARDS, BASELINE_SAMPLES, MIN_KEEP_LAST regenerated into coq/Gen/Boards.v each run)"],
        level_text=("Coq theorem adc_exact over a line-by-line model of AdcV3Packet::try_from (panic-aware, both overflow modes, any MAC "
                    "table): accepted iff the field/consistency rules hold over Z and the bytes are the documented big-endian layout of "
                    "the accessor values (up to the two unused footer bits); floor-mean lemma; never a panic; checked and wrapping "
                    "builds agree. All byte lists, no bound."),
        level_note=("trusted: Coq kernel; hand model tied by differential run (all 14 accessors incl. every waveform sample compared); "
                    "board table and constants regenerated from source each run and re-checked by C02_consts_current; extraction; harness"),
        note="model = spec by C02_adc_exact, so a difference is an input on which the implementation departs from the documented layout/rules",
    ),
    "C06": dict(
        harness="det",
        axioms=[],
        uses_gen=False,
        rule=("structured generator: boundary-biased valid TRG packets; per base packet every reserved bit set "
              "individually, all 16 header/footer marks, low-28 agreements/disagreements, counter orderings/ties at "
              "adjacent values, every word at 6 boundary values, bit flips, byte changes; lengths 0..=200; random "
              "80-byte strings. non-trivial = input of length 80 (passes the first guard); distinct = distinct input bytes"),
        trusted=MODELLED_DET,
        level_text=("Coq theorems over a model of TrgV3Packet::try_from: accepted iff field ranges hold and the bytes equal the "
                    "documented little-endian encoding of the fields (so reserved bits are zero and re-encoding reproduces the "
                    "input), counters ordered, other lengths rejected, never a panic; for all byte lists, no bound. "
                    "The model is tied to the Rust code by a differential run on every check."),
        level_note=("trusted: Coq kernel; hand-written model (tie = differential run of /repo's decoder vs the extracted model on "
                    "structured cases, all 18 accessors compared); extraction (ExtrOcamlBasic); harness and driver"),
        note="model = spec by C06_trg_exact, so any observation difference between implementation and model is a "
             "concrete input on which the implementation departs from the documented layout",
    ),
    "C07": dict(
        harness="det",
        axioms=[],
        uses_gen=False,
        rule=("all 256 top bytes x 6 low patterns and random words (classification); scaler-block length boundaries; "
              "streams from the grammar (timestamps, markers, scaler blocks whose bodies imitate words/tags, invalid "
              "words, truncated tails) parsed whole, under every single cut (sampled for long streams in quick), random "
              "multi-cuts and the all-1-byte-pieces schedule, fed with the resume protocol. non-trivial = at least 4 "
              "bytes; distinct = distinct (stream, cut pattern)"),
        trusted=MODELLED_DET + ["winnow 0.6.1 combinators (separated_foldl1, repeat(0..), alt, seq!, le_u24, u8.verify.try_map, take, le_u32) "
                                "on complete &[u8] input are modelled by the recursive parser Codec/Chrono.v:cb_fifo"],
        level_text=("Coq theorems over a model of chronobox_fifo: symbolic classification of all 2^32 words; the consumed prefix "
                    "is a sequence of words/complete scaler blocks whose entries are exactly the output, the remainder is the "
                    "untouched suffix and starts with no complete element; parse(a++b) = parse(a) then parse(rem++b); by "
                    "induction any cutting into pieces gives the same entries and final remainder; every element consumes 4 "
                    "or 244 bytes. Unbounded streams, no fuel hypothesis left (fuel = length proved sufficient)."),
        level_note=("trusted: Coq kernel; hand model of the winnow parser tied by differential runs (whole vs implementation, "
                    "piecewise vs implementation, all five entry fields + remainder length compared); extraction; harness"),
        note="entries and remainder length of implementation and proved model must agree, whole and piecewise",
    ),
}


def setup():
    t0 = time.time()
    os.makedirs(BUILD, exist_ok=True)
    with vlib.Lock("build"):
        import gen
        gerr = gen.regenerate()
        if gerr:
            print("setup: translator failed: " + gerr)
            return 1
        vlib.coq_makefile()
        rc, out = sh("make -j16", cwd=COQ, timeout=7200)
        if rc != 0:
            sys.stdout.write(out[-4000:])
            print("setup: coq build failed")
            return 1
        exe, out = vlib.build_modelrun()
        if exe is None:
            sys.stdout.write(out[-4000:])
            print("setup: modelrun build failed")
            return 1
        for h in sorted({p["harness"] for p in PROPS.values() if p.get("harness")}):
            exe, out = vlib.build_harness(h)
            if exe is None:
                sys.stdout.write(out[-4000:])
                print("setup: harness %s build failed" % h)
                return 1
    print("setup ok in %.1fs" % (time.time() - t0))
    return 0


def read_lines(p):
    with open(p) as f:
        return f.read().split("\n")[:-1]


def corpus_cases(pid):
    d = os.path.join(ROOT, "corpus", pid)
    out = []
    if os.path.isdir(d):
        for f in sorted(os.listdir(d)):
            if f.endswith(".case"):
                for line in read_lines(os.path.join(d, f)):
                    if line.strip() and not line.startswith("#"):
                        out.append(line)
    return out


def known_class(pid, case, impl_obs, model_obs):
    """return the id of an open known finding whose class recognises this case, else None"""
    for f in vlib.load_findings().get("findings", []):
        if f.get("property") == pid and f.get("status") == "open":
            rec = f.get("case_prefix")
            if rec and case.startswith(rec):
                return f
    return None


def run(pid, tier, seed):
    if pid not in PROPS:
        print("unknown property", pid)
        return 2
    cfg = PROPS[pid]
    t0 = time.time()
    violations = []   # dicts: what, replay
    notes = []
    work = os.path.join(BUILD, "run", "%s-%s" % (pid, tier))
    os.makedirs(work, exist_ok=True)
    for f in os.listdir(work):
        os.remove(os.path.join(work, f))

    with vlib.Lock("build"):
        import gen
        gerr = gen.regenerate()
        if gerr:
            notes.append("translator: " + gerr)
        coq = vlib.coq_build_prop(pid, timeout=3000, allowed_axioms=cfg["axioms"])
        hyg = vlib.coq_hygiene()
        model_exe, mout = vlib.build_modelrun()
        h_exe, hout = vlib.build_harness(cfg["harness"])
    if h_exe is None:
        # /repo no longer builds with the harness: not a property verdict, but the check cannot run
        sys.stdout.write(hout[-3000:])
        print("ERROR: harness does not build against /repo")
        return 2
    if model_exe is None:
        sys.stdout.write(mout[-3000:])
        print("ERROR: model runner does not build")
        return 2

    # --- run implementation + model on corpus and generated cases
    corpus = corpus_cases(pid)
    rc, out = sh([h_exe, "gen", pid, tier, str(seed), work], timeout=3000)
    if rc != 0:
        sys.stdout.write(out[-3000:])
        print("ERROR: harness failed")
        return 2
    cases = read_lines(os.path.join(work, "cases.txt"))
    impl = read_lines(os.path.join(work, "impl.txt"))
    meta = read_lines(os.path.join(work, "meta.txt"))
    if corpus:
        rc, out = sh([h_exe, "obs"], stdin=("\n".join(corpus) + "\n").encode(), timeout=3000)
        cobs = out.split("\n")[:-1]
        cases = corpus + cases
        impl = cobs + impl
        meta = ["corpus 1"] * len(corpus) + meta
    with open(os.path.join(work, "all_cases.txt"), "w") as f:
        f.write("\n".join(cases) + "\n")
    rc, out = sh("%s < %s > %s" % (model_exe, os.path.join(work, "all_cases.txt"), os.path.join(work, "model.txt")),
                 timeout=3000)
    model = read_lines(os.path.join(work, "model.txt"))
    if len(model) != len(cases) or len(impl) != len(cases):
        print("ERROR: line count mismatch cases=%d impl=%d model=%d" % (len(cases), len(impl), len(model)))
        return 2

    # --- diff
    diffs = []
    hist = collections.Counter()
    outcome = collections.Counter()
    distinct = set()
    for c, i, m, mt in zip(cases, impl, model, meta):
        label, nt = mt.rsplit(" ", 1)
        hist[label] += 1
        outcome[i.split(" ", 1)[0]] += 1
        if nt == "1":
            distinct.add(c)
        if i != m:
            diffs.append((c, i, m, label))
    known_hits = collections.OrderedDict()
    for c, i, m, label in diffs:
        kf = known_class(pid, c, i, m)
        if kf is not None:
            known_hits.setdefault(kf["id"], (kf, c))
            continue
        if len(violations) < 5:
            rp = vlib.write_replay(pid, dict(property=pid, kind="model-vs-implementation", case=c, label=label,
                                             implementation=i, model=m, seed=seed, tier=tier,
                                             note=cfg.get("note", "")))
            violations.append(dict(what="implementation and proved model differ on %s" % label, replay=rp, witness=True))

    # --- proof side
    proof_ok = coq["ok"] and not hyg
    if not proof_ok:
        what = []
        if hyg:
            what.append("hygiene: " + "; ".join(hyg[:5]))
        if coq["bad_axioms"]:
            what.append("axioms not in allowlist: " + ", ".join(coq["bad_axioms"]))
        if not coq["ok"]:
            what.append("theorem(s) of Props/%s.v no longer check: %s" % (pid, coq["failed"]))
        if not any(v.get("witness") for v in violations):
            rp = vlib.write_replay(pid, dict(property=pid, kind="proof-obligation-broken", detail=what,
                                             log_tail=coq["log"][-3000:], searched_cases=len(cases)))
            violations.append(dict(what="; ".join(what), replay=rp, witness=False))

    # --- evidence
    samples = []
    seen_labels = set()
    for c, i, m, mt in zip(cases, impl, model, meta):
        label = mt.rsplit(" ", 1)[0]
        if label not in seen_labels and len(samples) < 6:
            seen_labels.add(label)
            samples.append(dict(label=label, case=c[:400], implementation=i[:300], model=m[:300]))
    coverage = dict(
        obligations=coq["obligations"], discharged=coq["discharged"],
        theorems=coq["theorems"],
        checker_cmd="make -C coq Props/%s.vo (coqc 8.16.1, full .vo build) + Print Assumptions allowlist + hygiene grep" % pid,
        trusted_base=TRUSTED_COMMON + cfg["trusted"],
        axioms_reported=coq["axioms"], axioms_allowed=cfg["axioms"], hygiene_findings=hyg,
        evaluations=len(cases), distinct_nontrivial=len(distinct), rule=cfg["rule"],
        samples=samples, generator_histogram=dict(hist), implementation_outcomes=dict(outcome),
        model_vs_implementation_differences=len(diffs), corpus_cases=len(corpus),
        known_findings_hit=list(known_hits.keys()), notes=notes,
    )
    vlib.write_evidence(pid, tier, seed, coverage,
                        ["the Gallina model is hand-written; its tie to /repo is the differential run reported here",
                         cfg.get("note", "")],
                        time.time() - t0, len(violations))
    for kid, (kf, c) in known_hits.items():
        print("KNOWN-FINDING: property=%s %s" % (pid, kf["what"]))
    for v in violations:
        tail = "" if v["witness"] else " no-failing-input-found"
        print("VIOLATION property=%s replay=%s%s" % (pid, v["replay"], tail))
        print("  " + v["what"])
    print("%s %s: obligations %d/%d, cases %d (distinct non-trivial %d), differences %d, %.1fs" % (
        pid, tier, coq["discharged"], coq["obligations"], len(cases), len(distinct), len(diffs), time.time() - t0))
    return 1 if violations else 0


def replay(path):
    rp = json.load(open(path))
    pid = rp["property"]
    cfg = PROPS[pid]
    if "case" not in rp:
        print(json.dumps(rp, indent=1)[:3000])
        return 0
    with vlib.Lock("build"):
        model_exe, _ = vlib.build_modelrun()
        h_exe, _ = vlib.build_harness(cfg["harness"])
    case = (rp["case"] + "\n").encode()
    _, i = sh([h_exe, "obs"], stdin=case)
    _, m = sh([model_exe], stdin=case)
    print("case:           ", rp["case"][:500])
    print("implementation: ", i.strip()[:500])
    print("model (= spec): ", m.strip()[:500])
    return 0 if i.strip() == m.strip() else 1
