"""Configuration of the C11 check (loaded by tools/props.py)."""
CFG = dict(harness="phys", model="c10", ocaml_pkgs="zarith,coq-core.kernel", ocaml_flags="-rectypes -thread",
           axioms=[], uses_gen=False, rule="TODO", trusted=["TODO"], level_text="TODO", level_note="TODO", note="TODO")
