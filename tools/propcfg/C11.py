"""Configuration of the C11 check (loaded by tools/props.py)."""
_TRUSTED = [
    "hand-written Gallina model of MainEvent::try_from_banks over DECODED banks (coq/Event/Event.v), tied to "
    "physics/src/lib.rs by the differential run (not by translation); the decoders, bank-name parser, maps and "
    "reassembly enter as oracles and are the subject of C02-C06, C08",
    "oracle tables of the differential: the harness logs, through the detector crate's public API and the "
    "alpha_g_physics::verif calibration hooks, the decoded view of each bank, wire/pad positions, calibration triples "
    "and reassembled packets of the same case; a question of the model that was not logged is a model-exception "
    "(counted as a difference)",
    "hypotheses of the theorems guaranteed by Rust types / other properties, not re-proved here: samples and "
    "baselines are i16, TpcWirePosition < 256, TpcPadPosition < (32, 576), channels_sent has no repetition "
    "(env_typed, banks_typed); the run's wire map is one-to-one (wire_pos_injective, C08)",
    "binary64 arithmetic of the extracted model: Coq primitive floats (ExtrOCamlFloats/ExtrOCamlInt63, coq-core "
    "kernel Float64/Uint63); the theorems are parametric in the sample type and the multiplication",
    "rustc/LLVM/std semantics of indexing, Option/Result, i16->i32 widening as encoded in the model primitives",
]
CFG = dict(
    harness="phys",
    model="c10",
    ocaml_pkgs="zarith,coq-core.kernel",
    ocaml_flags="-rectypes -thread",
    axioms=[],
    uses_gen=False,
    rule='each event (simulated-like multi-track events with noise built from the wire/pad response shapes and the drift table, consistent random events, every class of single inconsistency, events on arbitrary runs) is evaluated (a) through implementation AND model as generated, reversed, randomly permuted and - lists of up to 6 banks - under every adjacent transposition (`evt10` cases, slots and timestamp compared); (b) by the implementation-only relation `rel11`: repeat, every adjacent transposition, the reversal and N random permutations (quick 6, thorough 50) must succeed/fail alike and on success give identical timestamp, signal arrays, avalanches() and vertex() bit for bit; the same in a spawned thread (all cases) and in a fresh child process re-invoking the harness binary (thorough: all cases; quick: one), i.e. under different HashMap seeds. non-trivial = more than one bank or not rejected',
    trusted=_TRUSTED,
    level_text='Coq theorems over the assembly model: for every permutation of the bank list and every pair of iteration orders of the chunk-group map the build succeeds or fails alike and on success yields the same event (timestamp and every wire/pad slot); separately, the iteration order alone is irrelevant with no assumption on reassembly. Hypotheses: typed values, one-to-one wire map (C08), order-insensitive reassembly (C04) - all three DISCHARGED for the end-to-end model over raw banks (C11_e2e_wire_pos_injective, C11_e2e_reasm_perm, C11_e2e_build_perm_invariant: for every permutation of the raw (name, data) list). For all bank lists; no bound.',
    level_note="NOT A PROOF for the second sentence of the property: 'same result in another thread / another process' is runtime behaviour (hash seeds, CPU feature detection) that no Gallina model exhibits; it is exercised by the `rel11` cases (main thread, spawned thread, fresh child process, compared bit for bit incl. avalanches() and vertex()) and is a test. avalanches()/vertex() determinism as functions of the signal arrays is likewise exercised, their models belong to C13/C14/C17. Proved part trusted as for C10.",
    note='a `rel11 fails` line is a bank list on which two orders (or two threads/processes) give different results on the real code; an `evt10` difference is a departure of the real assembly from the model proved order-independent',
)

# the pinned theorems depend on regenerated tables (coq/Gen): a failing translator is a broken tie
CFG["uses_gen"] = True

CFG["level_extra"] = ('Avalanche stage: Event/EventSlots.v maps the assembled event to the MainEvent value (256 wire slots, 32 x 576 '
                      'pad slots, timestamp); it respects ev_eq (C11_main_event_respects_ev_eq), the avalanche models (panic-aware '
                      'avalanches_res of C09 and the C13 skeleton) read only those arrays (C11_avalanches_respect_ev_eq), hence for '
                      'every permutation of the raw bank list and any two HashMap orders success is alike and the MainEvent values, '
                      'avalanche model outputs and timestamps are EQUAL (C11_e2e_avalanches_perm_invariant), for every instance of '
                      'the kernels. That the real avalanches()/vertex() are such functions in one process stays with C13/C14/C17 + rel11.')

# a run with fewer cases than half of what the quick tier generates today would be a (partly) vacuous differential
CFG["min_cases"] = 515
