"""Configuration of the C16 check (loaded by tools/props.py)."""
# axioms: the four standard axioms of the classical reals (theorems over R, Flocq) and, for the binary64 range
# theorems, the standard library's FloatAxioms; Print Assumptions also lists the kernel primitives PrimFloat.* /
# PrimInt63.* (registered primitives, not logical axioms) — they are named here because the driver compares names.
CFG = {
    'harness': 'phys',
    'model': 'c16',
    'ocaml_pkgs': 'zarith,coq-core.kernel',
    'ocaml_flags': '-rectypes -thread',
    'axioms': ['ClassicalDedekindReals.sig_forall_dec',
               'ClassicalDedekindReals.sig_not_dec',
               'Classical_Prop.classic',
               'FunctionalExtensionality.functional_extensionality_dep',
               'FloatAxioms.Prim2SF_SF2Prim',
               'FloatAxioms.Prim2SF_valid',
               'FloatAxioms.SF2Prim_Prim2SF',
               'FloatAxioms.add_spec',
               'FloatAxioms.div_spec',
               'FloatAxioms.eqb_spec',
               'FloatAxioms.leb_spec',
               'FloatAxioms.ltb_spec',
               'FloatAxioms.mul_spec',
               'FloatAxioms.sub_spec',
               'FloatAxioms.opp_spec',
               'FloatAxioms.abs_spec',
               'FloatAxioms.compare_spec',
               'Prim2SF_SF2Prim',
               'Prim2SF_valid',
               'SF2Prim_Prim2SF',
               'add_spec',
               'div_spec',
               'eqb_spec',
               'leb_spec',
               'ltb_spec',
               'mul_spec',
               'sub_spec',
               'opp_spec',
               'abs_spec',
               'compare_spec',
               'PrimFloat.abs',
               'PrimFloat.add',
               'PrimFloat.div',
               'PrimFloat.eqb',
               'PrimFloat.float',
               'PrimFloat.frshiftexp',
               'PrimFloat.ldshiftexp',
               'PrimFloat.leb',
               'PrimFloat.ltb',
               'PrimFloat.mul',
               'PrimFloat.normfr_mantissa',
               'PrimFloat.of_uint63',
               'PrimFloat.opp',
               'PrimFloat.sub',
               'PrimFloat.sqrt',
               'PrimFloat.compare',
               'PrimFloat.classify',
               'abs',
               'add',
               'div',
               'eqb',
               'float',
               'frshiftexp',
               'ldshiftexp',
               'leb',
               'ltb',
               'mul',
               'normfr_mantissa',
               'of_uint63',
               'opp',
               'sub',
               'sqrt',
               'compare',
               'classify',
               'PrimInt63.eqb',
               'PrimInt63.int',
               'PrimInt63.land',
               'PrimInt63.lor',
               'PrimInt63.lsl',
               'PrimInt63.lsr',
               'PrimInt63.sub',
               'PrimInt63.add',
               'PrimInt63.mul',
               'PrimInt63.ltb',
               'PrimInt63.leb',
               'PrimInt63.lxor',
               'PrimInt63.mod',
               'PrimInt63.div',
               'PrimInt63.head0',
               'PrimInt63.tail0',
               'PrimInt63.compare'],
    'uses_gen': False,
    'rule': 'helix centre within +-3 m (boundaries 0, +-3, tiny), radius 0.03-5 m (log-uniform + boundaries), phase in '
            '[-pi, pi] / [-4pi, 4pi] / {0, +-pi, +-pi/2}, pitch classes {0, +-subnormal, EPSILON and its neighbours, '
            '+-1e-17..+-1e2 log-uniform in five bands}; points uniform in the drift volume (r 0.05-0.25 m, |z| <= 1.3 m), '
            'points at z0 + k*h, points within 1 cm of the helix (offset scales 0, 1e-18..1e-2, z offset 0 or a fraction '
            'of the pitch); every tenth case a critical one (eccentricity e ~ 1, M ~ 0: slowest Newton convergence). '
            '`kt` lines: bit patterns of closest_t, Helix::at(t), Helix::at(tq) from the hooks versus the extracted '
            'PrimFloat model with glibc libm; one case in eight with other tolerance / iteration counts. `relk` lines: '
            'implementation-only brute-force oracle (20001-point grid + golden-section refinement), a test. '
            'relkt / relkc / relkv lines: the same oracle where the library reports t through its public API '
            '(Track::try_from -> t_inner/t_outer against the innermost/outermost cluster point, with clusters given by the '
            'hook or found by cluster_spacepoints; find_vertices -> t of every track of the primary vertex), applied '
            'when the fitted helix lies in the quantified domain (centre within +-3 m, radius 0.03-5 m, |pitch| <= 1e2 m). '
            'non-trivial = |h| >= EPSILON (Kepler branch reached) / a track in the domain was produced',
    'trusted': ['hand-written PrimFloat model of Helix::closest_t / Helix::at (coq/Recon/Helix.v), tied to '
                'physics/src/reconstruction.rs by the bit-exact differential run',
                'uom 0.35 operator semantics as read from its source (new = (v + -0.0) * 1.0, get = v / 1.0 - 0.0: identities, signed zero preserved, '
                'autoconvert change_base = identity)',
                'glibc libm sin/cos/atan2/hypot/floor: called from OCaml in the model runner and from Rust in the '
                'implementation (same shared library); not modelled in Coq',
                'extraction of PrimFloat through ExtrOCamlFloats and coq-core Float64',
                'NOT PROVED (named gap): convergence of the 20-step binary64 Newton iteration, NaN-freedom and global '
                'minimality within 1e-9 m; these are only measured by the relk oracle lines'],
    'level_text': 'PARTIAL. Proved in Coq over the reals (Coquelicot): the equation E - e sin E = M that closest_t solves, '
                  'with the code\'s definitions of theta, E, M, e, n, is exactly the stationarity condition of the squared '
                  'distance between the point and the helix (explicit derivative); for h = 0 the squared distance is '
                  'R^2 + rho^2 - 2 R rho cos(t - t*) so the atan2 form is a global minimiser; over the float skeleton: the '
                  'returned value is NaN or lies in [-pi, pi]. Not proved: convergence of the binary64 Newton iteration '
                  'through glibc sin/cos, NaN-freedom, global minimality within 1e-9 m (no verified libm / VCFloat here). '
                  'These are measured on the implementation by a brute-force oracle (a test).',
    'level_note': 'trusted: Coq kernel; hand-written float model tied by a bit-exact differential run against the cfg hooks '
                  '(any change of formula, guard, iteration count or clamp shows as a bit difference); glibc libm; harness',
    'note': 'kt lines: model and implementation must agree bit for bit. relk lines: implementation-only oracle, the model '
            'runner answers `holds`; a `fails` line is an input of the quantified domain on which the property fails',
}
