"""Configuration of the C16 check (loaded by tools/props.py)."""
# axioms: the four standard axioms of the classical reals (theorems over R, Flocq) and, for the binary64 range
# theorems, the standard library's FloatAxioms; Print Assumptions also lists the kernel primitives PrimFloat.* /
# PrimInt63.* (registered primitives, not logical axioms) — they are named here because the driver compares names.
CFG = {
    'harness': 'phys',
    'model': 'c16',
    'ocaml_pkgs': 'zarith,coq-core.kernel',
    'ocaml_flags': '-rectypes -thread',
    'axioms': ['ClassicalDedekindReals.sig_forall_dec',
               'ClassicalDedekindReals.sig_not_dec',
               'Classical_Prop.classic',
               'FunctionalExtensionality.functional_extensionality_dep',
               'FloatAxioms.Prim2SF_SF2Prim',
               'FloatAxioms.Prim2SF_valid',
               'FloatAxioms.SF2Prim_Prim2SF',
               'FloatAxioms.add_spec',
               'FloatAxioms.div_spec',
               'FloatAxioms.eqb_spec',
               'FloatAxioms.leb_spec',
               'FloatAxioms.ltb_spec',
               'FloatAxioms.mul_spec',
               'FloatAxioms.sub_spec',
               'FloatAxioms.opp_spec',
               'FloatAxioms.abs_spec',
               'FloatAxioms.compare_spec',
               'Prim2SF_SF2Prim',
               'Prim2SF_valid',
               'SF2Prim_Prim2SF',
               'add_spec',
               'div_spec',
               'eqb_spec',
               'leb_spec',
               'ltb_spec',
               'mul_spec',
               'sub_spec',
               'opp_spec',
               'abs_spec',
               'compare_spec',
               'PrimFloat.abs',
               'PrimFloat.add',
               'PrimFloat.div',
               'PrimFloat.eqb',
               'PrimFloat.float',
               'PrimFloat.frshiftexp',
               'PrimFloat.ldshiftexp',
               'PrimFloat.leb',
               'PrimFloat.ltb',
               'PrimFloat.mul',
               'PrimFloat.normfr_mantissa',
               'PrimFloat.of_uint63',
               'PrimFloat.opp',
               'PrimFloat.sub',
               'PrimFloat.sqrt',
               'PrimFloat.compare',
               'PrimFloat.classify',
               'abs',
               'add',
               'div',
               'eqb',
               'float',
               'frshiftexp',
               'ldshiftexp',
               'leb',
               'ltb',
               'mul',
               'normfr_mantissa',
               'of_uint63',
               'opp',
               'sub',
               'sqrt',
               'compare',
               'classify',
               'PrimInt63.eqb',
               'PrimInt63.int',
               'PrimInt63.land',
               'PrimInt63.lor',
               'PrimInt63.lsl',
               'PrimInt63.lsr',
               'PrimInt63.sub',
               'PrimInt63.add',
               'PrimInt63.mul',
               'PrimInt63.ltb',
               'PrimInt63.leb',
               'PrimInt63.lxor',
               'PrimInt63.mod',
               'PrimInt63.div',
               'PrimInt63.head0',
               'PrimInt63.tail0',
               'PrimInt63.compare'],
    'uses_gen': False,
    'rule': 'helix centre within +-3 m (boundaries 0, +-3, tiny), radius 0.03-5 m (log-uniform + boundaries), phase in '
            '[-pi, pi] / [-4pi, 4pi] / {0, +-pi, +-pi/2}, pitch classes {0, +-subnormal, EPSILON and its neighbours, '
            '+-1e-17..+-1e2 log-uniform in five bands}; points uniform in the drift volume (r 0.05-0.25 m, |z| <= 1.3 m), '
            'points at z0 + k*h, points within 1 cm of the helix (offset scales 0, 1e-18..1e-2, z offset 0 or a fraction '
            'of the pitch); every tenth case a critical one (eccentricity e ~ 1, M ~ 0: slowest Newton convergence). '
            '`kt` lines: bit patterns of closest_t, Helix::at(t), Helix::at(tq) from the hooks versus the extracted '
            'PrimFloat model with glibc libm; one case in eight with other tolerance / iteration counts. `relk` lines: '
            'implementation-only brute-force oracle (20001-point grid + golden-section refinement), a test; the label ends '
            'in `:t-interior` / `:t-at-pi` (the minimality clause of the property applies only to t strictly inside '
            '(-pi, pi); of the classes above 62 % end interior). A second stream (`rel:interior/...`, 58 % of the relk '
            'lines) keeps the TRUE minimiser strictly inside: helix point at t0 uniform in (-3, 3) displaced by <= 1 cm '
            'along the principal normal or in a random direction with |dz| < 0.45 |h|; labelled `interior` only when the '
            'brute-force minimiser satisfies |t| < 3.1 (checked fact), else `interior-not-confirmed`; with it 84 % of all '
            'relk lines have t strictly interior. '
            'relkt / relkc / relkv lines: the same oracle where the library reports t through its public API '
            '(Track::try_from -> t_inner/t_outer against the innermost/outermost cluster point, with clusters given by the '
            'hook or found by cluster_spacepoints; find_vertices -> t of every track of the primary vertex). The case line '
            'carries a trailer ` | <k> <x0 y0 z0 r phi0 h>*k` with the helices the library produced (re-computed and compared '
            'bit for bit on replay: `fails helix-params-differ-from-case-line`). A helix outside the quantified domain '
            '(centre within +-3 m, radius 0.03-5 m, |pitch| <= 1e2 m, finite) is an explicit outcome, never `holds`: both '
            'the harness and the model runner (same predicate on the trailer\'s bit patterns) print '
            '`skipped out-of-domain <nonfinite-params|negative-radius|radius<0.03m|radius>5m|centre|pitch>` (first such '
            'track; a `fails` on a track inside the domain wins); for these helices the oracle still runs and its class goes '
            'into the label only (`out-of-domain:<bound>:<closest|t-at-pi|not-closest>1e-9m|>1e-6m|>1e-3m|...>`). '
            'non-trivial = |h| >= EPSILON (Kepler branch reached) / a track in the domain was produced and checked',
    'trusted': ['hand-written PrimFloat model of Helix::closest_t / Helix::at (coq/Recon/Helix.v), tied to '
                'physics/src/reconstruction.rs by the bit-exact differential run',
                'uom 0.35 operator semantics as read from its source (new = (v + -0.0) * 1.0, get = v / 1.0 - 0.0: identities, signed zero preserved, '
                'autoconvert change_base = identity)',
                'glibc libm sin/cos/atan2/hypot/floor: called from OCaml in the model runner and from Rust in the '
                'implementation (same shared library); not modelled in Coq',
                'extraction of PrimFloat through ExtrOCamlFloats and coq-core Float64',
                'NOT PROVED (named gap): convergence of the 20-step binary64 Newton iteration, NaN-freedom and global '
                'minimality within 1e-9 m; these are only measured by the relk oracle lines'],
    'level_text': 'PARTIAL. Proved in Coq over the reals (Coquelicot): the equation E - e sin E = M that closest_t solves, '
                  'with the code\'s definitions of theta, E, M, e, n, is exactly the stationarity condition of the squared '
                  'distance between the point and the helix (explicit derivative); for h = 0 the squared distance is '
                  'R^2 + rho^2 - 2 R rho cos(t - t*) so the atan2 form is a global minimiser; over the float skeleton: the '
                  'returned value is NaN or lies in [-pi, pi]. Not proved: convergence of the binary64 Newton iteration '
                  'through glibc sin/cos, NaN-freedom, global minimality within 1e-9 m (no verified libm / VCFloat here). '
                  'These are measured on the implementation by a brute-force oracle (a test).',
    'level_note': 'trusted: Coq kernel; hand-written float model tied by a bit-exact differential run against the cfg hooks '
                  '(any change of formula, guard, iteration count or clamp shows as a bit difference); glibc libm; harness. '
                  'MEASURED, outside the quantifier of C16 and recorded, not hidden: for inputs of C14\'s quantifier (nearly '
                  'collinear, vertical, random, noisy clusters) the library itself returns helices outside C16\'s domain '
                  '(radius 0.03-5 m, centre within +-3 m): quick seed 1: 128 of 292 fitted tracks (70 radius > 5 m, up to 1e88 m; '
                  '24 negative radius; 28 radius < 0.03 m; 4 centre; 2 pitch) and 133 of 922 primary-vertex tracks (centre), '
                  '212 lines `skipped out-of-domain`; thorough: 2136 of 4908 fitted tracks and 1448 of 9526 vertex tracks, 2695 '
                  'lines. On those helices t_inner / t_outer are NOT always closest-approach parameters: quick 39 of 261 '
                  'helices (15 by more than 1 mm, maximum 0.91 m), thorough 650 of 3584 (245 by more than 1 mm, maximum 1.80 m); '
                  'all but one have radius >= 1.9e6 m (cancellation in x0 + r cos), one has a negative radius (r = -0.17 m, '
                  'excess 0.18 m). These lines are observations `skipped out-of-domain <bound>` (counted in '
                  'implementation_outcomes; class of the excess in the generator histogram labels `out-of-domain:...`), never `holds`',
    'note': 'kt lines: model and implementation must agree bit for bit. relk lines: implementation-only oracle, the model '
            'runner answers `holds`; a `fails` line is an input of the quantified domain on which the property fails. '
            'relkt/relkc/relkv lines: the model runner answers `holds` or `skipped out-of-domain <bound>` from the helix '
            'parameters in the case line\'s trailer; `skipped` = the library-made helix is outside the quantifier of C16',
}

# a run with fewer cases than half of what the quick tier generates today would be a (partly) vacuous differential
CFG["min_cases"] = 11345
