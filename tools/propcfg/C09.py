"""Configuration of the C09 check (loaded by tools/props.py)."""
_TRUSTED = [
    "hand-written Gallina model of MainEvent::try_from_banks over DECODED banks (coq/Event/Event.v), tied to "
    "physics/src/lib.rs by the differential run (not by translation); the decoders, bank-name parser, maps and "
    "reassembly enter as oracles and are the subject of C02-C06, C08",
    "oracle tables of the differential: the harness logs, through the detector crate's public API and the "
    "alpha_g_physics::verif calibration hooks, the decoded view of each bank, wire/pad positions, calibration triples "
    "and reassembled packets of the same case; a question of the model that was not logged is a model-exception "
    "(counted as a difference)",
    "hypotheses of the theorems guaranteed by Rust types / other properties, not re-proved here: samples and "
    "baselines are i16, TpcWirePosition < 256, TpcPadPosition < (32, 576), channels_sent has no repetition "
    "(env_typed, banks_typed); the run's wire map is one-to-one (wire_pos_injective, C08)",
    "binary64 arithmetic of the extracted model: Coq primitive floats (ExtrOCamlFloats/ExtrOCamlInt63, coq-core "
    "kernel Float64/Uint63); the theorems are parametric in the sample type and the multiplication",
    "rustc/LLVM/std semantics of indexing, Option/Result, i16->i32 widening as encoded in the model primitives",
]
# kernel primitives and FloatAxioms reported by Print Assumptions for the binary64 theorems (same family as C17)
_PRIM = ['float', 'add', 'sub', 'mul', 'div', 'abs', 'ltb', 'leb', 'eqb', 'compare', 'normfr_mantissa', 'frshiftexp',
         'int', 'lsr', 'land']
_SPEC = ['add_spec', 'sub_spec', 'mul_spec', 'div_spec', 'ltb_spec', 'leb_spec', 'eqb_spec', 'compare_spec']
_AX = (_PRIM + ['PrimFloat.' + p for p in _PRIM] + ['PrimInt63.' + p for p in _PRIM] + ['Uint63.' + p for p in _PRIM]
       + _SPEC + ['FloatAxioms.' + a for a in _SPEC])
CFG = dict(
    harness="phys",
    model="c10",
    ocaml_pkgs="zarith,coq-core.kernel",
    ocaml_flags="-rectypes -thread",
    model_units=["c10", "avt"],
    axioms=_AX,
    uses_gen=False,
    rule='panic search on the real code: try_from_banks, timestamp(), avalanches(), vertex() under catch_unwind, observation ok / err / panic, the model predicting the class of try_from_banks and never `panic`. Cases: simulated-like multi-track events (response-shaped pulses, noise 0/3/30 counts, straight tracks from a common point so that vertices are found); the same events with packets decoded, changed and RE-ENCODED with valid CRCs and baselines: samples at i16::MIN/MAX in 7 patterns (all, after the delay only, sparse, alternating, ...), requested_samples 0/1/2/511/65535, suppression with keep_last at its bounds, 16-byte suppressed packets, waveforms cut at 64 and at delay-1/delay/delay+1, PWB packets with all 79 channels, requested_samples 0/1/delay+-1/511, only Fpn/Reset channels, header fields at their maxima, 1/2/3/7 chunks, TRG counters at 0 and 2^32-1; duplicated/missing/foreign banks (22 inconsistency classes); the single-check-decides cases of C10; random names (ASCII and multi-byte) and bytes. non-trivial = more than one bank or not rejected',
    trusted=_TRUSTED,
    level_text='Coq theorems over the assembly model: try_from_banks never panics (board_id().unwrap_or, wire_signals[i] with i from the wire map, pad indices, waveform_at(..).unwrap() on a sent channel, the i32-widened baseline subtraction), and builds with and without overflow checks behave identically; for all bank lists and oracles with values in the ranges the Rust types impose; no bound. avalanches()/vertex() are NOT covered by these theorems (C13, C14, C17 model them; NaN-freedom of the float kernels is not proved anywhere): for them C09 is the panic search only.',
    level_note='proved: totality of the assembly over decoded banks (decoder totality is C01). Not a proof: absence of panics in avalanches() and vertex() - exercised by the panic search on realistic and extreme events. Trusted as for C10.',
    note='a `panic` observation is a bank list that unwinds the real library; an ok/err difference is a departure from the model proved total',
)
