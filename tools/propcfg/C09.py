"""Configuration of the C09 check (loaded by tools/props.py)."""
_TRUSTED = [
    "tools/genx_crosstalk.py (the matrix a_matrix(n) is taken from the IMPLEMENTATION through the hook "
    "verif::crosstalk_matrix for n = 1..16, 64, 255, 256, checked to be the band Toeplitz matrix of five factors the "
    "theorem is about, factors written as exact rationals of the binary64 numbers; other block lengths assumed to follow "
    "the same rule)",
    "standard-library real-number axioms (sig_forall_dec, sig_not_dec, classic, functional_extensionality_dep): only the "
    "cross-talk matrix theorems",
    "hand-written Gallina model of MainEvent::try_from_banks over DECODED banks (coq/Event/Event.v), tied to "
    "physics/src/lib.rs by the differential run (not by translation); the decoders, bank-name parser, maps and "
    "reassembly enter as oracles and are the subject of C02-C06, C08",
    "oracle tables of the differential: the harness logs, through the detector crate's public API and the "
    "alpha_g_physics::verif calibration hooks, the decoded view of each bank, wire/pad positions, calibration triples "
    "and reassembled packets of the same case; a question of the model that was not logged is a model-exception "
    "(counted as a difference)",
    "hypotheses of the theorems guaranteed by Rust types / other properties, not re-proved here: samples and "
    "baselines are i16, TpcWirePosition < 256, TpcPadPosition < (32, 576), channels_sent has no repetition "
    "(env_typed, banks_typed); the run's wire map is one-to-one (wire_pos_injective, C08)",
    "binary64 arithmetic of the extracted model: Coq primitive floats (ExtrOCamlFloats/ExtrOCamlInt63, coq-core "
    "kernel Float64/Uint63); the theorems are parametric in the sample type and the multiplication",
    "rustc/LLVM/std semantics of indexing, Option/Result, i16->i32 widening as encoded in the model primitives",
]
# kernel primitives and FloatAxioms reported by Print Assumptions for the binary64 theorems (same family as C17)
_PRIM = ['float', 'add', 'sub', 'mul', 'div', 'abs', 'ltb', 'leb', 'eqb', 'compare', 'normfr_mantissa', 'frshiftexp',
         'int', 'lsr', 'land']
_SPEC = ['add_spec', 'sub_spec', 'mul_spec', 'div_spec', 'ltb_spec', 'leb_spec', 'eqb_spec', 'compare_spec']
_AX = (_PRIM + ['PrimFloat.' + p for p in _PRIM] + ['PrimInt63.' + p for p in _PRIM] + ['Uint63.' + p for p in _PRIM]
       + _SPEC + ['FloatAxioms.' + a for a in _SPEC]
       # the axioms of the standard library's real numbers (only the cross-talk matrix theorems use them)
       + ['ClassicalDedekindReals.sig_forall_dec', 'ClassicalDedekindReals.sig_not_dec', 'Classical_Prop.classic',
          'FunctionalExtensionality.functional_extensionality_dep'])
CFG = dict(
    harness="phys",
    model="c10",
    ocaml_pkgs="zarith,coq-core.kernel",
    ocaml_flags="-rectypes -thread",
    model_units=["c10", "avt"],
    axioms=_AX,
    uses_gen=False,
    rule='panic search on the real code: try_from_banks, timestamp(), avalanches(), vertex() under catch_unwind, observation ok / err / panic, the model predicting the class of try_from_banks and never `panic`. Cases: simulated-like multi-track events (response-shaped pulses, noise 0/3/30 counts, straight tracks from a common point so that vertices are found); the same events with packets decoded, changed and RE-ENCODED with valid CRCs and baselines: samples at i16::MIN/MAX in 7 patterns (all, after the delay only, sparse, alternating, ...), requested_samples 0/1/2/511/65535, suppression with keep_last at its bounds, 16-byte suppressed packets, waveforms cut at 64 and at delay-1/delay/delay+1, PWB packets with all 79 channels, requested_samples 0/1/delay+-1/511, only Fpn/Reset channels, header fields at their maxima, 1/2/3/7 chunks, TRG counters at 0 and 2^32-1; duplicated/missing/foreign banks (22 inconsistency classes); the single-check-decides cases of C10; random names (ASCII and multi-byte) and bytes. non-trivial = more than one bank or not rejected',
    trusted=_TRUSTED,
    level_text="Coq theorems. (1) END-TO-END: for every run number and every list of RAW (bank name bytes, data bytes) pairs, the composed model of try_from_banks (name parsers of C08, decoders of C02/C03/C04/C05/C06, maps and calibration tables regenerated from the source, assembly logic of lib.rs) never reaches Panic, and builds with and without overflow checks agree (C09_e2e_build_total, C09_e2e_build_no_wrap; the typing hypotheses of the assembly theorems are discharged from the decoder theorems). (2) avalanches(): a panic-aware line-by-line model (contiguous_ranges, problem_dimensions, y_matrix, wire_range_deconvolution, hit extraction, both sorts, pairing) returns for EVERY content of the 256 wire and 32x576 pad slots, all binary64 values included - NaNs never become hits and the deconvolved inputs are finite by C17 - under two named hypotheses: the shape of faer's Cholesky solve (faer_shape; its internal unwrap is assumed - the matrix it factorises is PROVED symmetric positive definite over the reals for the regenerated NEIGHBOR_FACTORS and every block length, x^T A x >= margin |x|^2 with margin = a0 - 2(|a1|+..+|a4|) > 0, 0.6396 today (C09_crosstalk_matrix_positive_definite), and the binary64 factorisation is run on the implementation for all 256 block lengths, which is exhaustive for this matrix family) and negativity of the response windows (measured: rel17table). timestamp() is a field read. (3) vertex(): PARTIAL (C09_vertex_total_partial) - the wrapper adds no panic site; with the stages of C15/C14 and the optimiser as an interaction tree that receives the cost function, vertex() returns provided the hypotheses of C14 in their evaluated-vector forms, asked only of the clusters and the track list THIS avalanche list leads to: the unproved numeric gaps (N3e)/(V3e) the cost functions return a non-NaN number on the vectors the optimiser actually asks (the asserts at track_fitting.rs:265 / vertex_fitting.rs:231 do not fire; false on the class of the open finding F9), (N4e)/(V4e) argmin's tree is well formed for dimension 6 / 3, and (Z1) SpacePoint::try_from does not panic on any avalanche (NaN-freedom of the centroid z); plus the facts (N2), (V1), (V2bc), (V5) about the event's radii / tracks being NaN-free, the IEEE law (N1), C15's no-repeated-bin, a permutation sort and a symmetric, transitive track equality. The former all-vectors hypotheses (N3)/(V3), which no binary64 kernel satisfies, are gone (the lemmas carrying them were removed from Fit_proofs.v). The premise set is shown jointly satisfiable by a binary64 instance with the real cost kernels (C09_vertex_premises_satisfiable; toy parts listed in coq/Signal/VertexInst.v).",
    level_note="proved: totality of the whole event build from raw bytes; totality of avalanches() modulo faer_shape and the table fact. Not proved: vertex() beyond its control skeleton (the gaps N3e/N4e/V3e/V4e and Z1 of C09_vertex_total_partial) - exercised by the panic search on realistic and extreme events. The end-to-end model is tied to the code by the differential run of check C10 (raw-bank cases), the avalanches model by the `av` cases (unit avt). Trusted as for C10; plus the mapping of a component Panic to a decode error in the environment record (backed by C09_e2e_components_never_panic, C09_e2e_map_arguments_in_range).",
    note='a `panic` observation is a bank list that unwinds the real library; an ok/err difference is a departure from the model proved total',
)

# the pinned theorems depend on regenerated tables (coq/Gen): a failing translator is a broken tie
CFG["uses_gen"] = True

# a run with fewer cases than half of what the quick tier generates today would be a (partly) vacuous differential
CFG["min_cases"] = 1987

# the cross-talk matrix theorems are about coq/Gen/CrossTalk.v
CFG["needs_gen"] = ["crosstalk"]
