"""Configuration of the C14 check (loaded by tools/props.py)."""
# axioms: the four standard axioms of the classical reals (theorems over R, Flocq) and, for the binary64 range
# theorems, the standard library's FloatAxioms; Print Assumptions also lists the kernel primitives PrimFloat.* /
# PrimInt63.* (registered primitives, not logical axioms) — they are named here because the driver compares names.
CFG = {
    'harness': 'phys',
    'model': 'c16',
    'ocaml_pkgs': 'zarith,coq-core.kernel',
    'ocaml_flags': '-rectypes -thread',
    'axioms': ['ClassicalDedekindReals.sig_forall_dec',
               'ClassicalDedekindReals.sig_not_dec',
               'Classical_Prop.classic',
               'FunctionalExtensionality.functional_extensionality_dep',
               'FloatAxioms.Prim2SF_SF2Prim',
               'FloatAxioms.Prim2SF_valid',
               'FloatAxioms.SF2Prim_Prim2SF',
               'FloatAxioms.add_spec',
               'FloatAxioms.div_spec',
               'FloatAxioms.eqb_spec',
               'FloatAxioms.leb_spec',
               'FloatAxioms.ltb_spec',
               'FloatAxioms.mul_spec',
               'FloatAxioms.sub_spec',
               'FloatAxioms.opp_spec',
               'FloatAxioms.abs_spec',
               'FloatAxioms.compare_spec',
               'Prim2SF_SF2Prim',
               'Prim2SF_valid',
               'SF2Prim_Prim2SF',
               'add_spec',
               'div_spec',
               'eqb_spec',
               'leb_spec',
               'ltb_spec',
               'mul_spec',
               'sub_spec',
               'opp_spec',
               'abs_spec',
               'compare_spec',
               'PrimFloat.abs',
               'PrimFloat.add',
               'PrimFloat.div',
               'PrimFloat.eqb',
               'PrimFloat.float',
               'PrimFloat.frshiftexp',
               'PrimFloat.ldshiftexp',
               'PrimFloat.leb',
               'PrimFloat.ltb',
               'PrimFloat.mul',
               'PrimFloat.normfr_mantissa',
               'PrimFloat.of_uint63',
               'PrimFloat.opp',
               'PrimFloat.sub',
               'PrimFloat.sqrt',
               'PrimFloat.compare',
               'PrimFloat.classify',
               'abs',
               'add',
               'div',
               'eqb',
               'float',
               'frshiftexp',
               'ldshiftexp',
               'leb',
               'ltb',
               'mul',
               'normfr_mantissa',
               'of_uint63',
               'opp',
               'sub',
               'sqrt',
               'compare',
               'classify',
               'PrimInt63.eqb',
               'PrimInt63.int',
               'PrimInt63.land',
               'PrimInt63.lor',
               'PrimInt63.lsl',
               'PrimInt63.lsr',
               'PrimInt63.sub',
               'PrimInt63.add',
               'PrimInt63.mul',
               'PrimInt63.ltb',
               'PrimInt63.leb',
               'PrimInt63.lxor',
               'PrimInt63.mod',
               'PrimInt63.div',
               'PrimInt63.head0',
               'PrimInt63.tail0',
               'PrimInt63.compare'],
    'uses_gen': False,
    'rule': 'adversarial panic / finiteness search on the real code under catch_unwind. Point sets of 0..=2000 points '
            '(quick <= 300), r in [0.05, 0.25] m, any phi, |z| <= 1.3 m, families: helices (pitch 0, subnormal, '
            '+-1e-17..+-1e2, the EPSILON guard +-1 ulp), exactly collinear (radial lines at phi in {0, pi, pi/2, ..}) and '
            'nearly collinear (general lines through cartesian->cylindrical rounding), repeated points, equal radii, '
            'vertical lines, circles through the origin, dyadic grids (cylindrical and cartesian), uniform noise, 1-4 '
            'tracks + noise; one perturbation scale per case from {0, 1e-18..1e-2}. rel14p: cluster_spacepoints -> '
            'Track::try_from per cluster -> find_vertices; rel14f: Track::try_from(Cluster::verif_from_points) on '
            'cluster-sized sets (>= 3 points); rel14v: find_vertices on 0..=8 tracks from Track::verif_from_params with '
            'ties (identical tracks, equal z0, equal radii). fit3: differential of the NoInitialParameters decision '
            'against the extracted binary64 model of three_template_points. non-trivial = the stage under test is reached',
    'trusted': ['hand-written Gallina control skeleton of fit_cluster_to_helix / three_template_points / find_vertices / '
                'beamline_clusters (coq/Recon/Fit.v); tie to /repo: differential of the NoInitialParameters decision '
                '(fit3 lines) and the panic search',
                'NOT PROVED (named gaps, hypotheses N3, N4, V3, V4 of the theorems): NaN-freedom of closest_t / Helix::at '
                'in binary64 and the behaviour of argmin\'s Nelder-Mead; monitored by the rel14* lines (a test)',
                'std slice::sort_unstable_by returns a permutation; itertools minmax_by_key / max_set_by_key, '
                'Iterator::min_by / max_by / position, Vec::swap_remove as modelled in coq/Recon/Fit.v',
                'glibc libm (called from OCaml in the model runner and from Rust in the implementation)'],
    'level_text': 'PARTIAL: proof of the control skeleton, conditional on named numeric hypotheses. Proved: no unwrap / '
                  'assert / partial_cmp().unwrap() / index / position().unwrap() of the fit and of vertex finding can fail, '
                  'and NoInitialParameters is the only error, provided radii and z values are not NaN, the cost oracles '
                  'never yield NaN and the optimiser returns a parameter vector; t_inner / t_outer are values of closest_t, '
                  'hence NaN or in [-pi, pi] (C16). Not proved: the numeric hypotheses themselves (binary64 Newton '
                  'iteration through glibc, argmin Nelder-Mead); they are monitored by an adversarial search on the '
                  'implementation (a test).',
    'level_note': 'trusted: Coq kernel; hand-written skeleton; the named numeric hypotheses; harness and driver',
    'note': 'rel14* lines: implementation-only oracle (holds / fails <detail>), the model runner answers `holds`; a `fails` '
            'line is an input of the quantified domain on which the implementation panics or returns non-finite geometry. '
            'fit3 lines: model and implementation must agree on noinit / track. OPEN FINDING tinyphi (rel14kf-tinyphi-*, '
            'corpus/C14/tinyphi.case): Track::try_from panics (found NaN in track_fitting::cost_function) on clusters straight to '
            'better than ~1e-150 m but not exactly collinear; Coq side: Fit.tinyphi_class, C14_tinyphi_known_witness',
}
