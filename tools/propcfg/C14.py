"""Configuration of the C14 check (loaded by tools/props.py)."""
# axioms: the four standard axioms of the classical reals (theorems over R, Flocq) and, for the binary64 range
# theorems, the standard library's FloatAxioms; Print Assumptions also lists the kernel primitives PrimFloat.* /
# PrimInt63.* (registered primitives, not logical axioms) — they are named here because the driver compares names.
CFG = {
    'harness': 'phys',
    'model': 'c16',
    'ocaml_pkgs': 'zarith,coq-core.kernel',
    'ocaml_flags': '-rectypes -thread',
    'axioms': ['ClassicalDedekindReals.sig_forall_dec',
               'ClassicalDedekindReals.sig_not_dec',
               'Classical_Prop.classic',
               'FunctionalExtensionality.functional_extensionality_dep',
               'FloatAxioms.Prim2SF_SF2Prim',
               'FloatAxioms.Prim2SF_valid',
               'FloatAxioms.SF2Prim_Prim2SF',
               'FloatAxioms.add_spec',
               'FloatAxioms.div_spec',
               'FloatAxioms.eqb_spec',
               'FloatAxioms.leb_spec',
               'FloatAxioms.ltb_spec',
               'FloatAxioms.mul_spec',
               'FloatAxioms.sub_spec',
               'FloatAxioms.opp_spec',
               'FloatAxioms.abs_spec',
               'FloatAxioms.compare_spec',
               'Prim2SF_SF2Prim',
               'Prim2SF_valid',
               'SF2Prim_Prim2SF',
               'add_spec',
               'div_spec',
               'eqb_spec',
               'leb_spec',
               'ltb_spec',
               'mul_spec',
               'sub_spec',
               'opp_spec',
               'abs_spec',
               'compare_spec',
               'PrimFloat.abs',
               'PrimFloat.add',
               'PrimFloat.div',
               'PrimFloat.eqb',
               'PrimFloat.float',
               'PrimFloat.frshiftexp',
               'PrimFloat.ldshiftexp',
               'PrimFloat.leb',
               'PrimFloat.ltb',
               'PrimFloat.mul',
               'PrimFloat.normfr_mantissa',
               'PrimFloat.of_uint63',
               'PrimFloat.opp',
               'PrimFloat.sub',
               'PrimFloat.sqrt',
               'PrimFloat.compare',
               'PrimFloat.classify',
               'abs',
               'add',
               'div',
               'eqb',
               'float',
               'frshiftexp',
               'ldshiftexp',
               'leb',
               'ltb',
               'mul',
               'normfr_mantissa',
               'of_uint63',
               'opp',
               'sub',
               'sqrt',
               'compare',
               'classify',
               'PrimInt63.eqb',
               'PrimInt63.int',
               'PrimInt63.land',
               'PrimInt63.lor',
               'PrimInt63.lsl',
               'PrimInt63.lsr',
               'PrimInt63.sub',
               'PrimInt63.add',
               'PrimInt63.mul',
               'PrimInt63.ltb',
               'PrimInt63.leb',
               'PrimInt63.lxor',
               'PrimInt63.mod',
               'PrimInt63.div',
               'PrimInt63.head0',
               'PrimInt63.tail0',
               'PrimInt63.compare'],
    'uses_gen': False,
    'rule': 'adversarial panic / finiteness search on the real code under catch_unwind (the observation of a panic names its '
            'message and source location: `fails panic:<message> @<file>:<line>`). Point sets of 0..=2000 points '
            '(quick <= 300), r in [0.05, 0.25] m, any phi, |z| <= 1.3 m, families: helices (pitch 0, subnormal, '
            '+-1e-17..+-1e2, the EPSILON guard +-1 ulp), exactly collinear (radial lines at phi in {0, pi, pi/2, ..}) and '
            'nearly collinear (general lines through cartesian->cylindrical rounding), repeated points, equal radii, '
            'vertical lines, circles through the origin, dyadic grids (cylindrical and cartesian), uniform noise, 1-4 '
            'tracks + noise; one perturbation scale per case from {0, 1e-18..1e-2}; near-collinear radial sets with an '
            'angular scatter log-uniform over the WHOLE range 1e-300..1e-19 rad (phi0 = 0 or tiny; z equal / 1e-300 steps / '
            'real steps; 3..24 points) and a boundary guard with template circle radius 1e129..1e136 m that must hold. '
            'rel14p: cluster_spacepoints -> Track::try_from per cluster -> find_vertices; rel14f: '
            'Track::try_from(Cluster::verif_from_points) on cluster-sized sets (>= 3 points); rel14v: find_vertices on 0..=8 '
            'tracks from Track::verif_from_params with ties (identical tracks, equal z0, equal radii). Every rel14p / rel14f '
            'point set, whatever family produced it, is tagged rel14kf-tinyphi-* iff the checked recogniser '
            'c14::tinyphi_class accepts it (template points not collinear in the sense of the code and circle through them of '
            'radius >= 1e136 m); on replay a line claiming the tag for a set outside the class is answered `fails '
            'not-in-class-tinyphi`. fit3: differential of the NoInitialParameters decision against the extracted binary64 '
            'model of three_template_points; cls14: differential of the recogniser against Fit.tinyphi_class. '
            'non-trivial = the stage under test is reached',
    'trusted': ['hand-written Gallina control skeleton of fit_cluster_to_helix / three_template_points / Problem::cost '
                '(coq/Recon/Fit.v); tie to /repo: differential of the NoInitialParameters decision (fit3 lines: the '
                'template-point selection and the collinearity test, i.e. every panicking construct of three_template_points) '
                'and the panic search; the asserts and unwraps after it (:102-124, :265) are tied by the panic search only',
                'the find_vertices / beamline_clusters / vertex-cost skeleton of coq/Recon/Fit.v has NO differential tie of its '
                'own. The same source lines (vertex_fitting.rs:12-181: the two filters, sort, the clustering loop, '
                'max_set_by_key, max_by, position/swap_remove remainder) are modelled a second time in coq/Recon/Vertex.v, '
                'and THAT model is tied to /repo by the `c15v` differential of C15 (clusters, primary tracks and remainder '
                'compared exactly; C15_vertex_partition, C15_primary_two_tracks). The two transcriptions are not proved '
                'equivalent in Coq: C14_vertex_skeleton_total is a theorem about the Fit.v transcription (line numbers in its '
                'comments), cross-checked against the C15-tied one by reading, and monitored by the rel14v panic search',
                'NOT PROVED (named gaps, hypotheses N3e, N4e, V3e, V4e of the theorems): that the cost functions return a '
                'non-NaN number on the parameter vectors argmin passes to them (NaN-freedom of closest_t / Helix::at in '
                'binary64 along the optimiser\'s path) and that argmin 0.8.1\'s Nelder-Mead is well formed on non-NaN costs '
                '(asks vectors of the simplex dimension, does not fail by itself, best_param is a vector it evaluated: read '
                'from its source, not modelled); monitored by the rel14* lines (a test)',
                'std slice::sort_unstable_by returns a permutation; itertools minmax_by_key / max_set_by_key, '
                'Iterator::min_by / max_by / position, Vec::swap_remove as modelled in coq/Recon/Fit.v',
                'glibc libm (called from OCaml in the model runner and from Rust in the implementation)'],
    'level_text': 'PARTIAL: proof of the control skeleton, conditional on named hypotheses stated relative to the parameter '
                  'vectors the optimiser actually evaluates. The optimiser is modelled as a procedure that receives the cost '
                  'function (an interaction tree Ask/Done/Crash, universally quantified); ASSUMED, exactly: (N1) partial_cmp of '
                  'non-NaN numbers is Some and (N2) |p.r - mid| is not NaN (both PROVED for binary64 with finite radii <= 1 m); '
                  '(N3e) on every vector the optimiser asks for this cluster from this cluster\'s initial simplex the cost '
                  'function returns a non-NaN number, i.e. its assert!(!val.is_nan()) does not fire during this fit; (N4e) on '
                  'that simplex argmin is well formed: while the answers are non-NaN it asks vectors of dimension 6 (3 for the '
                  'vertex), does not fail by itself and best_param is a vector it asked; sort_unstable_by permutes; the input '
                  'tracks of find_vertices have no NaN field. PROVED from these: no unwrap / assert / partial_cmp().unwrap() / '
                  'index / position().unwrap() of the fit and of vertex finding can fail and NoInitialParameters is the only '
                  'error; with NO numeric hypothesis: t_inner / t_outer of a returned track are values of closest_t, hence NaN '
                  'or in [-pi, pi] (C16), and not NaN when best_param was evaluated. The hypotheses are satisfied by a binary64 '
                  'instance with the real cost kernel of coq/Recon/Helix.v (C14_fit_instance_binary64). NOT proved: (N3e), '
                  '(N4e) themselves and finiteness of the returned parameters; they are monitored by an adversarial search on '
                  'the implementation (a test), which finds them false on the class of the open finding F9.',
    'level_note': 'trusted: Coq kernel; hand-written skeleton; the named hypotheses (N3e), (N4e), (V3e), (V4e) exactly as '
                  'written in coq/Props/C14.v; harness and driver. The earlier form of the hypotheses ("the cost kernel is not '
                  'NaN for EVERY parameter vector") was unsatisfiable by any binary64 kernel; the lemmas that carried it '
                  '(Fit_proofs.fit_skeleton_total_lemma / vertex_skeleton_total_lemma) have been removed, C09 uses the '
                  'evaluated-vector lemmas too. '
                  'The vertex skeleton has no differential of its own (see trusted)',
    'note': 'rel14* lines: implementation-only oracle (holds / fails <detail>), the model runner answers `holds`; a `fails` '
            'line is an input of the quantified domain on which the implementation panics or returns non-finite geometry. '
            'fit3 / cls14 lines: model and implementation must agree. OPEN FINDING tinyphi, F9 (rel14kf-tinyphi-*, '
            'corpus/C14/tinyphi.case): Track::try_from panics (found NaN in track_fitting::cost_function, '
            'track_fitting.rs:265) when the circle through the three template points has radius >= ~1e138 m (equal z; '
            '>= ~1e153 m for unequal z) and the points are not exactly collinear in the sense of the code; class recogniser: '
            'radius >= 1e136 m (c14::tinyphi_class = Fit.tinyphi_class); measured failing region in the comment at '
            'c14::R_CLASS; Coq side: C14_tinyphi_known_witness',
}

# a run with fewer cases than half of what the quick tier generates today would be a (partly) vacuous differential
CFG["min_cases"] = 6156
