"""Configuration of the C10 check (loaded by tools/props.py)."""
_TRUSTED = [
    "hand-written Gallina model of MainEvent::try_from_banks over DECODED banks (coq/Event/Event.v), tied to "
    "physics/src/lib.rs by the differential run (not by translation); the decoders, bank-name parser, maps and "
    "reassembly enter as oracles and are the subject of C02-C06, C08",
    "oracle tables of the differential: the harness logs, through the detector crate's public API and the "
    "alpha_g_physics::verif calibration hooks, the decoded view of each bank, wire/pad positions, calibration triples "
    "and reassembled packets of the same case; a question of the model that was not logged is a model-exception "
    "(counted as a difference)",
    "hypotheses of the theorems guaranteed by Rust types / other properties, not re-proved here: samples and "
    "baselines are i16, TpcWirePosition < 256, TpcPadPosition < (32, 576), channels_sent has no repetition "
    "(env_typed, banks_typed); the run's wire map is one-to-one (wire_pos_injective, C08)",
    "binary64 arithmetic of the extracted model: Coq primitive floats (ExtrOCamlFloats/ExtrOCamlInt63, coq-core "
    "kernel Float64/Uint63); the theorems are parametric in the sample type and the multiplication",
    "rustc/LLVM/std semantics of indexing, Option/Result, i16->i32 widening as encoded in the model primitives",
]
CFG = dict(
    harness="phys",
    model="c10",
    ocaml_pkgs="zarith,coq-core.kernel",
    ocaml_flags="-rectypes -thread",
    axioms=[],
    uses_gen=False,
    rule="real banks (valid CRCs and baselines) built from the documented ADC v3 / PWB chunk + v2 payload / TRG v3 "
         "layouts, REAL MainEvent::try_from_banks on them, observation = outcome, timestamp and every occupied wire/pad "
         "slot (length, FNV-64 of all sample bit patterns, first four samples) vs the extracted model on the decoded "
         "view. Generators: sweeps of all 32 channels of every Alpha16 board and all 79 readout channels of (board, "
         "chip) pairs over the run classes {2^32-1, 4418, 7026, 9277, 10418, 11084, 11186, 11192, 12000} and every "
         "literal of the map/calibration match arms +-1; per check of try_from_banks a case on an otherwise accepted "
         "event where ONLY that check decides (board-only / channel-only mismatch, BV channel long and 16-byte, "
         "duplicate names in all 9 combinations of suppressed / empty-after-delay / with-signal in both orders, "
         "lengths delay-1, delay, delay+1, +2, i16::MIN/MAX samples over baselines of both signs, Fpn/Reset beside pad "
         "channels, two chunk groups colliding on a pad in all empty/non-empty combinations and both orders, chunk "
         "order, missing/duplicated chunk, TRG missing/duplicated/malformed, board not installed); consistent random "
         "events; 22 classes of single inconsistencies on accepted events; random names and bytes. non-trivial = "
         "more than one bank or not rejected; distinct = distinct case lines",
    trusted=_TRUSTED,
    level_text="Coq theorems over a model of the assembly logic of MainEvent::try_from_banks: an accepted build meets a "
               "declarative specification (every name known; each wire/pad waveform on the element its (board, "
               "channel) / (board, chip, channel) maps to, as (raw - baseline) x gain after the delay; other slots "
               "empty; timestamp = the TRG bank's), the build succeeds exactly on the bank lists the specification "
               "admits (iff, given a one-to-one wire map), the specification determines the event, and 17 rejection "
               "theorems, one per cause named in the property; for all bank lists, oracles, sample types; no bound.",
    level_note="trusted: Coq kernel; the model is of the assembly over decoded banks (decoders/maps are oracles, proved "
               "elsewhere: C02-C06, C08); tie = differential run of the real try_from_banks on real bytes against the "
               "extracted model fed with the decoded view logged from the same case; extraction incl. primitive "
               "floats; harness and driver",
    note="a difference means the real assembly departs from the proved model on that bank list: which checks run, in "
         "which order, which slot a waveform lands in, or the calibration arithmetic",
)
