"""Configuration of the C20 check (loaded by tools/props.py)."""
CFG = {'harness': 'apps',
 'model': 'c20',
 'axioms': [],
 'uses_gen': False,
 'rule': 'TODO',
 'trusted': [],
 'level_text': 'TODO',
 'level_note': 'TODO',
 'note': 'exit status and CSV rows (board, channel, edge, ticks) of the real binary and of the proved model must agree'}
