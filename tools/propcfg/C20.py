"""Configuration of the C20 check (loaded by tools/props.py)."""
CFG = {'harness': 'apps',
 'model': 'c20',
 'axioms': [],
 'uses_gen': False,
 'rule': 'the REAL binary alpha-g-chronobox-timestamps (built from the current tree) is run on MIDAS files written by the '
         'harness. hardware-model streams (markers 0,1,2,… at every half wrap, edges within +-3 ticks of both markers '
         'of their window, displaced across either marker up to the extreme 2^23 ticks, mid-window, scaler blocks '
         'interleaved, edges before marker 0 and after the last marker) over 0..=8 wraps x 1..=4 boards (all subsets of '
         'cb01..cb04), each under three cut patterns derived from a seed: every board stream cut into banks (none / '
         'byte cuts / word cuts / around element boundaries / one byte per bank, empty banks kept), banks of different '
         'boards interleaved, grouped into Chronobox events (id 4; 0..6 banks; BANK16/BANK32/BANK32A; BYTE/WORD/DWORD) '
         'with decoy banks (CBF5, CBF0, cbf1, ATAT, …) and decoy events of other ids carrying CBFn banks, spread '
         'over 1..=3 files (.mid or .mid.lz4) of one run with contiguous timestamps, file arguments shuffled. single faults: dropped '
         'marker, duplicated marker, truncated tail (byte level), corrupted word (byte replaced, bit flipped, invalid '
         'top byte). structural cases: no Chronobox bank, empty board, F4 witness (last timestamp of the stream), '
         'no marker, first marker not counter 0, counter 0 later / twice, counter-0 marker with top bit set, equal top '
         'bits, exhausted 23-bit counter, epochs near 2^22, one bad board among good ones; streams from a word '
         'grammar with arbitrary counters/top bits/invalid words on 1..=3 boards. observation = fail (non-zero exit AND '
         'no file created) | ok + rows (board, channel, edge, ticks recovered as round(x*10e6), and the printed text '
         'must be the shortest representation of ticks/10e6). c20hw lines are also evaluated by the event-level '
         'SPECIFICATION hw_program (extracted) which must agree with the program model. rel lines: rel20time = rows '
         'equal the generator\'s truth (true time iff in window and closed by a later marker); rel20some = under '
         'marker faults every non-empty time is still the true time; rel20cut = CSV bodies byte-identical under three '
         'cut patterns. non-trivial = at least one Chronobox bank; distinct = distinct (cut seed, pieces)',
 'trusted': ['hand-written Gallina model Apps/CbTime.v of alpha-g-chronobox-timestamps/main.rs (buffers, skip to the '
             'counter-0 marker, split_inclusive/split_last loops, chronobox_time), tied to the binary by differential '
             'runs (not by translation)',
             'Codec/Chrono.v model of chronobox_fifo (winnow combinators), C07',
             'the hardware FIFO model Apps/CbHardware.v is the documented behaviour the property quantifies over '
             '(24-bit 10 MHz counter, bit 0 = edge flag, marker c at tick (c+1)*2^23 with top bit = c odd, displacement '
             '< 2^23 ticks, 244-byte scaler blocks); it is a premise, not something checked against real hardware',
             'modelled, not verified: midasio 0.5.3 (file/event/bank parsing; exercised through the harness\'s writer), '
             'BTreeMap<String,_> iteration = ascending board number, slice::split_inclusive/split_last/split_off, '
             'Iterator::position, anyhow/clap/indicatif, csv 1.3 + ryu (f64 formatting; checked per row by parsing the '
             'text back), uom f64 quantities with base units (value/value division), u64 -> f64 conversion exact below '
             '2^53 (times are < 2^47 ticks) followed by one correctly rounded division by 10e6',
             'the harness\'s MIDAS writer and cut-pattern generator (harness/apps/src/c20.rs)'],
 'level_text': 'Coq theorems over a line-by-line model of the binary: for ANY input the row loops produce one row per '
               'timestamp entry after the first counter-0 marker, per board in ascending order, in stream order, with '
               'the right channel/edge, never reaching unreachable!(); chronobox_time is non-empty iff the nearest '
               'markers are consecutive and consistent and the top bits differ, with value ts + ((c+1)/2)*2^24; for '
               'streams of the hardware model (displacement < 2^23 ticks stated in hw_wf) cut arbitrarily into banks '
               'the result EQUALS the event-level specification: true time (bit 0 dropped) iff the edge lies in its '
               'window and a later marker closes it, empty otherwise, failure iff a board has no marker; the run '
               'fails (before the CSV is created) iff some present board has a non-empty unparsable remainder / no '
               'counter-0 marker / a first marker with the top bit set; the result depends only on the per-board '
               'concatenation (= resume-protocol parse, C07). Unbounded streams, any number of wraps below 2^23 '
               'markers.',
 'level_note': 'marker-fault clause proved for the hardware model + valid-word damage (see level_extra); trusted: Coq kernel; hand model tied by differential runs against the real binary (exit status, absence of '
               'the CSV on failure, every row and time); hardware model as premise; float printing checked row by row; '
               'extraction; harness',
 'note': 'exit status / absence of CSV and the rows (board, channel, edge, ticks) of the real binary and of the proved '
         'model must agree; hardware-model lines must also agree with the event-level specification'}

CFG["level_extra"] = ('single marker faults (C20_fault_burst_no_wrong_time, C20_single_marker_fault_no_wrong_time, '
                      'C20_spurious_marker_no_wrong_time; fault model Apps/CbFaults.v): ONE contiguous stretch of a well-formed '
                      'hardware stream replaced by an arbitrary sequence of valid 4-byte words - marker dropped, duplicated '
                      '(twice in a row or a copy anywhere), corrupted into any other valid marker word (any counter, any top '
                      'bit) or into a valid timestamp word, an edge word turned into a marker - under any cutting into banks: '
                      'the run fails as a whole, or the rows correspond one to one to the timestamp words after the first '
                      'counter-0 marker and EVERY SURVIVING EDGE has an empty time or its true time, never another value '
                      '(PROVED, no longer only measured by rel20some); also with arbitrary other boards in the run, for the rows of the '
                      'faulted board (C20_fault_burst_among_boards_no_wrong_time). NOT covered by a theorem: a word '
                      'corrupted into the scaler-block tag 0xFE00003C (swallows the next 240 bytes) and corruptions that leave an '
                      'invalid word are failure/resynchronisation cases (failure theorems + differential); the clause is about ONE '
                      'fault: two corrupted markers on either side of an edge DO give a wrong time '
                      '(Example C20_two_faults_wrong_time, reproduced on the real binary, corpus/C20/marker_faults.case line 1).')

# a run with fewer cases than half of what the quick tier generates today would be a (partly) vacuous differential
CFG["min_cases"] = 217
