"""Configuration of the C03 check (loaded by tools/props.py)."""
CFG = {'harness': 'det',
 'model': 'c03',
 'axioms': [],
 'uses_gen': True,
 'rule': 'valid-chunk builder (CRC words computed with the crc32c crate) over all 71 device ids, chips, flags, payload '
         'lengths 1..64, 1021..1027, 65535 (65532..65535 thorough), accepted chunks with every single bit of the length '
         'field set; every header field at boundary values and 2^k, 2^k+-1 with CRCs recomputed; all 256 chip and flag '
         'bytes; neighbours of every device id; declared length N against N-4..N+7 following bytes and the window '
         'len-30..len-22 on fixed slices with zero/nonzero fill; nonzero padding with fresh and stale CRC; cuts and '
         'extensions to every length; two chunks back to back; 16 wrong CRC conventions; for accepted chunks every '
         'single-bit flip (all positions of small chunks; all header/CRC/padding bits + strided for large), pairs and '
         'triples biased to same word / header x payload / data x CRC word, bursts of every length 1..32 at edge, '
         'straddling and random offsets in both bit orders and at every offset of one chunk, byte and word changes; '
         'random bytes; bitwise CRC model vs crate on zeros, ones, impulses, random and long inputs. non-trivial = '
         'length >= 28 and a multiple of 4 (passes the first guards); distinct = distinct input bytes',
 'trusted': ['hand-written Gallina model of the decoder, tied to detector/src by differential runs (not by '
             'translation)',
             'rustc/LLVM/std slice and integer semantics as encoded in Base/Res.v, Base/Bytes.v (slice/idx/arr panic '
             "exactly when Rust's do)",
             'crc32c crate 0.6.4 is modelled (bitwise reflected CRC-32C, polynomial 0x82F63B78, init 0xFFFFFFFF), not '
             'verified: tied by direct comparison on every run (c3crc cases)',
             'tools/gen.py translator (PADWING_BOARDS device ids regenerated into coq/Gen/Boards.v each run)'],
 'level_text': 'Coq theorems over a line-by-line, panic-aware model of Chunk::try_from (any device table, both overflow '
               'modes): accepted iff field ranges hold and the bytes equal the documented layout with both CRC words as '
               'computed by the encoder; acceptance conditions of the property text read off the bytes; CRC accessors '
               'recompute the stored words; never a panic; checked = wrapping. CRC-32C register: linear over xor for '
               'bit strings of any length, closed form, syndrome = xor of L^k(1); Hamming distance >= 4 for codewords up '
               'to 524352 bits (finite table by vm_compute, bound in the statement); every non-empty error inside 32 '
               'consecutive serial bits has non-zero syndrome (algebraic, any length). Hence every 1..3-bit change and '
               'every <=32-bit serial burst of an accepted chunk is rejected; the chunk size bound (65560 bytes) is '
               'derived from the u16 length field, not assumed. In the MSB-first bit numbering every burst of <=31 '
               'bits is rejected (inverse register step + finite check of 255 x 8 candidates), and the claim for '
               'exactly 32 bits is refuted by a proved witness (accepted chunk, 32 contiguous MSB-first payload bits '
               'changed, accepted again).',
 'level_note': 'trusted: Coq kernel + VM; hand model tied by differential run (10 accessors + payload compared); crc32c '
               'crate modelled and compared directly; extraction; harness. The burst-32 theorem is in serial '
               '(LSB-first) bit order; in MSB-first order 31 is proved and 32 refuted (witness cases '
               'burst-msb-first-generator-multiple are accepted by model and implementation alike)',
 'note': 'model = spec by C03_chunk_exact, so a difference is an input on which the implementation departs from the '
         'documented chunk layout or CRC rule'}

# translator plugins this property needs besides the board tables of tools/gen.py (none)
CFG["gen_plugins"] = []

# a run with fewer cases than half of what the quick tier generates today would be a (partly) vacuous differential
CFG["min_cases"] = 6467
