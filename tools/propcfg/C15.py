"""Configuration of the C15 check (loaded by tools/props.py)."""
CFG = dict(
    harness="phys",
    model="c15",
    axioms=[],
    uses_gen=False,
    rule="to be filled",
    trusted=["hand-written Gallina model of cluster_spacepoints / largest_cluster / find_vertices bookkeeping"],
    level_text="to be filled",
    level_note="to be filled",
    note="to be filled",
)
