"""Configuration of the C15 check (loaded by tools/props.py)."""
CFG = dict(
    harness="phys",
    model="c15",
    axioms=[],
    uses_gen=False,
    ocaml_pkgs="zarith,unix",
    rule=(
        "clustering: point clouds of 0..=300 points (quick) / up to 2000 (thorough) from one SplitMix64 stream: "
        "uniform clouds in (and beyond) the drift volume r in [0.1092, 0.182] m, dense blobs, 1-4 helical tracks "
        "through the origin region (11..27 points around the minimum of 13, back-to-back partners, same x-y at "
        "another z, radial gaps) plus noise, detector-granularity quantisation (exact ties), exact duplicates of "
        "points, signed zeros (==-equal, bit-different points), three input orders. Per cloud one `c15` line "
        "(real cluster_spacepoints vs model replay with the logged tables: ==-class of every point, get_bins of "
        "every class through verif_hough_bins(p, 250, 230), distance <= 3 cm matrix through SpacePoint::distance; "
        "clusters and remainder compared as class-id lists IN ORDER), one `relc15` line (implementation alone: "
        "multiset conservation, every cluster >= 13 points, union-find connectivity at 3 cm, and the hypotheses of "
        "the theorems on the logged tables: bins of a point pairwise distinct, near symmetric/reflexive, ==-equal "
        "points have equal tables, == reflexive) and one `c15lc` line (real largest_cluster through the hook vs "
        "model); extra `c15lc` dense blobs of 0..=40 points. vertexing: 0..=8 tracks built with "
        "Track::verif_from_params (radius sums that tie, identical tracks, z at the beamline at 0 / +-3.39 / "
        "+-3.41 cm around 1-3 vertex positions, dca at +-5.29 / +-5.31 cm, arc length at 3.5 cm (1 +- 1e-3), "
        "h = +-0, a NaN phase): `c15v` (real find_vertices vs bookkeeping model fed with the logged filters, the "
        "sort order observed through verif_beamline_clusters, the z-chaining relation and the radii) and `relc15v` "
        "(implementation alone: track multiset conservation, primary vertex has >= 2 tracks). non-trivial = at "
        "least one cluster / a primary vertex / more than one point; distinct = distinct case lines"
    ),
    trusted=[
        "hand-written Gallina models Recon/Cluster.v (cluster_spacepoints, best_cluster, HoughSpaceAccumulator "
        "add/remove_unchecked/most_popular, largest_cluster) and Recon/Vertex.v (find_vertices bookkeeping, "
        "beamline_clusters), tied to physics/src/reconstruction by differential runs (not by translation)",
        "modelled, not verified: IndexMap (insertion-ordered keys, entries never removed; represented as key list + "
        "finite map), Vec push/pop/swap_remove/index, Iterator::position/max_by_key/max_by (last maximum), itertools "
        "0.11 max_set_by_key, derived PartialEq of SpacePoint/Track as an equivalence (no NaN coordinate)",
        "oracles logged from the implementation on each case: get_bins (hook verif_hough_bins), distance <= 3 cm "
        "(public API), the two track filters, z at the closest approach to the beamline, the order produced by "
        "sort_unstable_by (hook verif_beamline_clusters); the Nelder-Mead fit is abstracted as a function that "
        "returns (argmin not modelled); radius sums are recomputed in OCaml floats from the logged bit patterns",
        "ocaml/run_c15.ml: parsing of the tables, dense renaming of the (theta, rho) bins (injective; the model and "
        "the theorems are parametric in `bins`)",
    ],
    level_text=(
        "Coq theorems over a line-by-line model of cluster_spacepoints with the geometry abstract: for ANY get_bins "
        "function with pairwise distinct bins per point and ANY distance predicate, any input list (duplicates "
        "included, no size bound), any minimum size >= 1 and fuel > length: the function returns normally (no unwrap "
        "panics, loops end), clusters and remainder are a permutation of the input, every cluster has >= 13 "
        "(min_points) points and is connected under single linkage; the zipper form of the inner flood-fill loop "
        "equals the index loop of the source. For find_vertices' bookkeeping with filters, comparisons, sort (any "
        "rearrangement) and fit abstract: primary tracks and remainder are a permutation of the input tracks, a "
        "primary vertex has >= 2 tracks. The model is tied to the Rust code by a differential run on every check."
    ),
    level_note=(
        "trusted: Coq kernel; hand-written models (tie = differential run of /repo's cluster_spacepoints, "
        "largest_cluster and find_vertices vs the extracted model on generated clouds/track lists, ordered outputs "
        "compared); oracle tables logged through the cfg hooks; extraction (ExtrOcamlBasic); harness and driver"
    ),
    note=(
        "the model replays the algorithm with the tables logged from the implementation on the same case, so an "
        "observation difference is a concrete input on which the implementation's bookkeeping departs from the "
        "model the theorems are about; `rel*` lines evaluate the property on the implementation alone"
    ),
)

CFG["level_extra"] = ('The hypothesis NoDup (bins p) is proved from a line-by-line model of get_bins with the float trigonometry abstract (C15_get_bins_nodup, C15_get_bins_total, C15_cluster_pub_bins) and that model is tied to the implementation by c15bins cases.')

# a run with fewer cases than half of what the quick tier generates today would be a (partly) vacuous differential
CFG["min_cases"] = 5058
