"""Configuration of the C06 check (loaded by tools/props.py)."""
CFG = {'harness': 'det',
 'axioms': [],
 'uses_gen': False,
 'rule': 'structured generator: boundary-biased valid TRG packets; per base packet every reserved bit set '
         'individually, all 16 header/footer marks, low-28 agreements/disagreements, counter orderings/ties at '
         'adjacent values, every word at 6 boundary values, bit flips, byte changes; lengths 0..=200; random 80-byte '
         'strings. non-trivial = input of length 80 (passes the first guard); distinct = distinct input bytes',
 'trusted': ['hand-written Gallina model of the decoder, tied to detector/src by differential runs (not by '
             'translation)',
             'rustc/LLVM/std slice and integer semantics as encoded in Base/Res.v, Base/Bytes.v (slice/idx/arr panic '
             "exactly when Rust's do)"],
 'level_text': 'Coq theorems over a model of TrgV3Packet::try_from: accepted iff field ranges hold and the bytes equal '
               'the documented little-endian encoding of the fields (so reserved bits are zero and re-encoding '
               'reproduces the input), counters ordered, other lengths rejected, never a panic; for all byte lists, no '
               'bound. The model is tied to the Rust code by a differential run on every check.',
 'level_note': "trusted: Coq kernel; hand-written model (tie = differential run of /repo's decoder vs the extracted "
               'model on structured cases, all 18 accessors compared); extraction (ExtrOcamlBasic); harness and driver',
 'note': 'model = spec by C06_trg_exact, so any observation difference between implementation and model is a concrete '
         'input on which the implementation departs from the documented layout',
 'model': 'det'}

# translator plugins this property needs besides the board tables of tools/gen.py (none)
CFG["gen_plugins"] = []

# a run with fewer cases than half of what the quick tier generates today would be a (partly) vacuous differential
CFG["min_cases"] = 8201
