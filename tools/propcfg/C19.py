"""Configuration of the C19 check (loaded by tools/props.py)."""
CFG = dict(
    harness="apps",
    model="c19",
    axioms=[],
    uses_gen=False,
    rule="whole runs through the real binaries: 1..=4 MIDAS files (.mid and .mid.lz4), 0..=60 events each; main events "
         "(valid TRG bank, with ignorable extra banks) interleaved with chronobox, sequencer and unknown event ids; "
         "undecodable main events (TRG bank of wrong length / wrong header mark / reserved word set / missing / "
         "duplicated, unknown bank names) forced at the start, middle and end of files; six timestamp regimes "
         "(dense, half period, random, boundary values, standing still, just short of a period) so that the "
         "cumulative time crosses 2^32 many times; every order of the file arguments; RAYON_NUM_THREADS 1,2,5,16; "
         "refusals: file of another run, duplicate initial timestamp, same file twice, unknown extension, missing "
         "file (gap). non-trivial = the binaries accept the run and it has a main event",
    trusted=[
        "hand-written Gallina model of sort_run_files and of the filter/scan row pipeline of both binaries, tied to "
        "analysis/src by differential runs of the real binaries (not by translation)",
        "abstraction of an event to (id, serial, decoded timestamp + payload | undecodable); midasio file parsing, "
        "lz4, clap, csv writer and f64 printing are exercised by the harness, not modelled",
        "rayon's indexed par_extend keeps the order of the events (assumption of the model; exercised with "
        "RAYON_NUM_THREADS in {1,2,5,16}, which is a test, not a proof)",
        "slice::sort_unstable_by_key is any sorting permutation (Section hypotheses, instantiated by insertion sort)",
    ],
    level_text="Coq theorems over a model of the row pipeline: exactly one row per main event, in file order, with its "
               "serial number, empty fields iff undecodable, none for other event types; difference of the cumulative "
               "ticks of two decodable events = sum of the 32-bit-wrapped differences between consecutive decodable "
               "events (= true elapsed ticks when consecutive decodable events are less than 2^32 ticks apart); "
               "the processing order is the order of the initial timestamps whatever the argument order; different "
               "runs, duplicate initial timestamps and unknown extensions are refused. For all event lists, no bound.",
    level_note="not-a-proof parts: byte-identical output across RAYON_NUM_THREADS is runtime behaviour of rayon "
               "(order preservation of the indexed par_extend is an assumption of the model); it is exercised by the "
               "harness on every case with 1, 2, 5 and 16 threads (relc19t lines). The vertex/scaler columns are "
               "compared with what the library returns in-process (relc19l lines), a test. trusted: Coq kernel; "
               "hand-written model; extraction (ExtrOcamlBasic); harness and driver",
    note="the model reproduces the CSV rows of both binaries from the abstract run description in the case line; a "
         "difference is a concrete run (rebuilt from the case line by `vapps obs`) on which a binary departs from it",
)
