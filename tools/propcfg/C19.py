"""Configuration of the C19 check (loaded by tools/props.py)."""
CFG = dict(
    harness="apps",
    model="c19",
    axioms=[],
    uses_gen=False,
    rule="whole runs through the real binaries: 1..=4 MIDAS files (.mid and .mid.lz4), 0..=60 events each; main events "
         "(valid TRG bank, with ignorable extra banks) interleaved with chronobox, sequencer and unknown event ids; "
         "undecodable main events (TRG bank of wrong length / wrong header mark / reserved word set / missing / "
         "duplicated, unknown bank names) forced at the start, middle and end of files; six timestamp regimes "
         "(dense, half period, random, boundary values, standing still, just short of a period) so that the "
         "cumulative time crosses 2^32 many times; every order of the file arguments; RAYON_NUM_THREADS 1,2,5,16; "
         "refusals: file of another run, duplicate initial timestamp, same file twice, unknown extension, missing "
         "file (gap); runs on run numbers with maps and calibration (simulation, 11192) in which 5..12 main events "
         "carry full simulated-like wire (ADC v3) and pad (PWB chunks, valid CRCs) data of one to four tracks that "
         "the library reconstructs (classes sim-run-<files>-files-<k>-of-<n>-with-vertex: k of the n such events "
         "have a vertex, the others are decoded without one), next to each other and between TRG-only, "
         "undecodable and non-main events: the x, y, z columns the library returns in-process for the same banks "
         "are part of the case line, the model carries them as the payload of the row, and the printed decimals "
         "of the real CSV must parse to exactly these f64 bits on the row of that event (empty iff no vertex). "
         "non-trivial = the binaries accept the run and it has a main event",
    trusted=[
        "hand-written Gallina model of sort_run_files and of the filter/scan row pipeline of both binaries, tied to "
        "analysis/src by differential runs of the real binaries (not by translation)",
        "abstraction of an event to (id, serial, decoded timestamp + payload | undecodable); midasio file parsing, "
        "lz4, clap, csv writer and f64 printing are exercised by the harness, not modelled",
        "rayon's indexed par_extend keeps the order of the events (assumption of the model; exercised with "
        "RAYON_NUM_THREADS in {1,2,5,16}, which is a test, not a proof)",
        "slice::sort_unstable_by_key is any sorting permutation (Section hypotheses, instantiated by insertion sort)",
    ],
    level_text="Coq theorems over a model of the row pipeline: exactly one row per main event, in file order, with its "
               "serial number, empty fields iff undecodable, none for other event types; difference of the cumulative "
               "ticks of two decodable events = sum of the 32-bit-wrapped differences between consecutive decodable "
               "events (= true elapsed ticks when consecutive decodable events are less than 2^32 ticks apart); "
               "the processing order is the order of the initial timestamps whatever the argument order; different "
               "runs, duplicate initial timestamps and unknown extensions are refused. For all event lists, no bound.",
    level_note="not-a-proof parts: byte-identical output across RAYON_NUM_THREADS is runtime behaviour of rayon "
               "(order preservation of the indexed par_extend is an assumption of the model); it is exercised by the "
               "harness on every case with 1, 2, 5 and 16 threads (relc19t lines), including the runs with "
               "reconstructable events where each row costs a full reconstruction (rel-threads-sim-*). The "
               "vertex/scaler columns are payload the row model carries untouched (C19_rows_one_per_main): that "
               "they equal what the library returns is a test, not a proof: the scaler columns and the vertex "
               "columns (bit patterns of vertex() computed in-process on the same banks, logged in the case "
               "line) go through the model into the expected rows, so a dropped, swapped, rounded or displaced "
               "column is a model-vs-implementation difference, and relc19l compares the whole CSV with the scan "
               "re-stated over the library. The in-process library is the harness build (--cfg alpha_g_verif, "
               "opt-level 2), the binaries are the shipped release build. trusted: Coq kernel; "
               "hand-written model; extraction (ExtrOcamlBasic); harness and driver",
    note="the model reproduces the CSV rows of both binaries from the abstract run description in the case line; a "
         "difference is a concrete run (rebuilt from the case line by `vapps obs`) on which a binary departs from it",
)

CFG["level_extra"] = ("NOTE: the whole-run completeness theorem assumes files that follow one another without a gap (the binaries' own `missing file` refusal, not listed by the property).")

# a run with fewer cases than half of what the quick tier generates today would be a (partly) vacuous differential
CFG["min_cases"] = 147
