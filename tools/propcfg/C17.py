"""Configuration of the C17 check (loaded by tools/props.py)."""
CFG = {
    'harness': 'phys',
    'model': 'c17',
    'ocaml_pkgs': 'zarith,coq-core.kernel',
    'ocaml_flags': '-rectypes -thread',
    'axioms': [],
    'uses_gen': False,
    'rule': 'TODO',
    'trusted': [],
    'level_text': 'TODO',
    'level_note': 'TODO',
    'note': 'TODO',
}
