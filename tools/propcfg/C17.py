"""Configuration of the C17 check (loaded by tools/props.py)."""
_PRIM = ['float', 'add', 'sub', 'mul', 'div', 'ltb', 'leb', 'eqb', 'abs', 'opp', 'compare', 'classify', 'sqrt',
         'of_uint63', 'normfr_mantissa', 'frshiftexp', 'ldshiftexp', 'next_up', 'next_down']
_PRIMINT = ['int', 'lsr', 'lsl', 'land', 'lor', 'lxor', 'eqb', 'ltb', 'leb', 'add', 'sub', 'mul', 'div', 'mod',
            'compare', 'head0', 'tail0']
# FloatAxioms of the standard library (link between the primitive operations and SpecFloat), used only by the
# binary64 theorems C17_greedy_nonneg_f64 / C17_ls_deconv_nonneg_f64 / C17_f_ge0_reading / C17_deconv_f64_all_inputs
_FLOAT_AXIOMS = ['div_spec', 'leb_spec', 'ltb_spec', 'eqb_spec', 'add_spec', 'sub_spec', 'mul_spec']
CFG = {
    'harness': 'phys',
    'model': 'c17',
    'ocaml_pkgs': 'zarith,coq-core.kernel',
    'ocaml_flags': '-rectypes -thread',
    # Kernel primitives of PrimFloat/PrimInt63, as `Print Assumptions` lists them for the binary64 theorems
    # (C17_length_all_inputs_refuted: a closed term evaluated by vm_compute; C17_*_f64).  They are primitive
    # operations of the Coq kernel, not logical axioms.  The generic and the Qc theorems are
    # `Closed under the global context`.
    'axioms': (_PRIM + ['PrimFloat.' + p for p in _PRIM] + ['PrimInt63.' + p for p in _PRIMINT] + ['Uint63.' + p for p in _PRIMINT]
               + _FLOAT_AXIOMS + ['FloatAxioms.' + a for a in _FLOAT_AXIOMS]
               # scale covariance for binary64 goes through Flocq (reals) and the Prim2SF/SF2Prim link
               + ['ClassicalDedekindReals.sig_forall_dec', 'ClassicalDedekindReals.sig_not_dec', 'Classical_Prop.classic',
                  'FunctionalExtensionality.functional_extensionality_dep']
               + [q + a for q in ('', 'FloatAxioms.') for a in ('Prim2SF_SF2Prim', 'Prim2SF_valid', 'SF2Prim_Prim2SF', 'abs_spec')]),
    'uses_gen': False,
    'rule': 'differential, bit for bit (16-hex-digit patterns, NaN payload ignored): per case line one waveform and one '
            'response; the REAL nn_greedy_deconvolution for every (offset, look_ahead) of a grid (wire grid 0..=1 x 3..=12 '
            'or pad grid 3..=5 x 7..=12, each response also on the other grid; pad response at offset 0 trips the assert), '
            'ls_deconvolution over the grid, and the production entry point (pad_deconvolution; wire_range_deconvolution of '
            'a single-wire block). Waveforms of 0..=700 samples: sums of 0..=8 response-shaped pulses, amplitudes 1..1e4, '
            'arbitrary positions with a third in the last 20 samples, noise of 6 magnitudes, integer-rounded or not; '
            'lengths 0..=20 around offset+look_ahead; all-positive, all-negative, zeros, signed zeros, subnormal/tiny, huge '
            '(squares overflow), NaN/inf, random bit patterns; other responses (length 0..=30, non-negative/NaN entries) and '
            'grids (look_ahead 0, slices out of range, empty ranges). rel17* lines, implementation only: outputs finite, '
            '>= 0, right length and entry point = ls over the documented grid; exact 2^k scaling, k in -20..=20; equality '
            'with a plain one-sample-at-a-time re-statement; isolated pulse recovery within 1e-6 through the wire path at '
            'ring positions; multi-wire blocks of lengths 1..=256 across the seam with differing per-wire lengths: channel '
            'count/order, output length = longest signal, finite, >= 0; table facts (response windows negative). '
            'non-trivial = the sweep loop is entered and nothing panics; distinct = distinct case lines',
    'trusted': [
        'hand-written Gallina model of nn_greedy_deconvolution / ls_deconvolution (zipper over the residual instead of an '
        'index; slice-exists <-> loop condition proved: slice_some_iff), tied to physics/src/deconvolution.rs by the '
        'differential run, not by translation',
        'PrimFloat evaluated natively (ExtrOCamlFloats -> coq-core Float64 = OCaml double arithmetic, SSE2); f64::min modelled '
        'as "ignore a NaN operand, else the smaller, first operand on ties" (the +0/-0 tie cannot arise: quotients are '
        'never -0); Iterator::sum::<f64>() starts from -0.0 (rustc 1.95; measured, observable only on the empty waveform); '
        'powi(2) = x*x; no FMA contraction',
        'binned responses are taken from the hooks verif::wire_response()/pad_response() (binning and JSON parsing are not '
        'modelled); Cholesky step of the wire path only exercised (identity for single-wire blocks: measured bit for bit)',
        'sign and finiteness laws for binary64 are proved from the standard library FloatAxioms (add/sub/mul/div/leb/ltb/eqb_spec); '
        'IEEE law assumed, not discharged in Coq, when reading C17_scale_covariant for binary64: exactness of scaling by '
        '2^k absent overflow/underflow (measured per run)',
    ],
    'level_text': 'Coq theorems over one generic model (any sample type F and operations; instantiated with PrimFloat for '
                  'the bit-exact differential and with exact rationals Qc to show every hypothesis set satisfiable): '
                  '(1) the window skip `i += last_positive + 1` equals the plain one-sample sweep - input vector, residual '
                  'and panics - for every F, signal, response, offset, look-ahead, no size bound; (2) hence the '
                  'least-squares selection equals the plain scheme bit for bit incl. the first-strict-minimum tie-break; '
                  '(3) never out of fuel, output length = input length for every sweep, all-zero for too-short waveforms, '
                  'and the selection returns the input length iff some residual is < +inf, else the EMPTY vector '
                  '(binary64 witness: one sample -2^700); (4) sign and finiteness from arithmetic laws that are PROVED for '
                  'binary64 from the standard FloatAxioms: for ALL float waveforms, responses and grids the routine returns '
                  'either no samples or one finite sample with clear sign bit per input sample '
                  '(C17_deconv_f64_all_inputs); (5) exact scale covariance incl. all control decisions from op-level laws '
                  '(satisfiable: every c > 0 over Q and over Q with +inf); (6) an isolated pulse a*R at k is recovered as '
                  'exactly a at k, 0 elsewhere, residual 0, by the offset-0 sweep and by the whole wire selection (over Q: '
                  'any response with 13 negative leading samples); one implementation observation re-evaluated inside Coq.',
    'level_note': 'NOT proved: that an in-domain waveform never drives every residual to +inf/NaN (i.e. that the output is '
                  'non-empty for calibrated samples), and the 1e-6 recovery figure in binary64 (residual growth in the response '
                  'tail has no useful a-priori bound) - both are measured by the harness on every run (rel17prop, rel17pulse). '
                  '(5) is proved from arithmetic laws stated as Section hypotheses; for binary64 they are assumed IEEE laws '
                  '(scaling by 2^k exact absent overflow/underflow), with rel17scale measuring exactness per run, k in -20..=20. '
                  'Multi-wire blocks (Cholesky of the cross-talk matrix) are outside the model; shape, finiteness, sign and '
                  'exact block scaling are measured (rel17block). trusted: Coq kernel incl. primitive floats and the standard '
                  'library FloatAxioms; hand model tied by differential run; extraction (ExtrOcamlBasic, ExtrOCamlFloats); '
                  'harness and driver',
    'note': 'a difference between model and implementation is a waveform on which the production loop departs from the '
            'proved-equivalent plain greedy scheme (or a change of grid constants / response tables / float semantics)',
}

CFG["level_extra"] = ('Scale covariance is proved FOR BINARY64 (C17_nn_greedy_scale_f64, C17_ls_deconv_scale_f64, C17_pad/wire_deconv_scale_f64): under a boolean, executable no-overflow/no-underflow predicate over the values the run actually produces (|k| <= 500), scaling the waveform by 2^k leaves every control decision unchanged and scales amplitudes by 2^k and the residual by 4^k bit for bit; the eleven op-level laws are proved through Flocq.')
