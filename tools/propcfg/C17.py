"""Configuration of the C17 check (loaded by tools/props.py)."""
CFG = {
    'harness': 'phys',
    'model': 'c17',
    'ocaml_pkgs': 'zarith,coq-core.kernel',
    'ocaml_flags': '-rectypes -thread',
    # kernel primitives of PrimFloat as `Print Assumptions` lists them for the one binary64 witness theorem
    # (C17_length_all_inputs_refuted, evaluated by vm_compute); they are primitive operations, not logical axioms
    'axioms': ['float', 'add', 'sub', 'mul', 'div', 'ltb', 'leb', 'eqb'],
    'uses_gen': False,
    'rule': 'TODO',
    'trusted': [],
    'level_text': 'TODO',
    'level_note': 'TODO',
    'note': 'TODO',
}
