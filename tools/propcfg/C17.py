"""Configuration of the C17 check (loaded by tools/props.py)."""
_PRIM = ['float', 'add', 'sub', 'mul', 'div', 'ltb', 'leb', 'eqb', 'abs', 'opp', 'compare', 'classify', 'sqrt',
         'of_uint63', 'normfr_mantissa', 'frshiftexp', 'ldshiftexp', 'next_up', 'next_down']
_PRIMINT = ['int', 'lsr', 'lsl', 'land', 'lor', 'lxor', 'eqb', 'ltb', 'leb', 'add', 'sub', 'mul', 'div', 'mod',
            'compare', 'head0', 'tail0']
# FloatAxioms of the standard library (link between the primitive operations and SpecFloat), used only by the
# binary64 theorems C17_greedy_nonneg_f64 / C17_ls_deconv_nonneg_f64 / C17_f_ge0_reading / C17_deconv_f64_all_inputs
_FLOAT_AXIOMS = ['div_spec', 'leb_spec', 'ltb_spec', 'eqb_spec', 'add_spec', 'sub_spec', 'mul_spec']
CFG = {
    'harness': 'phys',
    'model': 'c17',
    'ocaml_pkgs': 'zarith,coq-core.kernel',
    'ocaml_flags': '-rectypes -thread',
    # Kernel primitives of PrimFloat/PrimInt63, as `Print Assumptions` lists them for the binary64 theorems
    # (C17_length_all_inputs_refuted: a closed term evaluated by vm_compute; C17_*_f64).  They are primitive
    # operations of the Coq kernel, not logical axioms.  The generic and the Qc theorems are
    # `Closed under the global context`.
    'axioms': (_PRIM + ['PrimFloat.' + p for p in _PRIM] + ['PrimInt63.' + p for p in _PRIMINT] + ['Uint63.' + p for p in _PRIMINT]
               + _FLOAT_AXIOMS + ['FloatAxioms.' + a for a in _FLOAT_AXIOMS]
               # scale covariance for binary64 goes through Flocq (reals) and the Prim2SF/SF2Prim link
               + ['ClassicalDedekindReals.sig_forall_dec', 'ClassicalDedekindReals.sig_not_dec', 'Classical_Prop.classic',
                  'FunctionalExtensionality.functional_extensionality_dep']
               + [q + a for q in ('', 'FloatAxioms.') for a in ('Prim2SF_SF2Prim', 'Prim2SF_valid', 'SF2Prim_Prim2SF', 'abs_spec')]),
    'uses_gen': False,
    'parallel_model': 16,
    'rule': 'differential, bit for bit (16-hex-digit patterns, NaN payload ignored): per case line one waveform and one '
            'response; the REAL nn_greedy_deconvolution for every (offset, look_ahead) of a grid (wire grid 0..=1 x 3..=12 '
            'or pad grid 3..=5 x 7..=12, each response also on the other grid; pad response at offset 0 trips the assert), '
            'ls_deconvolution over the grid, and the production entry point (pad_deconvolution; wire_range_deconvolution of '
            'a single-wire block). Waveforms of 0..=700 samples: sums of 0..=8 response-shaped pulses, amplitudes 1..1e4, '
            'arbitrary positions with a third in the last 20 samples, noise of 6 magnitudes, integer-rounded or not; '
            'lengths 0..=20 around offset+look_ahead; all-positive, all-negative, zeros, signed zeros, subnormal/tiny, huge '
            '(squares overflow), NaN/inf, random bit patterns; other responses (length 0..=30, non-negative/NaN entries) and '
            'grids (look_ahead 0, slices out of range, empty ranges). rel17* lines, implementation only: outputs finite, '
            '>= 0, right length and entry point = ls over the documented grid; equality '
            'with a plain one-sample-at-a-time re-statement; rel17scale (tie of the binary64 scale theorems to the runs): '
            'the line carries whether the REAL routines scale bit for bit under *2^k (every sweep of the grid, residual '
            '*4^k, entry point), the model side evaluates the theorems\' extracted hypothesis nn_safe/ls_safe on the same '
            'waveform, response, grid and k and alarms iff it is true and the implementation was not exact; in-domain '
            'waveforms with every k of -20..=20 (hypothesis must be true) and |k| in {21, 50, 100, 200, 300, 400, 440, '
            '460, 480, 490, 499, 500} (either), {501, 520, 600, 1000, 1022, 1023, 1024, 1080} (must be false); '
            'rel17event: synthetic events (response-shaped pulses on single wires, multi-wire blocks, blocks across the '
            '255/0 seam, several blocks, a long block, the full ring; matching three-row pad patterns one sample earlier; '
            'optional noise) through MainEvent::avalanches(), and again with EVERY wire and pad sample * 2^k, every k of '
            '-20..=20 and k in {-440, -400, -300, -100, 100, 300, 400, 470}: same number of avalanches, same t, wire and z '
            'bit for bit, wire_amplitude and pad_amplitude * 2^k bit for bit; '
            'rel17pulse: isolated pulse on a SINGLE-WIRE block at every one of the 256 ring positions, deviation reported '
            'above 1e-12 (measured 2e-16; the property\'s figure is 1e-6); rel17block: multi-wire blocks - quick: 21 '
            'lengths (1..=10, 16, 17, 100, 255, 256, six random) at five positions (first wire 0, last wire 255, crossing '
            'the seam by one wire on either side, centred on the seam) and 16 rings with two or three blocks; thorough: '
            'EVERY length 1..=256 at those five and two random positions, lengths <= 32 at EVERY seam-crossing position, '
            '150 rings with several blocks - with differing per-wire lengths: ranges found, channel count and order, output '
            'length = longest signal, finite, >= 0, each block among others = the block alone, exact 2^k scaling of the '
            'block, and channel identity (signals synthesised from one distinguishable avalanche per wire induced on '
            'the neighbours: output column j shows the avalanche put on wire j, within 1e-11 of the largest amplitude); '
            'table facts (response windows negative). '
            'non-trivial = the sweep loop is entered and nothing panics; distinct = distinct case lines',
    'trusted': [
        'hand-written Gallina model of nn_greedy_deconvolution / ls_deconvolution (zipper over the residual instead of an '
        'index; slice-exists <-> loop condition proved: slice_some_iff), tied to physics/src/deconvolution.rs by the '
        'differential run, not by translation',
        'PrimFloat evaluated natively (ExtrOCamlFloats -> coq-core Float64 = OCaml double arithmetic, SSE2); f64::min modelled '
        'as "ignore a NaN operand, else the smaller, first operand on ties" (the +0/-0 tie cannot arise: quotients are '
        'never -0); Iterator::sum::<f64>() starts from -0.0 (rustc 1.95; measured, observable only on the empty waveform); '
        'powi(2) = x*x; no FMA contraction',
        'binned responses are taken from the hooks verif::wire_response()/pad_response() (binning and JSON parsing are not '
        'modelled); Cholesky step of the wire path only exercised (identity for single-wire blocks: measured bit for bit)',
        'binary64 arithmetic laws are PROVED, not assumed: sign and finiteness laws from the standard library FloatAxioms '
        '(add/sub/mul/div/leb/ltb/eqb_spec), the eleven exact-scaling laws (C17_f64_scale_laws) through Flocq; what remains '
        'trusted there is that FloatAxioms describe the hardware: PrimFloat operations <-> IEEE 754 binary64 as executed by '
        'the CPU for the Rust code and for the extracted OCaml (checked bit for bit on every differential case)',
    ],
    'level_text': 'Coq theorems over one generic model (any sample type F and operations; instantiated with PrimFloat for '
                  'the bit-exact differential and with exact rationals Qc to show every hypothesis set satisfiable): '
                  '(1) the window skip `i += last_positive + 1` equals the plain one-sample sweep - input vector, residual '
                  'and panics - for every F, signal, response, offset, look-ahead, no size bound; (2) hence the '
                  'least-squares selection equals the plain scheme bit for bit incl. the first-strict-minimum tie-break; '
                  '(3) never out of fuel, output length = input length for every sweep, all-zero for too-short waveforms, '
                  'and the selection returns the input length iff some residual is < +inf, else the EMPTY vector '
                  '(binary64 witness: one sample -2^700); (4) sign and finiteness from arithmetic laws that are PROVED for '
                  'binary64 from the standard FloatAxioms: for ALL float waveforms, responses and grids the routine returns '
                  'either no samples or one finite sample with clear sign bit per input sample '
                  '(C17_deconv_f64_all_inputs); (5) exact scale covariance incl. all control decisions from op-level laws '
                  '(satisfiable: every c > 0 over Q and over Q with +inf), and FOR BINARY64 under an executable predicate, see '
                  'below; (6) OVER Q (exact rational arithmetic) ONLY: an isolated pulse a*R at k is recovered as '
                  'exactly a at k, 0 elsewhere, residual 0, by the offset-0 sweep and by the whole wire selection, for '
                  'any response with 13 negative leading samples (the generic statement C17_isolated_pulse_exact assumes field '
                  'laws - -0 + 0*0 = -0, (a*r)/r = a - that are FALSE for binary64, so it says nothing about floats; for '
                  'binary64 the recovery is measured: rel17pulse, 2e-16 relative, on single-wire blocks at all 256 ring '
                  'positions, which is what "wherever the wire sits on the ring" claims); one implementation observation '
                  're-evaluated inside Coq.',
    'level_note': 'NOT proved: that an in-domain waveform never drives every residual to +inf/NaN (i.e. that the output is '
                  'non-empty for calibrated samples), and the 1e-6 recovery figure in binary64 (residual growth in the response '
                  'tail has no useful a-priori bound; theorem (6) is rational-only) - both are measured by the harness on every '
                  'run (rel17prop, rel17pulse). The scale-covariance clause: PROVED for binary64 for |k| <= 500 under the '
                  'executable no-overflow/no-underflow predicate nn_safe/ls_safe (arithmetic laws proved through Flocq, nothing '
                  'assumed), and the predicate is evaluated by the model runner on every rel17scale case, so "predicate true and '
                  'implementation not exact" is a violation. The clause is FALSE as a statement about all powers of two: beyond '
                  'the binary64 range it fails on in-domain waveforms (k = 500: the sum of squared residuals overflows, every '
                  'grid point has residual +inf and the EMPTY vector comes back; k = -1000: samples underflow) - a limitation of '
                  'floating point; for in-domain waveforms (amplitudes 1..1e4) the runner REQUIRES the predicate to be true on every generated '
                  'case with |k| <= 400 (a false predicate there is reported: the theorem would be vacuous where it matters) and '
                  'false beyond 500; between 400 and 500 either. The event-level clause (no time, wire or z changes; both amplitudes scale) goes through the '
                  'Cholesky solve and the pad centroid, which are outside the model: measured on the implementation '
                  '(rel17event), exact for every k of -475..=495 on the scanned events incl. multi-wire blocks. '
                  'Multi-wire blocks (Cholesky of the cross-talk matrix) are outside the model; shape, finiteness, sign, '
                  'channel identity and exact block scaling are measured (rel17block). trusted: Coq kernel incl. primitive '
                  'floats and the standard library FloatAxioms (PrimFloat <-> hardware IEEE binary64); hand model tied by '
                  'differential run; extraction (ExtrOcamlBasic, ExtrOCamlFloats, ExtrOCamlInt63); harness and driver',
    'note': 'a difference between model and implementation is a waveform on which the production loop departs from the '
            'proved-equivalent plain greedy scheme (or a change of grid constants / response tables / float semantics)',
}

CFG["level_extra"] = ('Scale covariance is proved FOR BINARY64 (C17_nn_greedy_scale_f64, C17_ls_deconv_scale_f64, C17_pad/wire_deconv_scale_f64): under a boolean, executable no-overflow/no-underflow predicate over the values the run actually produces (|k| <= 500), scaling the waveform by 2^k leaves every control decision unchanged and scales amplitudes by 2^k and the residual by 4^k bit for bit; the eleven op-level laws are proved through Flocq. The predicate is extracted (nn_safe_fast/ls_safe_fast = nn_safe/ls_safe by conversion) and evaluated on every rel17scale case. Beyond the binary64 range (|k| > 500, or an intermediate leaving [2^-1021, 2^1023]) the clause is false of any float implementation.')

# a run with fewer cases than half of what the quick tier generates today would be a (partly) vacuous differential
CFG["min_cases"] = 2389
