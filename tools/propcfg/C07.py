"""Configuration of the C07 check (loaded by tools/props.py)."""
CFG = {'harness': 'det',
 'axioms': [],
 'uses_gen': False,
 'rule': 'words of every class (incl. tag-like words whose low 24 bits look like another block length) followed by 0..300 valid words; all 256 top bytes x 6 low patterns and random words (classification); scaler-block length boundaries; '
         'streams from the grammar (timestamps, markers, scaler blocks whose bodies imitate words/tags, invalid words, '
         'truncated tails) parsed whole, under every single cut (sampled for long streams in quick), random multi-cuts '
         'and the all-1-byte-pieces schedule, fed with the resume protocol. non-trivial = at least 4 bytes; distinct = '
         'distinct (stream, cut pattern)',
 'trusted': ['hand-written Gallina model of the decoder, tied to detector/src by differential runs (not by '
             'translation)',
             'rustc/LLVM/std slice and integer semantics as encoded in Base/Res.v, Base/Bytes.v (slice/idx/arr panic '
             "exactly when Rust's do)",
             'winnow 0.6.1 combinators (separated_foldl1, repeat(0..), alt, seq!, le_u24, u8.verify.try_map, take, '
             'le_u32, literals, tuples, map/value/void) on complete &[u8] input as transcribed from the winnow source in '
             'Codec/Winnow.v (checkpoint/reset, Backtrack vs Cut, the must-consume assert); chronobox.rs transcribed '
             'combinator by combinator in Codec/ChronoWinnow.v and PROVED equal to the recursive parser '
             'Codec/Chrono.v:cb_fifo (C07_cbw_fifo_eq); the differential runs the combinator-level model'],
 'level_text': 'Coq theorems over a model of chronobox_fifo: symbolic classification of all 2^32 words; the consumed '
               'prefix is a sequence of words/complete scaler blocks whose entries are exactly the output, the '
               'remainder is the untouched suffix and starts with no complete element; parse(a++b) = parse(a) then '
               'parse(rem++b); by induction any cutting into pieces gives the same entries and final remainder; every '
               'element consumes 4 or 244 bytes. Unbounded streams, no fuel hypothesis left (fuel = length proved '
               'sufficient).',
 'level_note': 'trusted: Coq kernel; hand model of the winnow parser tied by differential runs (whole vs '
               'implementation, piecewise vs implementation, all five entry fields + remainder length compared); '
               'extraction; harness',
 'note': 'entries and remainder length of implementation and proved model must agree, whole and piecewise',
 'model': 'det',
 # `cb` / `cbfeed` lines are answered by the combinator-level model (unit c07w, which cross-checks the recursive
 # model of unit det on every case and prints `models-disagree` if they differ)
 'model_units': ['c07w', 'det'],
 # the combinator-level runner is quadratic in the stream length (eof_offset is a list length): run 16 slices
 'parallel_model': 16}

CFG["level_extra"] = ('Since the combinator layer (coq/Codec/Winnow.v, ChronoWinnow.v): the winnow 0.6.1 combinators actually used (take, any, literal, verify, try_map, le_u24/le_u32, seq, alt, repeat(0..), separated_foldl1 with their backtrack/cut/reset semantics and the must-consume assertion) are transcribed from the crate source and chronobox.rs is transcribed combinator by combinator; C07_cbw_fifo_eq proves that model equal to the recursive parser on every input, in debug and release configurations, and the differential runs the combinator-level model.')

# translator plugins this property needs besides the board tables of tools/gen.py (none)
CFG["gen_plugins"] = []

# a run with fewer cases than half of what the quick tier generates today would be a (partly) vacuous differential
CFG["min_cases"] = 6656
