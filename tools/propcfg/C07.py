"""Configuration of the C07 check (loaded by tools/props.py)."""
CFG = {'harness': 'det',
 'axioms': [],
 'uses_gen': False,
 'rule': 'words of every class (incl. tag-like words whose low 24 bits look like another block length) followed by 0..300 valid words; all 256 top bytes x 6 low patterns and random words (classification); scaler-block length boundaries; '
         'streams from the grammar (timestamps, markers, scaler blocks whose bodies imitate words/tags, invalid words, '
         'truncated tails) parsed whole, under every single cut (sampled for long streams in quick), random multi-cuts '
         'and the all-1-byte-pieces schedule, fed with the resume protocol. non-trivial = at least 4 bytes; distinct = '
         'distinct (stream, cut pattern)',
 'trusted': ['hand-written Gallina model of the decoder, tied to detector/src by differential runs (not by '
             'translation)',
             'rustc/LLVM/std slice and integer semantics as encoded in Base/Res.v, Base/Bytes.v (slice/idx/arr panic '
             "exactly when Rust's do)",
             'winnow 0.6.1 combinators (separated_foldl1, repeat(0..), alt, seq!, le_u24, u8.verify.try_map, take, '
             'le_u32) on complete &[u8] input are modelled by the recursive parser Codec/Chrono.v:cb_fifo'],
 'level_text': 'Coq theorems over a model of chronobox_fifo: symbolic classification of all 2^32 words; the consumed '
               'prefix is a sequence of words/complete scaler blocks whose entries are exactly the output, the '
               'remainder is the untouched suffix and starts with no complete element; parse(a++b) = parse(a) then '
               'parse(rem++b); by induction any cutting into pieces gives the same entries and final remainder; every '
               'element consumes 4 or 244 bytes. Unbounded streams, no fuel hypothesis left (fuel = length proved '
               'sufficient).',
 'level_note': 'trusted: Coq kernel; hand model of the winnow parser tied by differential runs (whole vs '
               'implementation, piecewise vs implementation, all five entry fields + remainder length compared); '
               'extraction; harness',
 'note': 'entries and remainder length of implementation and proved model must agree, whole and piecewise',
 'model': 'det'}
