"""Configuration of the C18 check (loaded by tools/props.py)."""
CFG = {
    'harness': 'phys',
    'model': 'c18',
    'ocaml_pkgs': 'zarith,coq-core.kernel',
    'ocaml_flags': '-rectypes -thread',
    'axioms': [
        # the standard library's axioms of the classical real numbers (what Print Assumptions reports for Reals/Flocq)
        'ClassicalDedekindReals.sig_forall_dec',
        'ClassicalDedekindReals.sig_not_dec',
        'FunctionalExtensionality.functional_extensionality_dep',
        'Classical_Prop.classic',
        # NOT logical axioms: kernel primitives (`Primitive` declarations of Coq.Floats.PrimFloat and
        # Coq.Numbers.Cyclic.Int63.PrimInt63), which Print Assumptions lists because they have no body. They occur
        # in the four theorems that mention the generated float tables (decoded exactly with Prim2SF). No FloatAxioms
        # (add_spec, Prim2SF_valid, ...) are used.
        'PrimFloat.float', 'PrimFloat.abs', 'PrimFloat.div', 'PrimFloat.eqb', 'PrimFloat.ltb',
        'PrimFloat.frshiftexp', 'PrimFloat.normfr_mantissa',
        'PrimInt63.int', 'PrimInt63.eqb', 'PrimInt63.land', 'PrimInt63.lsr',
        # same primitives as printed when Coq.Floats is imported unqualified (Props/C18.v imports it)
        'float', 'abs', 'div', 'ltb', 'frshiftexp', 'normfr_mantissa',
        'PrimFloat.add', 'PrimFloat.sub', 'PrimFloat.mul', 'PrimFloat.leb', 'PrimFloat.opp', 'add', 'sub', 'mul', 'leb', 'opp',
        'PrimFloat.of_uint63', 'of_uint63', 'PrimFloat.ldshiftexp', 'ldshiftexp',
        'PrimInt63.sub', 'PrimInt63.lsl', 'PrimInt63.lor',
        # only for C18_z_symmetric_binary64 (bit-level symmetry of the executable PrimFloat instance): the standard
        # library's specification of the primitive abs / opp and the injectivity of Prim2SF (Coq.Floats.FloatAxioms)
        'abs_spec', 'opp_spec', 'SF2Prim_Prim2SF',
        'FloatAxioms.abs_spec', 'FloatAxioms.opp_spec', 'FloatAxioms.SF2Prim_Prim2SF',
    ],
    'uses_gen': True,
    'rule': 'public API SpacePoint::try_from(Avalanche{t, phi, z}) compared bit for bit with the extracted PrimFloat model: '
            'all 92 tables of verif::drift_tables() compared with coq/Gen/Drift.v (count, z bound, FNV-1a-64 of all bit '
            'patterns); every slice bound exact and +-1 ulp, both signs, at first/mid/last time of the slice; tabulated '
            'times exact and +-1 ulp (quick: first 3, last 3 and sampled knots of every table; thorough: every knot of every '
            'table); random (z, t) in [-1.3,1.3] x [-1e-6,5e-6]; +-0; a few NaN/inf inputs (outside the property domain). '
            'rel lines on the implementation alone: monotone in t, symmetric in z, radius within [min,max] of the slice and '
            'correction within [0,max], knots reproduced to 1e-12, every tabulated 8 ns step < 0.5 mm outside the listed '
            'known class (relkf-drift-step lines are the known class F8). non-trivial = lookup passes the z-range test; '
            'distinct = distinct case lines',
    'trusted': [
        'hand-written generic Gallina algorithm (Recon/Drift.v) instantiated with PrimFloat (tie to physics/src/drift.rs and '
        'lib.rs = differential run, bit for bit) and with R + Flocq rounding (theorems); the two instances share the text of '
        'the algorithm, the correspondence of their arithmetic (PrimFloat add/sub/mul/div/abs/ltb/leb vs. round-to-nearest-even '
        'of the exact result, absent NaN/overflow) is the IEEE-754 reading of the kernel primitives and is NOT proved here '
        '(assumed IEEE law; Flocq Prim2B/Bplus_correct link not discharged)',
        'tools/genx_drift.py (JSON -> hexadecimal float literals; checked on every run against verif::drift_tables() by the '
        'drift-tab case lines, because serde_json float parsing is not guaranteed correctly rounded)',
        'ocaml/run_c18.ml reads the table literals from the same coq/Gen/Drift.v text that coqc compiles (hex float parsing '
        'exact in Coq and OCaml)',
        'Prim2SF (kernel primitives frshiftexp/normfr_mantissa, evaluated by vm_compute) as the exact value of a float literal',
        'uom 0.35 Quantity<f64> arithmetic in SI base units is plain f64 arithmetic (change_base multiplies/divides by 1.0), '
        'read in the uom source; serde representation of a Quantity is its bare value',
        'extraction: ExtrOCamlFloats (float -> Float64, OCaml native doubles), coq-core.kernel Float64',
        'Coq.Floats.FloatAxioms abs_spec / opp_spec / SF2Prim_Prim2SF (only C18_z_symmetric_binary64)',
        'the rel-drift-step8 lines check the 0.5 mm / 8 ns figure on the implementation with 1e-12 m slack (a test beside '
        'the straddle theorems, which are about the model)',
    ],
    'level_text': 'Coq theorems over R with Flocq round-to-nearest-even (binary64 format, FLT_exp (-1074) 53) applied after every '
                  'operation, for ANY table satisfying table_ok and for all representable inputs: success iff |z| <= zmax and '
                  't within first/last time of the slice (with the two error kinds), rhs_index >= 1 (no underflow/panic, both '
                  'overflow modes agree), radius within [min,max] of the slice, non-increasing in t, exact at every tabulated time, '
                  'identical for z and -z (also proved at bit level for the executable binary64 instance, NaN included), correction within [0, slice max]; the 0.5 mm / 8 ns claim is reduced to the tabulated '
                  'steps, proved for all segments outside the listed known class and refuted by a computed witness inside it (F8). '
                  'table_ok of the CURRENT tables is re-proved by vm_compute on every run from the regenerated Gen/Drift.v.',
    'level_note': 'trusted: Coq kernel + VM; the R-with-rounding instance is tied to the PrimFloat instance by construction (one '
                  'generic definition) and to the Rust code by the differential run only; IEEE correspondence PrimFloat <-> '
                  'Flocq generic rounding not proved (no NaN, no overflow in the R instance); translator, runner, harness, driver',
    'note': 'the PrimFloat model is the same generic algorithm the theorems are about; an observation difference is an input on '
            'which the implementation departs from that algorithm (or a table entry parsed differently by serde_json)',
}

CFG["level_extra"] = ('Continuity across a knot is proved for the rounded lookup: for t1 <= t_k <= t2 not further apart than the knot spacing, 0 <= r(t1) - r(t2) <= max(step_(k-1), step_k) + an explicit rounding term (<= 6e-17 m on the current tables), hence < 0.5 mm + 1e-15 m whenever neither touched segment is in the known class, and < 0.66 mm + 1e-15 m always (C18_knot_straddle, C18_half_mm_straddle_8ns, C18_straddle_lt_066_mm_8ns; table facts by computation over the regenerated tables).')
CFG["level_extra"] = CFG["level_extra"] + ' The straddle theorems cover two lookups that touch at most two segments. The tabulated knot spacing is 8 ns only up to about 1e-21 s, so where a spacing is slightly below 8 ns two lookups exactly 8 ns apart could touch three segments if both fall in a window at most 1e-21 s wide; for that case only the sum bound C18_step_bound_partial is proved, and no generated case lies in such a window (it is neither proved impossible for binary64 times nor measured). The proved bound is < 0.5 mm + 1e-15 m.'

# a run with fewer cases than half of what the quick tier generates today would be a (partly) vacuous differential
CFG["min_cases"] = 9086
