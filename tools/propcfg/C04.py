"""Configuration of the C04 check (loaded by tools/props.py)."""
CFG = {'harness': 'det',
 'model': 'c03',
 'axioms': [],
 'uses_gen': True,
 'rule': 'valid PWB v2 payloads (0..79 channels, 0..511 samples, built from the layout of PwbV2Packet::try_from) and '
         'random payload bytes, split at chunk sizes 1,2,3,4,5,7,8,51..57,63..65,255,256,1023,1024,65535, L-1, L, L+1, '
         'L/2, L/3 into real chunks (CRCs by the crc32c crate); each in natural, reversed and random order; every '
         'permutation up to 5 chunks (6 thorough, 40 packets per size) through model and implementation, 30 random orders beyond; every '
         'single fault at every position of messages of 1..6 chunks and at 5 positions of a long one: drop, duplicate '
         '(same / other payload), other board, other chip, end-of-message toggled, resize +-1 (also of the final chunk: '
         'not a fault), id changed to a present id / n / 2^k / 65535, ids from 1, end-of-message everywhere / nowhere, '
         'two messages mixed; 1030 (4100 thorough) one-byte chunks; two chunks of 65535 bytes; an undecodable chunk in '
         'the list; rel4orders lines: implementation-only oracle over all orders (<= 6 chunks) or 61 orders, direct '
         'decode of the concatenation, PwbPacket wrapper. non-trivial = all chunks decode and the list is not empty; '
         'distinct = distinct chunk lists',
 'trusted': ['hand-written Gallina model of TryFrom<Vec<Chunk>> for PwbV2Packet, tied to detector/src by differential '
             'runs (not by translation)',
             'rustc/LLVM/std slice and integer semantics as encoded in Base/Res.v, Base/Bytes.v',
             'slice::sort_unstable_by_key is modelled as any permutation sorted by the key (Section variable with '
             'exactly these two hypotheses; instantiated by an insertion sort proved admissible)',
             'PwbV2Packet::try_from(&[u8]) is abstract here (Section variable; modelled under C05): the differential '
             'compares the bytes handed to it, the rel4orders oracle compares its results on the implementation',
             'tools/gen.py translator (PADWING_BOARDS device ids regenerated into coq/Gen/Boards.v each run)'],
 'level_text': 'Coq theorems over a line-by-line, panic-aware model of the reassembly, for any admissible sort and any '
               'payload decoder: success iff the set is well formed (non-empty, one board, one chip, ids a permutation '
               'of 0..n-1, end-of-message on id n-1 only, ids < n-1 as long as id 0; final chunk of any size) and the '
               'payloads concatenated in id order decode to that packet; any permutation of the list and any two '
               'admissible sorts give the identical result (packet or error kind and position); every ill-formed set '
               'and each single fault of the property text gives Err; never a panic on chunks the chunk decoder can '
               'produce, in both overflow modes. Any number of chunks.',
 'level_note': 'trusted: Coq kernel; hand model tied by differential run (structural verdict and the exact bytes passed '
               'to the payload decoder compared); sort and payload decoder abstract as stated; extraction; harness',
 'note': 'a difference means the implementation accepts or refuses a chunk set differently from the proved '
         'well-formedness rule, or hands other bytes to the payload decoder; a `fails` on a rel4orders line is an '
         'order dependence observed on the implementation itself'}

# translator plugins this property needs besides the board tables of tools/gen.py (none)
CFG["gen_plugins"] = []

# a run with fewer cases than half of what the quick tier generates today would be a (partly) vacuous differential
CFG["min_cases"] = 1143
