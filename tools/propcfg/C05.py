"""Configuration of the C05 check (loaded by tools/props.py)."""
CFG = {'harness': 'det',
 'model': 'c05',
 'axioms': [],
 'uses_gen': True,
 'rule': 'structured generator: all 79 single-channel masks (and bit 79) x requested_samples {0,1,2,3,510,511,random}; '
         'full and random masks; requested_samples/last_sca_cell around 511; version/chip/compression/trigger-source '
         'bytes 0..=255; every MAC of PADWING_BOARDS, one-bit-off and random MACs; over-threshold mask subset/not '
         'subset/bit 79; per small valid packet 34 single perturbations (header fields, masks, block index +-1/out '
         'of range, blocks swapped/reversed/missing/duplicated, sample count, padding non-zero/missing/extra, marker '
         'corrupted/short/long, trailing bytes), truncations, byte/bit changes; lengths 0..=140; random bytes and '
         'random tails after a valid header. non-trivial = at least 56 bytes with version 2; distinct = distinct bytes',
 'trusted': ['hand-written Gallina model of the decoder and of waveform_at, tied to detector/src by differential runs '
             '(not by translation)',
             'rustc/LLVM/std slice and integer semantics as encoded in Base/Res.v, Base/Bytes.v (slice/idx/arr panic '
             "exactly when Rust's do); u128::leading_zeros = 128 - bit length",
             'tools/gen.py translator (PADWING_BOARDS regenerated into coq/Gen/Boards.v each run)'],
 'level_text': 'Coq theorems over a line-by-line model of PwbV2Packet::try_from, ChannelId::try_from(u16) and '
               'waveform_at (panic-aware, both overflow modes, any MAC table): C05_pwb_exact accepted iff the field '
               'rules hold and the bytes are the documented little-endian layout (one block per sent channel in '
               'ascending readout order, zero padding iff odd, end marker, nothing left over), so re-encoding '
               'reproduces the input; C05_pwb_accept_iff_wf the same as a bullet list over the input bytes; '
               'C05_mask_loop_set_bits / C05_mask_bits_ascending / C05_channel_lists the leading_zeros loop (fuel '
               '128) yields exactly the set bits ascending, bit i = readout index i+1; C05_readout_bijection 79 '
               'indices <-> 3 reset + 4 FPN + 72 pads; C05_waveform_at_block / C05_waveform_bytes / '
               'C05_waveform_absent waveform_at returns exactly the requested_samples samples of the channel\'s '
               'block of the input (None for channels not sent); C05_pwb_total never a panic; C05_pwb_no_wrap '
               'checked and wrapping builds agree. All byte lists, no bound.',
 'level_note': 'trusted: Coq kernel; hand model tied by differential run (all accessors, both channel lists and '
               'waveform_at of all 79 channels compared, every sample); board table regenerated from source each run; '
               'extraction; harness',
 'note': 'model = spec by C05_pwb_exact, so a difference is an input on which the implementation departs from the '
         'documented layout'}

# translator plugins this property needs besides the board tables of tools/gen.py (none)
CFG["gen_plugins"] = []

# a run with fewer cases than half of what the quick tier generates today would be a (partly) vacuous differential
CFG["min_cases"] = 5470
