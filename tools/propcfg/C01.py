"""Configuration of the C01 check (loaded by tools/props.py)."""
CFG = {
 'harness': 'det',
 'model': 'det',
 # each case line is answered by the extraction unit of the decoder it belongs to
 'model_units': ['c07w', 'det', 'c03', 'c05', 'c08'],
 # the cases are also run through a second build of the harness WITH overflow checks; both builds must agree
 'profiles': ['release', 'dev'],
 'axioms': [],
 'uses_gen': True,
 'rule': ('for every decoder (ADC packet, PWB chunk, PWB packet from bytes, PWB packet from a list of chunks, TRG packet, '
          'Chronobox FIFO, bank-name parsers): a well-formed input with each header byte set to {0,1,2,0x7f,0x80,0xfe,0xff}, '
          'truncated / extended by every amount up to 40 bytes, single bit flips; firmware-controlled counters at 0, 1, 2, '
          'n+1..n+3 and their maxima (requested_samples, keep_last, chunk_length incl. 65533..65535 on short and on '
          'maximum-size chunks, channel masks incl. bit 79 and all ones, chunk ids 0/1/65535, duplicated and missing '
          'chunks, the empty chunk list); Chronobox streams with edge bytes; names of length 0..=8 over an alphabet with '
          '2-, 3- and 4-byte UTF-8 characters at every offset, biased to the documented prefixes; random bytes of every '
          'length 0..=120 and up to 66 560 bytes. Every case is evaluated by the release build (no overflow checks), by a '
          'build with overflow checks, and by the proved model. non-trivial = reaches a decoder (all cases); distinct = '
          'distinct case lines'),
 'trusted': ['hand-written Gallina models of the decoders (tied by this differential run and by C02-C08)',
             'rustc/LLVM/std slice, str and integer semantics as encoded in Base/Res.v, Base/Bytes.v, Ident/Names.v '
             '(index/slice/str-slice/unwrap panic exactly when Rust\'s do; arithmetic panics in mode Checked, wraps in mode Wrapping)',
             'memory allocation never fails (Vec::with_capacity etc. are not modelled)',
             'winnow 0.6.1 combinators on complete input as transcribed from the winnow source in Codec/Winnow.v (chronobox.rs over them in Codec/ChronoWinnow.v, proved equal to Codec/Chrono.v)',
             'tools/gen.py translator (board tables regenerated each run)'],
 'level_text': ('Coq theorems, for all byte lists / strings and both overflow modes, no bound on length: adc_decode, chunk_decode, '
                'pwb_decode, reasm (any admissible sort, chunks being decoder outputs), trg_decode and the ten bank-name parsers '
                'never reach Panic (= any index, slice, unwrap, try_into, str-boundary or checked-arithmetic failure of the modelled '
                'code); Checked and Wrapping builds decode every input alike (nothing wraps silently); the Chronobox FIFO parser '
                'returns on every input with fuel = length and every accepted element consumes 4 or 244 bytes. The models are tied to '
                'the Rust code by the differential run, under two build profiles.'),
 'level_note': ('trusted: Coq kernel; hand models tied by differential runs under a release and an overflow-checked build, whose '
                'observations must also agree with each other; extraction; harness. Allocation failure and aborts inside '
                'dependencies are outside the model.'),
 'note': 'a panic or a profile-dependent result of the implementation on a case is a concrete violation of C01; the model never panics (proved)',
}

# translator plugins this property needs besides the board tables of tools/gen.py (none)
CFG["gen_plugins"] = []

# a run with fewer cases than half of what the quick tier generates today would be a (partly) vacuous differential
CFG["min_cases"] = 9962
