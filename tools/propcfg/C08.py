"""Configuration of the C08 check (loaded by tools/props.py)."""
CFG = {
    'harness': 'det',
    'model': 'c08',
    'axioms': [],
    'uses_gen': True,
    'rule': 'names: every documented name (built from the boards the public API accepts) and its one-character neighbours at every position (adjacent characters, case flipped); documented-looking names with one systematic perturbation each; every Alpha16 board x every digit '
            'character 0-9A-Za-z and neighbours for B/C/A/b; PC x all two-digit numbers and near misses; multi-byte '
            'UTF-8 at every slice index; all 4-byte names over a 46-symbol alphabet (digits, letters incl. F G V W Z and '
            'lower case, + - _ space NUL, two multi-byte characters) exhaustively in the thorough tier, sampled blocks in '
            'quick; lengths 0..=8 sampled; every one of the 10 parsers on every name; u8::from_str_radix on every ASCII '
            'char and short strings for radix 16/32/10/36/2. maps: runs 0..=20000 (thorough: all; quick: every arm '
            'boundary +-2 -- boundaries found by scanning all 20001 runs with a cheap fingerprint and by mining the integer '
            'literals of aw_map.rs / padwing/map.rs -- and a stride), 2^32-1, 2^32-2, 2^32-3, 2^31, random u32: complete wire table (8 boards x 32) and '
            'pad table (71 boards x 4 x 72) through TpcWirePosition::try_new / TpcPadPosition::try_new, compared as '
            '(number of Ok entries, hash, bijective flag); for one run of every distinct table every board x every channel '
            '(wires) and every board x chip x 4 channels + one board x all 288 channels (pads) as single lookups; sampled '
            'single lookups incl. non-installed boards and out-of-range ids. geometry: '
            'phi index and containing pad column for all 256 wires, wires per column for all 32 columns, through phi(). '
            'non-trivial = a name some parser does not reject / a run with a map; distinct = distinct case',
    'trusted': [
        'tools/genx_maps.py (regex/token translator of aw_map.rs, padwing/map.rs, matching.rs into Gen/WireMaps.v, '
        'Gen/PadMaps.v; a wrong table would be caught by the differential run over complete tables)',
        'hand-written Gallina model of the parsers and map lookups (Ident/Names.v, Ident/Maps.v), tied to detector/src by '
        'differential runs',
        'Rust str semantics as encoded in Ident/Names.v (char-boundary slicing, chars() tests on ASCII classes, '
        'from_str_radix, char::to_digit)',
        'HashMap modelled as last-insertion-wins association list; lazy_static initialisation as a pure value',
        'physics/src/matching.rs wire_to_pad_column / pad_column_to_wires are shape-checked and their constants '
        'translated, but not executed by the det harness (compared against the geometry of the detector crate instead)',
    ],
    'level_text': 'Coq theorems over models of the ten bank-name parsers and of the run-number dependent wire/pad maps, '
                  'with tables and match arms regenerated from the current source on every run: exactly the documented '
                  'names are accepted (for all byte strings), they denote distinct channels, no parser panics; for every '
                  'run number (symbolically, through the arm structure) a selected map is a bijection onto the 256 wires '
                  '/ 18432 pads; simulation maps like run 5000; early runs give an error; wire-column geometry in exact '
                  'integers.',
    'level_note': 'trusted: Coq kernel; translator; hand model (tie = differential run incl. complete tables for every run '
                  'number 0..=20000 in the thorough tier); extraction; harness and driver',
    'note': 'a difference on a name is an undocumented accepted / documented rejected name or a different channel; a '
            'difference on a run line is a run number whose complete map differs from the proved one',
}

# a run with fewer cases than half of what the quick tier generates today would be a (partly) vacuous differential
CFG["min_cases"] = 8741
