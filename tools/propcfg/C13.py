"""Configuration of the C13 check (loaded by tools/props.py)."""
CFG = {
 'harness': 'phys',
 'model': 'c13',
 'ocaml_pkgs': 'zarith,coq-core.kernel',
 'ocaml_flags': '-rectypes -thread',
 # the four standard axioms of the classical reals (centroid theorems over R); for the theorems over the executable
 # binary64 skeleton the standard library's FloatAxioms ltb_spec and SF2Prim_Prim2SF (order of binary64 on hit
 # amplitudes); Print Assumptions also lists the kernel primitives PrimFloat.* / PrimInt63.* (registered
 # primitives, not logical axioms) - named here, short and qualified, because the driver compares names
 'axioms': ["ClassicalDedekindReals.sig_forall_dec", "ClassicalDedekindReals.sig_not_dec", "Classical_Prop.classic",
            "FunctionalExtensionality.functional_extensionality_dep",
            'FloatAxioms.ltb_spec', 'ltb_spec', 'FloatAxioms.SF2Prim_Prim2SF', 'SF2Prim_Prim2SF']
           + [q + n for q in ('', 'PrimFloat.') for n in ('float', 'ltb', 'eqb', 'abs', 'div', 'mul', 'sub', 'add', 'opp',
                                                         'frshiftexp', 'ldshiftexp', 'normfr_mantissa', 'of_uint63')]
           + [q + n for q in ('', 'PrimInt63.', 'Uint63.') for n in ('int', 'eqb', 'land', 'lor', 'lsl', 'lsr', 'sub')],
 'uses_gen': False,
 'rule': 'events are synthesised from a recipe (present wires as cyclic runs, response-shaped wire pulses with '
         'induced neighbour signals, optionally a signal length of its own per wire (cut or zero-extended: the max of '
         'problem_dimensions and the zero padding of y_matrix), three-row pad patterns starting one sample before the '
         'wire pulse) and built with the cfg hook MainEvent::verif_from_signals(wires, pads, 0), which fills the two '
         'signal arrays directly with already calibrated signals (NOT through try_from_banks: no bank decoding, '
         'calibration or suppression is involved in this check; that path is C09-C11). Classes: random clusters (1-4 blocks, 1-5 hits, shared time bins, stray and '
         'boundary-row pads, unmatched wire hits); one block straddling the 255/0 seam (quick: sample of lengths, '
         'thorough: every split of every length 2..24) with and without further blocks (exercises pop/swap_remove/push); '
         'edge patterns (block starting at wire 0 without 255, ending at 255 without 0, both separated by one absent '
         'wire, single wire, 255 wires, every second wire, no wires, wires without pads, pads without wires); full '
         'ring of 256 wires; exact pad-amplitude ties (incl. the F6 recipe of DESIGN.md A.12; two wire hits or one for '
         'the two tied pad hits); pad patterns with one or both neighbours at (1 - eps) * middle, eps log-uniform in '
         '1e-16..1e-3 (the ill-conditioned centroid region; the ordinary patterns keep neighbours at 0.2..0.6). Per event: one `av` '
         'line (skeleton differential: real avalanches() vs the extracted Coq skeleton replaying block finding, index '
         'bookkeeping, BTreeSet column order, hit extraction, sorting and pairing on oracle tables logged through the '
         'hooks contiguous_ranges / wire_range_deconvolution / pad_deconvolution / match_column_inputs), rotations by '
         'k pad columns (quick: k=1, 31 and two random; thorough: all 31, also for every split of the seam blocks) and the mirror as implementation-only '
         'relations (multiset of avalanches of the transformed event = transformed multiset, bit-identical for '
         'rotations, |z + z\'| <= 1e-9 m for the mirror). Relation lines of events recognised as members of an open '
         'known-finding class carry the tags relkf-fullring / relkf-padtie / relkf-illcond (recognisers computed from the '
         'event through the hooks: all 256 wires present / two pad hits of bit-identical amplitude in a time bin of a '
         'selected column / a pad hit of a selected column with middle^2/(first*last) - 1 < 3.4e-10). Each class has one '
         'documented failure prefix (fails rotation / fails mirror / fails mirror); on such lines a panic prints '
         '`fails panic:<message>`, a full-ring event must still satisfy the measured far-from-seam relation (wire '
         'amplitudes relative to the largest of the event; more than 5 wires from both seams: above 2e-2 agree to 2e-2; '
         'more than 12: above 1e-4 agree to 1e-4; more than 24: above 1e-6 agree to 1e-9 with bit-identical z and pad '
         'amplitude; else `fails far-from-seam`), a tie event must keep '
         'the multisets of (wire, t, wire amplitude), (t, pad amplitude) and, when no pad hit is left unpaired, '
         '(t, pad amplitude, |z|), every z being a mirrored pad hit of the event (else `fails pairing-lost`), an '
         'ill-conditioned event must keep everything but z, and z within 6 mm (else `fails avalanche-count` / '
         '`fails pairing` / `fails z-far`); a relkf line of an event outside its class prints `fails not-in-class`. non-trivial = at least one avalanche '
         '(av lines) / every relation line; distinct = distinct case line',
 'trusted': ['hand-written Gallina model of contiguous_ranges / range_to_indices / range_to_len / MainEvent::avalanches / '
             'matching.rs, tied to /repo by the skeleton differential (not by translation)',
             'numeric kernels are abstract in the theorems (block deconvolution D with length(D l) = length l; pad '
             'deconvolution P; centroid zf: abstract with exact antisymmetry assumed in C13_mirror_equivariant, symbolic '
             '(row, first, middle, last) in the binary64 mirror theorem, the real formula in the centroid theorems; sorts '
             '= payload-parametric / any sorting permutation); in the differential they are oracle tables logged from '
             'the implementation',
             'standard library FloatAxioms (ltb_spec, SF2Prim_Prim2SF): PrimFloat comparison = SpecFloat comparison',
             'std: Vec::pop/swap_remove/push, BTreeSet ascending iteration, slice sort_unstable_by on <= 20 elements = '
             'stable insertion sort (modelled; agreement checked on tie cases by the differential)',
             'coq-core.kernel Float64 (binary64 comparison) in the model runner; ExtrOCamlFloats'],
 'level_text': 'Coq theorems over a line-by-line model of the index skeleton of MainEvent::avalanches with abstract numeric '
               'kernels: contiguous_ranges returns exactly the maximal cyclic blocks, the blocks of the rotated ring are '
               'the rotated blocks as a set, every kernel call of the rotated event receives the same argument list, hence '
               'for every event that is not a full ring and every k < 32 the avalanches of the rotated event are a '
               'permutation of the wire-shifted avalanches (t, z, amplitudes untouched) - also for the executable binary64 '
               'skeleton. Mirror: for the executable binary64 skeleton (no premise on kernels or amplitudes; the order '
               'premises hold for hit amplitudes, which are positive and not NaN) mirroring rows maps each avalanche, in '
               'the same order, to the same wire/time/amplitudes with z = zf(575 - row, last, middle, first) in place of '
               'zf(row, first, middle, last), unless two pad hits tie in one time bin: pairing, sorting and ordering are '
               'proved mirror invariant for floats. The numeric centroid formula itself is antisymmetric over the reals '
               '(proved); in binary64 it is NOT antisymmetric to 1e-9 m when middle^2/(first*last) - 1 < 3.4e-10 (open '
               'finding F11, binary64 witness proved without libm) and is measured, not proved, outside that class. The '
               'two classes excluded by hypothesis are refuted by witnesses (open known findings F3, F6). The model is tied to the Rust code by a '
               'differential run with oracle tables on every check, and the relations are also evaluated on the '
               'implementation alone.',
 'level_note': 'trusted: Coq kernel; hand-written skeleton model (tie = differential with oracle tables); kernel laws assumed as '
               'explicit premises of the theorems (length law of D for the rotation; none for the binary64 mirror theorem); '
               'FloatAxioms ltb_spec / SF2Prim_Prim2SF; NOT proved: the binary64 rounding of the centroid formula outside '
               'the class centroid_ill_conditioned (measured against 1e-9 m by rel-mir); extraction (ExtrOcamlBasic, ExtrOCamlFloats); harness and driver',
 'note': 'rel-* lines are implementation-only relations (model prints holds); relkf-fullring / relkf-padtie / relkf-illcond '
         'lines may print `fails rotation ...` / `fails mirror ...` / `fails mirror ...` on the unchanged tree (open '
         'findings F3 full_ring_256, F6 pad_amplitude_tie, F11 centroid_ill_conditioned) and nothing else',
}

CFG["level_extra"] = ("The zf-antisymmetry premise of the abstract mirror theorem is discharged for the real (exact-arithmetic) centroid formula of matching.rs and the row positions of padwing/map.rs (C13_centroid_antisymmetric_real, C13_pad_row_z_antisymmetric, C13_mirror_equivariant_real). The comparability premise is restricted to hit amplitudes (false for arbitrary binary64 values: C13_float_order_not_total; true for binary64 hit amplitudes: C13_float_hit_amplitudes_ordered) and the theorem is instantiated on the executable binary64 skeleton with a symbolic z (C13_mirror_equivariant_symbolic, C13_mirror_equivariant_executable, C13_executable_factor). What is left is the binary64 rounding of the one centroid formula: NOT within 1e-9 m for ill-conditioned hits (finding F11: C13_centroid_ill_conditioned_witness; |z + z'| up to 2.5e-4 m measured, bounded by 0.002 * 1.5 * 2^-53 / (middle^2/(first*last) - 1) + 6e-16 m), measured by rel-mir outside that class.")

# the pinned theorems depend on regenerated tables (coq/Gen): a failing translator is a broken tie
CFG["uses_gen"] = True

# a run with fewer cases than half of what the quick tier generates today would be a (partly) vacuous differential
CFG["min_cases"] = 1432
