"""Configuration of the C13 check (loaded by tools/props.py)."""
CFG = {
 'harness': 'phys',
 'model': 'c13',
 'ocaml_pkgs': 'zarith,coq-core.kernel',
 'ocaml_flags': '-rectypes -thread',
 # kernel primitives (Coq.Floats.PrimFloat: `Primitive float`, `Primitive ltb`), listed by Print Assumptions
 # for the one theorem stated over the executable binary64 instance; no logical axiom is used
 'axioms': ["ClassicalDedekindReals.sig_forall_dec", "ClassicalDedekindReals.sig_not_dec", "Classical_Prop.classic", "FunctionalExtensionality.functional_extensionality_dep", 'PrimFloat.float', 'PrimFloat.ltb'],
 'uses_gen': False,
 'rule': 'events are synthesised from a recipe (present wires as cyclic runs, response-shaped wire pulses with '
         'induced neighbour signals, three-row pad patterns starting one sample before the wire pulse) and built with '
         'MainEvent::verif_from_signals. Classes: random clusters (1-4 blocks, 1-5 hits, shared time bins, stray and '
         'boundary-row pads, unmatched wire hits); one block straddling the 255/0 seam (quick: sample of lengths, '
         'thorough: every split of every length 2..24) with and without further blocks (exercises pop/swap_remove/push); '
         'edge patterns (block starting at wire 0 without 255, ending at 255 without 0, both separated by one absent '
         'wire, single wire, 255 wires, every second wire, no wires, wires without pads, pads without wires); full '
         'ring of 256 wires; exact pad-amplitude ties (incl. the F6 recipe of DESIGN.md A.12). Per event: one `av` '
         'line (skeleton differential: real avalanches() vs the extracted Coq skeleton replaying block finding, index '
         'bookkeeping, BTreeSet column order, hit extraction, sorting and pairing on oracle tables logged through the '
         'hooks contiguous_ranges / wire_range_deconvolution / pad_deconvolution / match_column_inputs), rotations by '
         'k pad columns (quick: k=1, 31 and two random; thorough: all 31) and the mirror as implementation-only '
         'relations (multiset of avalanches of the transformed event = transformed multiset, bit-identical for '
         'rotations, |z + z\'| <= 1e-9 m for the mirror). Relation lines of events recognised as members of an open '
         'known-finding class carry the tags relkf-fullring / relkf-padtie. non-trivial = at least one avalanche '
         '(av lines) / every relation line; distinct = distinct case line',
 'trusted': ['hand-written Gallina model of contiguous_ranges / range_to_indices / range_to_len / MainEvent::avalanches / '
             'matching.rs, tied to /repo by the skeleton differential (not by translation)',
             'numeric kernels are abstract in the theorems (block deconvolution D with length(D l) = length l; pad '
             'deconvolution P; centroid zf with exact antisymmetry assumed for the mirror; sorts = payload-parametric '
             '/ any sorting permutation); in the differential they are oracle tables logged from the implementation',
             'std: Vec::pop/swap_remove/push, BTreeSet ascending iteration, slice sort_unstable_by on <= 20 elements = '
             'stable insertion sort (modelled; agreement checked on tie cases by the differential)',
             'coq-core.kernel Float64 (binary64 comparison) in the model runner; ExtrOCamlFloats'],
 'level_text': 'Coq theorems over a line-by-line model of the index skeleton of MainEvent::avalanches with abstract numeric '
               'kernels: contiguous_ranges returns exactly the maximal cyclic blocks, the blocks of the rotated ring are '
               'the rotated blocks as a set, every kernel call of the rotated event receives the same argument list, hence '
               'for every event that is not a full ring and every k < 32 the avalanches of the rotated event are a '
               'permutation of the wire-shifted avalanches (t, z, amplitudes untouched); mirroring rows maps each avalanche '
               'to the same wire/time/amplitudes with z negated unless two pad hits tie in one time bin. The two excluded '
               'classes are refuted by witnesses (open known findings F3, F6). The model is tied to the Rust code by a '
               'differential run with oracle tables on every check, and the relations are also evaluated on the '
               'implementation alone.',
 'level_note': 'trusted: Coq kernel; hand-written skeleton model (tie = differential with oracle tables); kernel laws assumed as '
               'explicit premises of the theorems; extraction (ExtrOcamlBasic, ExtrOCamlFloats); harness and driver',
 'note': 'rel-* lines are implementation-only relations (model prints holds); relkf-fullring / relkf-padtie lines are '
         'expected to print `fails ...` on the unchanged tree (open findings F3 full_ring_256, F6 pad_amplitude_tie)',
}

CFG["level_extra"] = ("The zf-antisymmetry premise of the mirror theorem is discharged for the real (exact-arithmetic) centroid formula of matching.rs and the row positions of padwing/map.rs (C13_centroid_antisymmetric_real, C13_pad_row_z_antisymmetric, C13_mirror_equivariant_real); what remains between that and binary64 is rounding, bounded by the property's 1e-9 m and measured by rel-mir.")

# the pinned theorems depend on regenerated tables (coq/Gen): a failing translator is a broken tie
CFG["uses_gen"] = True
