"""Configuration of the C13 check (loaded by tools/props.py)."""
CFG = {
 'harness': 'phys',
 'model': 'c13',
 'ocaml_pkgs': 'zarith,coq-core.kernel',
 'ocaml_flags': '-rectypes -thread',
 'axioms': [],
 'uses_gen': False,
 'rule': 'placeholder',
 'trusted': [],
 'level_text': 'placeholder',
 'level_note': 'placeholder',
 'note': 'placeholder',
}
