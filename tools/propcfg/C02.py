"""Configuration of the C02 check (loaded by tools/props.py)."""
CFG = {'harness': 'det',
 'axioms': [],
 'uses_gen': True,
 'rule': 'large packets: keep_last = 2^k and 2^k+-1 for k=6..11 on accepted packets, sample counts 8190/32766/65532/65533; decision table of the property text (sample count around 63/64/last_index x suppression x keep_bit x '
         'keep_last around 0/33/34/last-index boundary/4095 x requested_samples in {0,1,2,n+1,n+2,n+3,n+100}) with '
         'sample fills incl. i16 extremes and negative sums not divisible by 64; short form with all flag/unused-bit '
         'combinations; valid packets with one field changed (22 kinds), truncations/extensions, byte changes; lengths '
         '0..=120; random bytes. non-trivial = at least 16 bytes with type 1 and version 3; distinct = distinct bytes',
 'trusted': ['hand-written Gallina model of the decoder, tied to detector/src by differential runs (not by '
             'translation)',
             'rustc/LLVM/std slice and integer semantics as encoded in Base/Res.v, Base/Bytes.v (slice/idx/arr panic '
             "exactly when Rust's do)",
             'tools/gen.py translator (ALPHA16BOARDS, BASELINE_SAMPLES, MIN_KEEP_LAST regenerated into '
             'coq/Gen/Boards.v each run)'],
 'level_text': 'Coq theorem adc_exact over a line-by-line model of AdcV3Packet::try_from (panic-aware, both overflow '
               'modes, any MAC table): accepted iff the field/consistency rules hold over Z and the bytes are the '
               'documented big-endian layout of the accessor values (up to the two unused footer bits); floor-mean '
               'lemma; never a panic; checked and wrapping builds agree. All byte lists, no bound.',
 'level_note': 'trusted: Coq kernel; hand model tied by differential run (all 14 accessors incl. every waveform sample '
               'compared); board table and constants regenerated from source each run and re-checked by '
               'C02_consts_current; extraction; harness',
 'note': 'model = spec by C02_adc_exact, so a difference is an input on which the implementation departs from the '
         'documented layout/rules',
 'model': 'det'}

# translator plugins this property needs besides the board tables of tools/gen.py (none)
CFG["gen_plugins"] = []

# a run with fewer cases than half of what the quick tier generates today would be a (partly) vacuous differential
CFG["min_cases"] = 3057
