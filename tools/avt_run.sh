#!/bin/sh
# Differential validation of the panic-aware model of MainEvent::avalanches (coq/Signal/AvalTotal.v,
# extraction unit `avt`) against the implementation, on the `av` case lines of the C13 harness.
#   tools/avt_run.sh [tier=quick] [seed=1]
# 1. builds the phys harness and the extracted runner (same functions the driver uses),
# 2. generates the C13 case set with the existing harness (vphys gen C13 <tier> <seed> <dir>) and adds the
#    `av` lines of corpus/C13, corpus/C09 and corpus/C09/avt.case.off (rename to avt.case once C09 has model_units),
# 3. observes every `av` line on the real implementation (vphys obs) and on the extracted res-monad model,
# 4. diffs.  Exit 0 and "avt: N cases, 0 differences" when they agree on every line; exit 1 otherwise
#    (a `panic` printed by the model on a case the implementation survives is a difference).
set -e
ROOT=$(cd "$(dirname "$0")/.." && pwd)
TIER=${1:-quick}
SEED=${2:-1}
OUT=${AVT_OUT:-$ROOT/.build/avt-run}
rm -rf "$OUT"
mkdir -p "$OUT"

python3 - "$ROOT" "$OUT" <<'PY'
import sys
root, out = sys.argv[1], sys.argv[2]
sys.path.insert(0, root + "/tools")
import vlib
with vlib.Lock("build"):
    exe, log = vlib.build_harness("phys")
    if exe is None:
        sys.stderr.write(log[-3000:]); raise SystemExit("avt: harness build failed")
    run, log = vlib.build_modelrun("avt", ocaml_pkgs="zarith,coq-core.kernel", ocaml_flags="-rectypes -thread")
    if run is None:
        sys.stderr.write(log[-3000:]); raise SystemExit("avt: model runner build failed")
open(out + "/paths", "w").write(exe + "\n" + run + "\n")
PY
VPHYS=$(sed -n 1p "$OUT/paths")
MODEL=$(sed -n 2p "$OUT/paths")

mkdir -p "$OUT/gen"
"$VPHYS" gen C13 "$TIER" "$SEED" "$OUT/gen" > "$OUT/gen.log" 2>&1 || { cat "$OUT/gen.log"; echo "avt: case generation failed"; exit 2; }
: > "$OUT/av.cases"
for f in "$ROOT"/corpus/C13/*.case "$ROOT"/corpus/C09/*.case "$ROOT"/corpus/C09/avt.case.off; do
  [ -f "$f" ] && grep -h '^av ' "$f" >> "$OUT/av.cases" || true
done
grep '^av ' "$OUT/gen/cases.txt" >> "$OUT/av.cases"
N=$(wc -l < "$OUT/av.cases")
"$VPHYS" obs < "$OUT/av.cases" > "$OUT/impl.obs"
"$MODEL" < "$OUT/av.cases" > "$OUT/model.obs"
if diff "$OUT/impl.obs" "$OUT/model.obs" > "$OUT/diff.txt"; then
  NT=$(grep -c 'A=[0-9]' "$OUT/impl.obs" || true)
  echo "avt: $N cases ($NT with avalanches), 0 differences (tier $TIER, seed $SEED)"
  exit 0
else
  D=$(grep -c '^<' "$OUT/diff.txt" || true)
  echo "avt: $N cases, $D differences; see $OUT/diff.txt"
  L=$(diff "$OUT/impl.obs" "$OUT/model.obs" | sed -n 's/^\([0-9]*\).*/\1/p' | head -1)
  echo "first differing case (line $L of $OUT/av.cases):"
  sed -n "${L}p" "$OUT/av.cases" | cut -c1-300
  exit 1
fi
