#!/usr/bin/env python3
"""Run the registered quick check(s) against a seeded change WITHOUT touching /repo or /verif's build caches.

  tools/seedcheck.py seeded/<id> [--tier quick|thorough] [--props C02,C01]

A scratch worktree of /repo gets the patch, a scratch copy of /verif (without .git and cargo caches) runs
`./check <property>` with VERIF_REPO pointing at the scratch worktree.  Prints the check's tail and whether a
VIOLATION line was reported; everything is removed afterwards.  (Equivalent to `git -C /repo apply`, run,
`git -C /repo checkout -- .`, but safe while other work is going on in /repo and /verif.)
"""
import json
import os
import shutil
import subprocess
import sys

ROOT = os.path.dirname(os.path.dirname(os.path.abspath(__file__)))


def sh(cmd, **kw):
    return subprocess.run(cmd, shell=True, stdout=subprocess.PIPE, stderr=subprocess.STDOUT, **kw)


def main():
    d = os.path.abspath(sys.argv[1])
    tier = "quick"
    if "--tier" in sys.argv:
        tier = sys.argv[sys.argv.index("--tier") + 1]
    mp = os.path.join(d, "meta.json")
    meta = json.load(open(mp)) if os.path.exists(mp) else {}
    props = meta.get("detected_by_checks") or ([meta["property"]] if "property" in meta else [])
    if "--props" in sys.argv:
        props = sys.argv[sys.argv.index("--props") + 1].split(",")
    if "--auto" in sys.argv or not props:
        # every property anchored in a file the patch touches (vlib.WATCH)
        sys.path.insert(0, os.path.join(ROOT, "tools"))
        import vlib
        changed = [l[6:].strip() for l in open(os.path.join(d, "patch.diff")) if l.startswith("+++ b/")]
        props = sorted(p for p, ws in vlib.WATCH.items()
                       if any(c == w or c.startswith(w.rstrip("/") + "/") for c in changed for w in ws))
    tag = "-".join(d.strip("/").split("/")[-3:]) if not meta else os.path.basename(d)
    base = "/tmp/seedrun/" + tag
    shutil.rmtree(base, ignore_errors=True)
    os.makedirs(base)
    repo = base + "/repo"
    try:
        r = sh("git -C /repo worktree add -q --detach %s HEAD" % repo)
        assert r.returncode == 0, r.stdout
        r = sh("git -C %s apply %s" % (repo, os.path.join(d, "patch.diff")))
        assert r.returncode == 0, r.stdout.decode()
        v = base + "/verif"
        r = sh("rsync -a --exclude .git --exclude '.build/cargo-*' --exclude '.build/run' --exclude replays %s/ %s/" % (ROOT, v))
        assert r.returncode == 0, r.stdout
        os.makedirs(v + "/replays", exist_ok=True)
        sh("sed -i 's#\"/repo/#\"%s/#' %s/harness/*/Cargo.toml" % (repo, v))
        env = dict(os.environ, VERIF_REPO=repo)
        results = {}
        for pid in props:
            r = sh("./check %s --tier %s" % (pid, tier), cwd=v, env=env)
            out = r.stdout.decode("utf-8", "replace")
            viol = [l for l in out.splitlines() if l.startswith("VIOLATION")]
            results[pid] = dict(exit=r.returncode, violation_lines=viol[:3], tail=out.splitlines()[-6:])
            print("== %s on %s: exit %d, %d VIOLATION line(s)" % (pid, tag, r.returncode, len(viol)))
            for l in out.splitlines()[-8:]:
                print("   " + l[:300])
            # keep one replay for inspection
            for f in sorted(os.listdir(v + "/replays"))[:1]:
                if f.endswith(".json"):
                    print("   replay:", open(os.path.join(v, "replays", f)).read()[:600].replace("\n", " "))
        print(json.dumps({"seed": tag, "results": {k: dict(exit=x["exit"], violations=len(x["violation_lines"])) for k, x in results.items()}}))
    finally:
        sh("git -C /repo worktree remove --force %s" % repo)
        shutil.rmtree(base, ignore_errors=True)


if __name__ == "__main__":
    main()
