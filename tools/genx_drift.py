"""Translator plugin (C18): regenerates coq/Gen/Drift.v on every run with the drift tables the library REALLY uses.

Source of the values: `alpha_g_physics::verif::drift_tables()` (hook at the end of physics/src/drift.rs: the
`DRIFT_TABLES` static exactly as `serde_json::from_slice` parsed the embedded JSON), dumped as bit patterns by
the phys harness (`vphys obs`, case line `drift-dump`).  A re-parse of the JSON text by another parser is NOT
equivalent: serde_json's default float parser is not correctly rounded (on the shipped file thousands of entries
are 1 ulp away from the correctly rounded value, e.g. 0.18193299999999998 -> 0x3fc749949e8815e4, correctly
rounded ...e3), and the lookup results depend on the last bit.

Tie to the data file, checked here on every run: the JSON
(/repo/physics/data/simulation/drift_table/drift_1T_70Ar_30CO2.json, layout fixed by the Deserialize derives
of drift.rs:  DriftTables(Vec<(DriftTable, Length)>) = [[table, z_upper_bound], ...],
DriftTable(Vec<(Time, Length, Angle)>) = [[time, radius, correction], ...]; a uom Quantity (de)serialises as its
bare f64 value in SI base units) is parsed with Python (`float(str)` is correctly rounded); the dump must have the
same shape and every value must be within 1 ulp of the correctly rounded one, else GenError.

Every number is written as an exact hexadecimal primitive-float literal.  The differential harness compares the
generated file with `verif::drift_tables()` again at run time (case lines `drift-tab <i>`).
"""
import json
import math
import os
import re
import struct

import gen
import vlib

JSON = "physics/data/simulation/drift_table/drift_1T_70Ar_30CO2.json"
SRC = "physics/src/drift.rs"


def hexlit(x):
    if math.isnan(x) or math.isinf(x):
        raise gen.GenError("drift table: non-finite entry")
    h = x.hex()  # e.g. 0x1.91eb851eb851fp-3, -0x0.0p+0
    if h.startswith("-"):
        return "(-%s)" % h[1:]
    return h


def check_source_shape():
    """the Deserialize derives that fix the JSON layout, the file that is embedded, and the hook"""
    src = gen.strip_comments(open(os.path.join(gen.REPO, SRC)).read())
    flat = " ".join(src.split())
    # only what this translator really relies on: the data file that is embedded and the hook that exposes the parsed
    # tables; how drift.rs stores them internally (tuple structs, struct-of-arrays, ...) is irrelevant - the tables are
    # taken from the implementation through the hook and compared value by value with the JSON text
    need = [
        r'include_bytes!\s*\(\s*"[^"]*drift_table/drift_1T_70Ar_30CO2\.json"\s*\)',
        r"fn verif_drift_tables\(\)",
    ]
    for pat in need:
        if not re.search(pat, flat):
            raise gen.GenError("drift.rs: expected shape not found: %s" % pat)


def bits(x):
    return struct.unpack("<q", struct.pack("<d", x))[0]


def ordered(x):
    """monotone map float -> int (ulp distance = difference)"""
    b = bits(x)
    return b if b >= 0 else -(b & 0x7FFFFFFFFFFFFFFF)


def dump_from_implementation():
    exe, out = vlib.build_harness("phys")
    if exe is None:
        raise gen.GenError("phys harness does not build against /repo: " + out[-600:])
    rc, out = vlib.sh([exe, "obs"], stdin=b"drift-dump\n", timeout=900)
    line = out.split("\n")[0] if rc == 0 else ""
    parts = line.split(" | ")
    if rc != 0 or not parts[0].isdigit():
        raise gen.GenError("drift-dump failed: %r" % out[:300])
    tabs = []
    for p in parts[1:]:
        f = p.split(" ")
        n = int(f[0])
        vals = [struct.unpack("<d", struct.pack("<Q", int(h, 16)))[0] for h in f[1:]]
        if len(vals) != 1 + 3 * n:
            raise gen.GenError("drift-dump: malformed table")
        tabs.append(([tuple(vals[1 + 3 * k:4 + 3 * k]) for k in range(n)], vals[0]))
    if len(tabs) != int(parts[0]):
        raise gen.GenError("drift-dump: table count mismatch")
    return tabs


def compare_with_json(tabs):
    """shape equal, every value within 1 ulp of the correctly rounded JSON number; returns (entries, off-by-one)"""
    with open(os.path.join(gen.REPO, JSON)) as f:
        data = json.load(f)
    if not isinstance(data, list) or len(data) != len(tabs):
        raise gen.GenError("drift JSON: %s tables, implementation has %d" % (len(data) if isinstance(data, list) else "?", len(tabs)))
    total = off = 0

    def cmp(a, b, where):
        nonlocal total, off
        if isinstance(a, bool) or not isinstance(a, (int, float)):
            raise gen.GenError("drift JSON: non-numeric entry at %s" % where)
        d = abs(ordered(float(a)) - ordered(b))
        total += 1
        if d > 1:
            raise gen.GenError("drift JSON %s: %r but the library uses %r (%d ulp apart)" % (where, a, b, d))
        off += d

    for i, (entry, (tab, zb)) in enumerate(zip(data, tabs)):
        if not (isinstance(entry, list) and len(entry) == 2 and isinstance(entry[0], list)):
            raise gen.GenError("drift JSON table %d: not a [table, bound] pair" % i)
        if len(entry[0]) != len(tab):
            raise gen.GenError("drift JSON table %d: %d knots, implementation has %d" % (i, len(entry[0]), len(tab)))
        cmp(entry[1], zb, "table %d bound" % i)
        for j, (k, kk) in enumerate(zip(entry[0], tab)):
            if not (isinstance(k, list) and len(k) == 3):
                raise gen.GenError("drift JSON table %d knot %d: not a [time, radius, correction] triple" % (i, j))
            for c in range(3):
                cmp(k[c], kk[c], "table %d knot %d field %d" % (i, j, c))
    return total, off


def generate():
    check_source_shape()
    tabs = dump_from_implementation()
    total, off = compare_with_json(tabs)
    out = [gen.HEADER.replace("tools/gen.py", "tools/genx_drift.py")]
    out.append("From Coq Require Import Floats.\n")
    out.append("(* verif::drift_tables() of /repo (= serde_json parse of %s): %d tables;\n"
               "   knot = (time [s], radius [m], Lorentz correction [rad]); each table is paired with the upper |z| bound [m]\n"
               "   of its slice. Exact binary64 values as the library uses them; %d of %d entries are 1 ulp away from the\n"
               "   correctly rounded JSON number (serde_json's default float parser), none further. *)\n"
               % (JSON, len(tabs), off, total))
    out.append("Local Open Scope float_scope.\n")
    names = []
    for i, (tab, zb) in enumerate(tabs):
        rows = ["(%s,%s,%s)" % (hexlit(k[0]), hexlit(k[1]), hexlit(k[2])) for k in tab]
        out.append("Definition drift_table_%d : list (float * float * float) :=\n [%s].\n"
                   % (i, ";\n  ".join(rows)))
        names.append("(drift_table_%d, %s)" % (i, hexlit(zb)))
    out.append("Definition drift_tables : list (list (float * float * float) * float) :=\n [%s].\n"
               % ";\n  ".join(names))
    gen.write_if_changed(os.path.join(gen.GEN, "Drift.v"), "".join(out))
