"""Translator plugin (end-to-end event model, C09/C10/C11): regenerates coq/Gen/Calib.v on every run from the
CURRENT calibration sources of /repo:

  physics/src/calibration/{wires,pads}/{baseline,gain,delay}.rs
      - the `includes!` list (which data files are embedded),
      - the `lazy_static!` maps (`complete_from_bytes(BYTES_X)` / `update_previous_from_bytes(&MAP_P, BYTES_X)`),
      - the `match run_number` arms in source order (shapes `u32::MAX`, `k..`, `k`, `_ => return Err(..)`),
      - for the delays the `Ok(<n>)` bodies of the arms;
  physics/data/calibration/**    the embedded JSON (wires) and RON (pads) files.

Generated: per family a list of tables (one per `static ref`, in source order) and the arms as
`list (rpat * option N)` for Ident.Dispatch.dispatch:
  wire_baseline_tables : list (list (option Z))           table -> wire index (256)
  wire_gain_tables     : list (list (option (Z * Z)))     gain = mantissa * 2^exponent, exactly (static data for
                                                          the extraction; Event/E2E.v f64_of_parts rebuilds the f64)
  pad_baseline_tables  : list (list (list (option Z)))    table -> column (32) -> row (576)
  pad_gain_tables      : list (list (list (option (Z * Z))))
  wire_delay_arms, pad_delay_arms : the delay itself is the body of the arm.

Values.  baseline = `baseline.round() as i16` of the first component of the (f64, f64, usize) triple: computed here
exactly (round half away from zero, saturating cast) from the correctly rounded decimal.  gain = the f64 as parsed by
the library.  serde_json's default float parser is NOT correctly rounded (see tools/genx_drift.py), so a Python
re-parse alone could be 1 ulp off: the gains are therefore dumped from the implementation through the hooks
`alpha_g_physics::verif::{wire_calibration, pad_calibration}` (phys harness, case line `calib-dump <run>`), and each
dumped gain must be within 1 ulp of the correctly rounded number in the data file; the dumped bit pattern is what is
written.  An entry the hooks cannot show (its run class has no baseline/delay) keeps the correctly rounded value.  If
the implementation's value is further away, or its baseline differs from the one computed here, the value computed
from the data FILE is written, so that the differential run (case lines `calw` / `calp`, every entry of every table
on every run class) reports the run number and table on which implementation and data file disagree.

Unknown shapes raise gen.GenError (a broken tie)."""
import json
import math
import os
import re
import struct
from fractions import Fraction

import dispatchx as dx
import gen
import vlib

SRC = "physics/src/calibration"
N_WIRES, N_COLS, N_ROWS = 256, 32, 576
U32_MAX = 2 ** 32 - 1
SEG = 64


# ----------------------------------------------------------------------------------------- source shapes
def flat(path):
    return " ".join(gen.strip_comments(open(os.path.join(gen.REPO, path)).read()).split())


def parse_includes(src, path):
    m = re.search(r"includes!\s*\{(.*?)\}", src)
    if not m:
        raise gen.GenError("%s: includes! block not found" % path)
    body = m.group(1)
    dp = re.search(r'DATA_PATH\s*=\s*"([^"]*)"\s*;', body)
    if not dp:
        raise gen.GenError("%s: DATA_PATH not found" % path)
    rest = body[dp.end():]
    files = {}
    for item in [x.strip() for x in rest.split(",") if x.strip()]:
        mm = re.fullmatch(r'(\w+)\s*=\s*"([^"]*)"', item)
        if not mm:
            raise gen.GenError("%s: unknown includes! entry %r" % (path, item))
        files[mm.group(1)] = mm.group(2)
    data_dir = os.path.normpath(os.path.join(os.path.dirname(os.path.join(gen.REPO, path)), dp.group(1)))
    return data_dir, files


def parse_statics(src, path):
    """[(MAP_NAME, kind, previous or None, BYTES_NAME)] in source order"""
    i = src.find("lazy_static!")
    if i < 0:
        raise gen.GenError("%s: lazy_static! block not found" % path)
    out = []
    for item in [x.strip() for x in dx.brace_body(src, i).split(";") if x.strip()]:
        mm = re.fullmatch(r"static ref (\w+)\s*:\s*HashMap<\s*\w+\s*,\s*\w+\s*>\s*=\s*(.+)", item)
        if not mm:
            raise gen.GenError("%s: unknown lazy_static item %r" % (path, item))
        name, init = mm.group(1), mm.group(2).strip()
        c = re.fullmatch(r"complete_from_bytes\(\s*(\w+)\s*\)", init)
        u = re.fullmatch(r"_?update_previous_from_bytes\(\s*&\s*\*?\s*(\w+)\s*,\s*(\w+)\s*\)", init)
        if c:
            out.append((name, "complete", None, c.group(1)))
        elif u:
            out.append((name, "update", u.group(1), u.group(2)))
        else:
            raise gen.GenError("%s: unknown map constructor %r" % (path, init))
    return out


def read_map_dispatch(src, path, fn, names):
    """the run-number dispatch of a map look-up function as canonical arms whose values are the NAMES of the selected
    `static ref` maps (None: no map); dispatchx front end: match / if chains / guards / named constants / closed ranges"""
    consts = dx.int_consts(src)
    block = dx.parse_body(dx.fn_body(src, "fn " + fn))
    early, lets = dx.dispatch_statements(block)
    if len(lets) != 1:
        raise gen.GenError("%s: %d `let .. = match/if` statements on run_number in %s" % (path, len(lets), fn))
    k, _, node = lets[0]

    def resolve(leaf):
        if dx.leaf_is_err(leaf):
            return None
        n = dx.leaf_table(leaf)
        if n is None:
            raise gen.GenError("%s: unknown arm body %r" % (path, dx.show(leaf)))
        if n not in names:
            raise gen.GenError("%s: arm selects unknown map %s" % (path, n))
        return n
    return dx.canonical_arms(dx.tree_function([e for j, e in early if j < k] + [node], consts, resolve))


def read_delay_dispatch(src, path, fn):
    """canonical arms of a delay function: value = the delay of `Ok(<constant>)`, None for `Err(..)`"""
    consts = dx.int_consts(src)
    block = dx.parse_body(dx.fn_body(src, "fn " + fn))

    def resolve(leaf):
        if dx.leaf_is_err(leaf):
            return None
        v = dx.leaf_ok_int(leaf, consts)
        if v is None:
            raise gen.GenError("%s: unknown delay arm body %r" % (path, dx.show(leaf)))
        return v
    return dx.canonical_arms(dx.tree_function(block, consts, resolve))


def legacy(arms):
    """canonical arms -> [(coq pattern, (kind, v), body)]"""
    pat = {"eq": "PEq %d", "ge": "PGe %d", "any": "PAny"}
    return [((pat[k] % n) if k != "any" else "PAny", (k, n), v) for k, n, v in arms]


def need(src, path, pats):
    for p in pats:
        if not re.search(p, src):
            raise gen.GenError("%s: expected shape not found: %s" % (path, p))


def dispatch(arms, run):
    for _, (kind, v), body in arms:
        if kind == "any" or (kind == "eq" and run == v) or (kind == "ge" and run >= v):
            return body
    return None


# ----------------------------------------------------------------------------------------- data files
NUM = r"[-+]?(?:\d+\.?\d*(?:[eE][-+]?\d+)?|\.\d+(?:[eE][-+]?\d+)?)"
RON_TOK = re.compile(r"\s*(?:(" + NUM + r")|([A-Za-z_]\w*)|([{}():,]))")


def ron_tokens(text, path):
    pos, out, n = 0, [], len(text.rstrip())
    while pos < n:
        m = RON_TOK.match(text, pos)
        if not m:
            raise gen.GenError("%s: cannot tokenise RON near %r" % (path, text[pos:pos + 40]))
        out.append(m.group(1) or m.group(2) or m.group(3))
        pos = m.end()
    return out


def parse_ron_map(path):
    """{(column:c,row:r): VALUE, ...} with VALUE = number | (number, number, int) | Some(VALUE) | None;
    returns [((c, r), value)] in file order, value = float | (float, float, int) | None"""
    t = ron_tokens(open(path).read(), path)
    i = 0

    def expect(x):
        nonlocal i
        if i >= len(t) or t[i] != x:
            raise gen.GenError("%s: RON: expected %r at token %d, found %r" % (path, x, i, t[i] if i < len(t) else None))
        i += 1

    def number():
        nonlocal i
        if i >= len(t) or not re.fullmatch(NUM, t[i]):
            raise gen.GenError("%s: RON: number expected at token %d" % (path, i))
        i += 1
        return t[i - 1]

    def value():
        nonlocal i
        if t[i] == "None":
            i += 1
            return None
        if t[i] == "Some":
            i += 1
            expect("(")
            v = value()
            expect(")")
            return v
        if t[i] == "(":
            i += 1
            a = float(number())
            expect(",")
            b = float(number())
            expect(",")
            c = number()
            if not re.fullmatch(r"\d+", c):
                raise gen.GenError("%s: RON: third component is not an unsigned integer" % path)
            if t[i] == ",":
                i += 1
            expect(")")
            return (a, b, int(c))
        return float(number())

    out = []
    expect("{")
    while t[i] != "}":
        expect("(")
        fields = {}
        for _ in range(2):
            nm = t[i]
            i += 1
            expect(":")
            v = number()
            if not re.fullmatch(r"\d+", v) or nm not in ("column", "row") or nm in fields:
                raise gen.GenError("%s: RON: bad pad position key" % path)
            fields[nm] = int(v)
            if t[i] == ",":
                i += 1
        expect(")")
        expect(":")
        out.append(((fields["column"], fields["row"]), value()))
        if t[i] == ",":
            i += 1
    i += 1
    if i != len(t):
        raise gen.GenError("%s: RON: trailing input" % path)
    return out


def parse_json_map(path):
    def pairs(ps):
        return ps  # keep file order and duplicates
    data = json.load(open(path), object_pairs_hook=pairs)
    if not isinstance(data, list):
        raise gen.GenError("%s: JSON: top level is not an object" % path)
    out = []
    for k, v in data:
        if not re.fullmatch(r"\d+", k):
            raise gen.GenError("%s: JSON: key %r is not a wire index" % (path, k))
        if isinstance(v, list):
            if len(v) != 3 or isinstance(v[2], float) or any(isinstance(x, (bool, list, dict, str)) or x is None for x in v):
                raise gen.GenError("%s: JSON: value of %s is not a (f64, f64, usize) triple" % (path, k))
            v = (float(v[0]), float(v[1]), int(v[2]))
        elif isinstance(v, bool) or not (v is None or isinstance(v, (int, float))):
            raise gen.GenError("%s: JSON: unknown value for %s" % (path, k))
        elif v is not None:
            v = float(v)
        out.append((int(k), v))
    return out


def round_i16(x):
    """f64::round (half away from zero) followed by `as i16` (saturating, NaN -> 0)"""
    if math.isnan(x):
        return 0
    if math.isinf(x):
        return 32767 if x > 0 else -32768
    f = Fraction(x)
    r = math.floor(abs(f) + Fraction(1, 2))
    r = r if f >= 0 else -r
    return max(-32768, min(32767, r))


def load_family(path_rs, fn, family, quantity):
    """the `static ref` maps of one calibration source file BY NAME (their order and names carry no meaning) and the
    dispatch, as canonical arms over map names (None when the front end cannot read it; `why` says why);
    a table is a dict key -> value (int baseline | float gain)"""
    src = flat(path_rs)
    data_dir, files = parse_includes(src, path_rs)
    statics = parse_statics(src, path_rs)
    names = [s[0] for s in statics]
    if quantity == "baseline":
        need(src, path_rs, [r"\(\s*baseline\s*,\s*_\s*,\s*_\s*\)", r"baseline\.round\(\) as i16",
                            r"HashMap<\s*\w+\s*,\s*\(\s*f64\s*,\s*f64\s*,\s*usize\s*\)\s*>"])
    # how the selected map is looked up (`map.get(&key).copied().ok_or(..)`, a `match map.get(..)`, ...) is not checked
    # here: every entry of every table is compared with the implementation's answer (gain adoption below, `calw` / `calp`
    # lines of the differential run)
    if family == "wires":
        need(src, path_rs, [r"serde_json::from_slice\(bytes\)\.unwrap\(\)"])
    else:
        need(src, path_rs, [r"ron::de::from_bytes\(bytes\)\.unwrap\(\)"])
    tables, used = {}, {}
    by_name = {s[0]: s for s in statics}
    if len(by_name) != len(statics):
        raise gen.GenError("%s: two maps of the same name" % path_rs)

    def build(name, pending):
        if name in tables:
            return tables[name]
        if name in pending:
            raise gen.GenError("%s: %s is defined in terms of itself" % (path_rs, name))
        _, kind, prev, bname = by_name[name]
        if bname not in files:
            raise gen.GenError("%s: %s is not in the includes! list" % (path_rs, bname))
        fpath = os.path.join(data_dir, files[bname])
        used[name] = os.path.relpath(fpath, gen.REPO)
        if not os.path.exists(fpath):
            raise gen.GenError("%s: data file %s not found" % (path_rs, fpath))
        entries = parse_json_map(fpath) if family == "wires" else parse_ron_map(fpath)
        if kind == "complete":
            tab = {}
        else:
            if prev not in by_name:
                raise gen.GenError("%s: %s updates %s, which is not defined" % (path_rs, name, prev))
            tab = dict(build(prev, pending | {name}))
        for key, v in entries:
            if family == "wires":
                if not key < N_WIRES:
                    raise gen.GenError("%s: wire index %d out of range" % (fpath, key))
            elif not (key[0] < N_COLS and key[1] < N_ROWS):
                raise gen.GenError("%s: pad position %r out of range" % (fpath, key))
            if v is None:
                if kind == "complete":
                    raise gen.GenError("%s: null entry in a complete map" % fpath)
                tab.pop(key, None)
                continue
            if quantity == "baseline":
                if not isinstance(v, tuple):
                    raise gen.GenError("%s: baseline entry is not a triple" % fpath)
                tab[key] = round_i16(v[0])
            else:
                if isinstance(v, tuple):
                    raise gen.GenError("%s: gain entry is not a number" % fpath)
                tab[key] = v
        tables[name] = tab
        return tab
    for name in names:
        build(name, frozenset())
    try:
        arms, why = read_map_dispatch(src, path_rs, fn, names), None
    except gen.GenError as e:
        arms, why = None, str(e)
    return dict(tables=tables, names=names, files=used, arms=arms, why=why, path=path_rs, src=src)


# ----------------------------------------------------------------------------------------- implementation dump
def bits(x):
    return struct.unpack("<q", struct.pack("<d", x))[0]


def ordered(x):
    b = bits(x)
    return b if b >= 0 else -(b & 0x7FFFFFFFFFFFFFFF)


def from_bits(h):
    return struct.unpack("<d", struct.pack("<Q", int(h, 16)))[0]


def dump_runs(runs):
    exe, out = vlib.build_harness("phys")
    if exe is None:
        raise gen.GenError("phys harness does not build against /repo: " + out[-600:])
    rc, out = vlib.sh([exe, "obs"], stdin=("".join("calib-dump %d\n" % r for r in runs)).encode(), timeout=900)
    lines = out.split("\n")
    if rc != 0 or len(lines) < len(runs):
        raise gen.GenError("calib-dump failed: %r" % out[:300])
    res = {}
    for r, line in zip(runs, lines):
        parts = line.split(" | ")
        if parts[0] != "%d %d %d" % (N_WIRES, N_COLS, N_ROWS) or len(parts) != 2 + N_COLS:
            raise gen.GenError("calib-dump %d: unexpected shape %r" % (r, line[:80]))

        def tok(t):
            if t == "E":
                return None
            a, b, c = t.split(":")
            return (int(a), from_bits(b), int(c))
        wires = [tok(t) for t in parts[1].split(" ")]
        pads = [[tok(t) for t in p.split(" ")] for p in parts[2:]]
        if len(wires) != N_WIRES or any(len(c) != N_ROWS for c in pads):
            raise gen.GenError("calib-dump %d: wrong number of entries" % r)
        res[r] = (wires, pads)
    return res


def scan_boundaries(upto=20000):
    """the runs in 1..=upto at which the implementation's calibration (every wire, every 13th pad) changes"""
    exe, out = vlib.build_harness("phys")
    if exe is None:
        raise gen.GenError("phys harness does not build against /repo: " + out[-600:])
    rc, out = vlib.sh([exe, "obs"], stdin=("calib-scan %d\n" % upto).encode(), timeout=900)
    line = out.split("\n")[0]
    if rc != 0 or not line.startswith("boundaries"):
        raise gen.GenError("calib-scan failed: %r" % out[:300])
    return [int(x) for x in line.split()[1:]]


def arm_points(*arm_lists):
    pts = {U32_MAX, 0}
    for arms in arm_lists:
        for _, (kind, v), _ in arms:
            if kind in ("eq", "ge"):
                pts.add(v)
                if kind == "eq" and v < U32_MAX:
                    pts.add(v + 1)
    return sorted(pts)


def adopt_gains(fam, keys, btabs, barms, gtabs, garms, darms, dumps, stats):
    """replace each gain by the implementation's bit pattern where the hooks show it and it is within 1 ulp"""
    for run, dump in sorted(dumps.items()):
        bi, gi, dl = dispatch(barms, run), dispatch(garms, run), dispatch(darms, run)
        if bi is None or gi is None or dl is None:
            continue
        for key in keys:
            got = dump[0][key] if fam == "wires" else dump[1][key[0]][key[1]]
            if key in btabs[bi] and key in gtabs[gi] and got is not None:
                want = gtabs[gi][key]
                d = abs(ordered(want) - ordered(got[1]))
                if (gi, key) in stats["seen"][fam]:
                    continue
                stats["seen"][fam].add((gi, key))
                stats["total"] += 1
                if d == 1:
                    gtabs[gi][key] = got[1]
                    stats["off"] += 1
                elif d > 1:
                    stats["far"] += 1      # left to the differential run, which names run and entry


# ----------------------------------------------------------------------------------------- output
def parts(x):
    """exact (mantissa, exponent) with x = mantissa * 2^exponent, |mantissa| < 2^53 (Event/E2E.v f64_of_parts)"""
    if math.isnan(x) or math.isinf(x):
        raise gen.GenError("calibration: non-finite gain")
    if x == 0.0:
        if math.copysign(1.0, x) < 0:
            raise gen.GenError("calibration: negative zero gain")
        return (0, 0)
    m, e = math.frexp(x)
    mant = int(m * 2 ** 53)
    if float(mant) != m * 2 ** 53:
        raise gen.GenError("calibration: mantissa not integral")
    e -= 53
    while mant % 2 == 0 and e < 0:
        mant //= 2
        e += 1
    if math.ldexp(float(mant), e) != x:
        raise gen.GenError("calibration: decomposition of %r is not exact" % x)
    return (mant, e)


def glit(x):
    m, e = parts(x)
    return "Some (%s, %s)" % (("%d" % m) if m >= 0 else "(%d)" % m, ("%d" % e) if e >= 0 else "(%d)" % e)


def zlit(v):
    return "Some %d" % v if v >= 0 else "Some (%d)" % v


def opt_list(tab, keys, quantity):
    items = []
    for k in keys:
        if k in tab:
            items.append(zlit(tab[k]) if quantity == "baseline" else glit(tab[k]))
        else:
            items.append("None")
    scope = "Z"
    # segments of 64: the OCaml compiler overflows its stack on the extracted literal of a 576-element list
    segs = ["[%s]" % "; ".join(items[i:i + SEG]) for i in range(0, len(items), SEG)] or ["[]"]
    return "(%s)%%%s" % (" ++ ".join(segs), scope)


def arms_text(name, arms, comment):
    rows = ["(%s, %s)" % (cp, "None" if body is None else "Some %d" % body) for cp, _, body in arms]
    return "(* %s *)\nDefinition %s : list (rpat * option N) :=\n  [%s].\n" % (comment, name, "; ".join(rows))


def entry_list(fam, dump):
    return dump[0] if fam == "wires" else [e for col in dump[1] for e in col]


def pinned_prior(fam, F):
    """{quantity: run -> map name | delay | None} from the pinned configuration (pinned/Calib.v.gz), used only where a
    dispatch cannot be observed (dispatchx.reconstruct).  A pinned table index is translated to the CURRENT map through
    the data file named in the pinned comment (or, failing that, the map's name)."""
    import gzip
    unit = {"wires": "wire", "pads": "pad"}[fam]
    try:
        text = gzip.open(os.path.join(os.path.dirname(gen.GEN), "..", "pinned", "Calib.v.gz"), "rt").read()
    except (OSError, EOFError, UnicodeDecodeError):
        return None
    out = {}
    for q in ("baseline", "gain"):
        arms = dx.parse_coq_arms(text, "%s_%s_arms" % (unit, q))
        if arms is None:
            return None
        idx = {}
        for name, path, i in re.findall(r"\(\* \S+ (\w+) <- (\S+): \d+ entries \*\)\s*Definition %s_%s_(\d+)(?:_c0)? " % (unit, q), text):
            cur = [n for n, f in F[q]["files"].items() if f == path] or [n for n in F[q]["names"] if n == name]
            if len(cur) == 1:
                idx[int(i)] = cur[0]

        def f(run, arms=arms, idx=idx):
            v = dx.apply_arms(arms, run)
            return None if v is None else idx.get(v)
        out[q] = f
    arms = dx.parse_coq_arms(text, "%s_delay_arms" % unit)
    if arms is None:
        return None
    out["delay"] = lambda run, arms=arms: dx.apply_arms(arms, run)
    return out


def reconstruct_family(fam, keys, F, dumps, runs):
    """semantic fallback (dispatchx.reconstruct) for the dispatches of one detector family the front end could not
    read: F = dict(baseline=.., gain=.., delay=..) with arms None where unknown; fills the arms in"""
    known = {q: F[q]["arms"] for q in ("baseline", "gain", "delay") if F[q]["arms"] is not None}
    entries = {r: entry_list(fam, dumps[r]) for r in runs}

    def delays(r):
        return sorted({e[2] for e in entries[r] if e is not None})
    domains = {"baseline": list(F["baseline"]["names"]), "gain": list(F["gain"]["names"]), "delay": delays}

    def matches(sel, r):
        got = entries[r]
        if sel["baseline"] is None or sel["gain"] is None or sel["delay"] is None:
            return all(e is None for e in got)
        bt, gt, dl = F["baseline"]["tables"][sel["baseline"]], F["gain"]["tables"][sel["gain"]], sel["delay"]
        for key, e in zip(keys, got):
            if key in bt and key in gt:
                if e is None or e[0] != bt[key] or e[2] != dl or abs(ordered(gt[key]) - ordered(e[1])) > 1:
                    return False
            elif e is not None:
                return False
        return True
    def more(rs):
        for r, d in dump_runs(rs).items():
            dumps[r] = d
            entries[r] = entry_list(fam, d)
    rec = dx.reconstruct("calibration/%s" % fam, runs, domains, known, matches,
                         lambda r: all(e is None for e in entries[r]), more=more, prior=pinned_prior(fam, F))
    for q, arms in rec.items():
        F[q]["arms"] = arms


def generate():
    fams = {}
    unread = []
    for fam, unit in (("wires", "wire"), ("pads", "pad")):
        b = load_family("%s/%s/baseline.rs" % (SRC, fam), "try_%s_baseline" % unit, fam, "baseline")
        g = load_family("%s/%s/gain.rs" % (SRC, fam), "try_%s_gain" % unit, fam, "gain")
        dpath = "%s/%s/delay.rs" % (SRC, fam)
        d = dict(path=dpath, src=flat(dpath), why=None)
        try:
            d["arms"] = read_delay_dispatch(d["src"], dpath, "try_%s_delay" % unit)
        except gen.GenError as e:
            d["arms"], d["why"] = None, str(e)
        fams[fam] = dict(baseline=b, gain=g, delay=d)
        unread += [(fam, q) for q in ("baseline", "gain", "delay") if fams[fam][q]["arms"] is None]
    # how lib.rs uses the three lookups (order, `?`, skip(delay), widened subtraction) is modelled in Event/Event.v and
    # tied by the differential run, which names a failing input; it is deliberately not a shape check here
    runs = set(arm_points(*[legacy(F[q]["arms"]) for F in fams.values() for q in F if F[q]["arms"] is not None]))
    if unread:
        for F in fams.values():
            for q in F:
                runs.update(dx.candidate_runs(F[q]["src"]))
        # ... and every run up to 20000 at which the implementation's answer changes, found by scanning it
        for b in scan_boundaries():
            runs.update((b - 1, b, b + 1))
    runs = sorted(runs)
    dumps = dump_runs(runs)
    wkeys = list(range(N_WIRES))
    pkeys = [(c, r) for c in range(N_COLS) for r in range(N_ROWS)]
    notes = []
    for fam, keys in (("wires", wkeys), ("pads", pkeys)):
        qs = [q for f, q in unread if f == fam]
        if qs:
            reconstruct_family(fam, keys, fams[fam], dumps, runs)
            notes.append("%s\n(* calibration/%s: the front end could not read the dispatch of %s.\n"
                         "   The implementation (verif hooks, all %d entries of the family) was evaluated at %d candidate run numbers\n"
                         "   (every integer literal and integer constant of the calibration sources, each +-1, and 0, 1, u32::MAX-1,\n"
                         "   u32::MAX; every run in 1..=20000 at which a scan of the implementation finds a change, +-1); at each one the parsed tables / the delay that reproduce the implementation's COMPLETE answer\n"
                         "   were identified.  ASSUMPTION: the dispatch is constant between consecutive candidates with the same answer\n"
                         "   (a change between two candidates is located by bisection); the differential run (arm boundaries +-2 and\n"
                         "   a stride of runs) checks it.  A calibration triple needs baseline, gain and\n"
                         "   delay: where the implementation has no triple at all, a dispatch hidden behind another one's error\n"
                         "   cannot be observed and a reconstructed dispatch says None there. *)\n"
                         % (dx.FALLBACK_MARK, fam,
                            "; ".join("%s (%s)" % (q, dx.comment_safe(fams[fam][q]["why"] or "", 200)) for q in qs),
                            len(keys), len(runs)))
    # canonical order of the maps of a file: by the run numbers that select them, not by their names or positions
    old = {}
    for fam in fams:
        F = fams[fam]
        for q in ("baseline", "gain"):
            L = F[q]
            order = dx.first_selection_order(L["names"], L["arms"])
            L["order"] = order
            L["iarms"] = legacy([(k, n, None if v is None else order.index(v)) for k, n, v in L["arms"]])
            L["tabs"] = [L["tables"][n] for n in order]
        F["delay"]["iarms"] = legacy(F["delay"]["arms"])
        old[fam] = ((F["baseline"]["tabs"], F["baseline"]["iarms"], F["baseline"]["order"],
                     [F["baseline"]["files"][n] for n in F["baseline"]["order"]]),
                    (F["gain"]["tabs"], F["gain"]["iarms"], F["gain"]["order"],
                     [F["gain"]["files"][n] for n in F["gain"]["order"]]),
                    F["delay"]["iarms"])
    fams = old
    stats = dict(total=0, off=0, far=0, seen=dict(wires=set(), pads=set()))
    for fam, keys in (("wires", wkeys), ("pads", pkeys)):
        (bt, ba, _, _), (gt, ga, _, _), da = fams[fam]
        adopt_gains(fam, keys, bt, ba, gt, ga, da, dumps, stats)

    out = [gen.HEADER.replace("tools/gen.py", "tools/genx_calib.py")]
    out.append("From AG Require Import Ident.Dispatch.\n\n")
    out.extend(notes)
    out.append("(* Calibration of physics/src/calibration/**: tables per `static ref` map in source order, `match run_number`\n"
               "   arms in source order.  baseline = round-half-away(first component) as i16, computed from the data file;\n"
               "   gain = the f64 the library uses, written as (mantissa, exponent) with gain = mantissa * 2^exponent exactly: %d gains could be compared with the implementation through the verif hooks,\n"
               "   %d of them are 1 ulp away from the correctly rounded decimal of the data file (bit pattern of the library\n"
               "   written), %d further away (value of the data file written; the differential run reports them). *)\n\n"
               % (stats["total"], stats["off"], stats["far"]))
    out.append("Definition gen_CAL_WIRES : N := %d.\nDefinition gen_CAL_PAD_COLUMNS : N := %d.\nDefinition gen_CAL_PAD_ROWS : N := %d.\n\n"
               % (N_WIRES, N_COLS, N_ROWS))
    for fam, unit in (("wires", "wire"), ("pads", "pad")):
        (bt, ba, bn, bf), (gt, ga, gn, gf), da = fams[fam]
        for quantity, tabs, arms, names, files in (("baseline", bt, ba, bn, bf), ("gain", gt, ga, gn, gf)):
            ty = "Z" if quantity == "baseline" else "(Z * Z)"
            tnames = []
            for i, tab in enumerate(tabs):
                tn = "%s_%s_%d" % (unit, quantity, i)
                out.append("(* %s/%s/%s.rs %s <- %s: %d entries *)\n" % (SRC, fam, quantity, names[i], files[i], len(tab)))
                if fam == "wires":
                    out.append("Definition %s : list (option %s) :=\n  %s.\n" % (tn, ty, opt_list(tab, wkeys, quantity)))
                else:
                    cols = []
                    for c in range(N_COLS):
                        cn = "%s_c%d" % (tn, c)
                        out.append("Definition %s : list (option %s) :=\n  %s.\n"
                                   % (cn, ty, opt_list(tab, [(c, r) for r in range(N_ROWS)], quantity)))
                        cols.append(cn)
                    out.append("Definition %s : list (list (option %s)) :=\n  [%s].\n" % (tn, ty, "; ".join(cols)))
                tnames.append(tn)
            lty = "list (option %s)" % ty if fam == "wires" else "list (list (option %s))" % ty
            out.append("Definition %s_%s_tables : list (%s) := [%s].\n" % (unit, quantity, lty, "; ".join(tnames)))
            out.append(arms_text("%s_%s_arms" % (unit, quantity), arms,
                                 "%s/%s/%s.rs try_%s_%s: match run_number; body = index into %s_%s_tables"
                                 % (SRC, fam, quantity, unit, quantity, unit, quantity)))
            out.append("\n")
        out.append(arms_text("%s_delay_arms" % unit, da,
                             "%s/%s/delay.rs try_%s_delay: match run_number; body = the delay in samples" % (SRC, fam, unit)))
        out.append("\n")
    gen.write_if_changed(os.path.join(gen.GEN, "Calib.v"), "".join(out))


if __name__ == "__main__":
    generate()
    print("generated")
