"""Translator plugin for C08: regenerates coq/Gen/WireMaps.v and coq/Gen/PadMaps.v from the CURRENT
detector/src/alpha16/aw_map.rs, detector/src/padwing/map.rs, detector/src/padwing.rs (PadChannelId range)
and physics/src/matching.rs.

What is translated (data and dispatch, in source order):
  * every `const PREAMPS_<x>` / `INV_CHANNELS_<x>` / `PADWING_BOARDS_<x>` table, the `lazy_static` indirections,
  * the `match run_number { .. }` arms of TpcWirePosition::try_new (two matches) and TpcPwbPosition::try_new
    as lists of (pattern, Some table-index | None) -- the generic interpreter is Ident/Dispatch.v,
  * the arms of `match mapped_channel` (wire index arithmetic),
  * INV_PADS_0: the loop nest is *interpreted* with u8 arithmetic (an overflow is a GenError) and the
    resulting 288-entry table is written out,
  * geometry constants, the constants inside TpcWirePosition::phi / TpcPadColumn::phi, WIRE_SHIFT,
    WIRES_PER_COLUMN and the masks of wire_to_pad_column / pad_column_to_wires.
The bodies of the small arithmetic functions are matched against the one shape the hand-written model
(Ident/Maps.v) implements; any other shape raises gen.GenError (a broken tie).
"""
import os
import re

import dispatchx as dx
import gen
from gen import GenError, REPO, GEN, strip_comments, const_init, const_int, eval_int, match_arms, \
    coq_nlist, coq_str, write_if_changed

HEADER = ("(* GENERATED from /repo by tools/genx_maps.py on every run -- do not edit *)\n"
          "From AG Require Import Base.Prelude Ident.Dispatch.\n\n")


def read(rel):
    return strip_comments(open(os.path.join(REPO, rel)).read())


def norm(s):
    return " ".join(s.split())


def fn_body(src, marker, after=None):
    """text between the braces of the first `{` after marker (marker searched after `after`)"""
    start = 0
    if after is not None:
        start = src.find(after)
        if start < 0:
            raise GenError("marker %r not found" % after)
    i = src.find(marker, start)
    if i < 0:
        raise GenError("marker %r not found" % marker)
    j = src.find("{", i)
    depth, k = 1, j + 1
    while depth:
        if k >= len(src):
            raise GenError("unbalanced braces after %r" % marker)
        if src[k] == "{":
            depth += 1
        elif src[k] == "}":
            depth -= 1
        k += 1
    return src[j + 1:k - 1]


def block_arms(arms):
    """gen.match_arms splits at top-level commas only; an arm whose body is a `{ .. }` block may be followed by
    the next arm without a comma -- split those"""
    out = []
    for p, b in arms:
        while True:
            b = b.strip()
            if not b.startswith("{"):
                break
            depth = 0
            for k, ch in enumerate(b):
                if ch == "{":
                    depth += 1
                elif ch == "}":
                    depth -= 1
                    if depth == 0:
                        break
            rest = b[k + 1:].strip()
            if not rest:
                break
            if "=>" not in rest:
                raise GenError("cannot split arms in %r" % b)
            out.append((p, b[:k + 1]))
            p, b = rest.split("=>", 1)
            p = p.strip()
        out.append((p, b))
    return out


def name_run(n):
    """the run number a table documents in its name: PADWING_BOARDS_4418 -> 4418 ("as installed in run X (included)")"""
    m = re.search(r"_(\d+)$", n)
    if not m:
        raise GenError("table %s does not name its first run" % n)
    return int(m.group(1))


def const_names(src, prefix):
    """the `const <prefix>*` tables of the file (any module), ordered by the run number in their name: the order
    of the items in the source carries no meaning"""
    names = re.findall(r"\bconst\s+(%s\w*)\s*:" % prefix, src)
    if len(set(names)) != len(names):
        raise GenError("two constants of the same name among %r" % names)
    return sorted(names, key=lambda n: (name_run(n), n))


def lazy_refs(src, fn):
    """`static ref A: .. = fn(B);` / `fn(&B)` -> {A: B}"""
    return dict(re.findall(r"static\s+ref\s+(\w+)\s*:[^=;]*=\s*%s\s*\(\s*&?\s*(\w+)\s*\)\s*;" % fn, src))


def int_env(src, names, env=None):
    env = dict(env or {})
    for n in names:
        e = const_int(src, n)
        e = re.sub(r"\bas\s+\w+", "", e)
        env[n] = eval_int(e, env)
    return env


def name_runs(names):
    return coq_nlist([name_run(n) for n in names])


def table_resolver(families, lazy, what):
    """leaf of a dispatch -> None (no map) | (family, index of the table in that family)"""
    def resolve(leaf):
        if dx.leaf_is_err(leaf):
            return None
        n = dx.leaf_table(leaf)
        if n is None:
            raise GenError("%s: unknown arm body %r" % (what, dx.show(leaf)))
        n = lazy.get(n, n)
        for fam, names in families.items():
            if n in names:
                return (fam, names.index(n))
        raise GenError("%s: arm refers to unknown table %r" % (what, n))
    return resolve


def syntactic_dispatches(src, marker, families, lazy, what, after=None):
    """({family: canonical arms with table indices}, [reasons]) of the `let x = <decision tree on run_number>`
    statements of the function at marker; one dispatch per family (which one selects which family is decided by the
    bodies).  A family missing from the result could not be read: the reasons say why."""
    found, why, twice = {}, [], set()
    try:
        consts = dx.int_consts(src)
        block = dx.parse_body(fn_body(src, marker, after=after))
        early, lets = dx.dispatch_statements(block)
    except GenError as e:
        return {}, [str(e)]
    resolve = table_resolver(families, lazy, what)
    for k, name, node in lets:
        try:
            f = dx.tree_function([e for j, e in early if j < k] + [node], consts, resolve)
            fams = {v[0] for v in f.values() if v is not None}
            if len(fams) != 1:
                raise GenError("`let %s` selects tables of %d families" % (name, len(fams)))
            fam = fams.pop()
            if fam in found or fam in twice:
                # a second dispatching `let` for the family (shadowing?): which of them decides is not known here, so
                # the family does not count as read
                found.pop(fam, None)
                twice.add(fam)
                raise GenError("two dispatches select %s tables" % fam)
            found[fam] = dx.canonical_arms({r: (None if v is None else v[1]) for r, v in f.items()})
        except GenError as e:
            why.append("let %s: %s" % (name, e))
    # a non-empty `why` makes the callers compare what was read with the implementation's complete answers at every
    # candidate run (settle): a family read from a `let` that another, unreadable `let` overrides cannot reproduce them
    for fam in families:
        if fam not in found and not why:
            why.append("no `let .. = match/if` on run_number selecting a %s table" % fam)
    return found, why


PRIOR_DEFS = {"preamp": ("WireMaps", "preamp_arms"), "channel": ("WireMaps", "channel_arms"), "pwb": ("PadMaps", "pwb_arms")}


def pinned_prior(families):
    """{family: run -> table index | None} from the pinned configuration (pinned/*.v.gz); used only where a dispatch
    cannot be observed (see dispatchx.reconstruct).  Table indices of the pinned text = positions in the lists of
    tables, which are ordered by the run number in the constants' names; an index beyond the current list is dropped."""
    import gzip
    out = {}
    for fam in families:
        if fam not in PRIOR_DEFS:
            return None
        fname, dname = PRIOR_DEFS[fam]
        try:
            text = gzip.open(os.path.join(os.path.dirname(GEN), "..", "pinned", fname + ".v.gz"), "rt").read()
        except (OSError, EOFError, UnicodeDecodeError):
            return None
        arms = dx.parse_coq_arms(text, dname)
        if arms is None:
            return None
        n = len(families[fam])

        def f(run, arms=arms, n=n):
            v = dx.apply_arms(arms, run)
            return v if v is None or v < n else None
        out[fam] = f
    return out


def settle(what, src, families, found, why, helper_ok, helper, answers_of, predict, notes):
    """complete `found` by probing the implementation when a dispatch could not be read, or check the table-building
    helper of unknown shape against the implementation; appends the explanatory comments to notes"""
    missing = [f for f in families if f not in found]
    if not missing and helper_ok and not why:
        return found
    runs = set(dx.candidate_runs(src))
    for b in scan_boundaries():
        runs.update((b - 1, b, b + 1))
    runs = sorted(runs)
    answers = answers_of(runs)
    cache = {}

    def matches(sel, r):
        key = tuple(sorted(sel.items(), key=lambda kv: kv[0]))
        if key not in cache:
            cache[key] = predict(sel)
        return cache[key] == answers[r]
    nomap = predict({f: None for f in families})
    rec = dx.reconstruct(what, runs, {f: list(range(len(families[f]))) for f in families}, found, matches,
                         lambda r: answers[r] == nomap, more=lambda rs: answers.update(answers_of(rs)),
                         prior=pinned_prior(families))
    if missing:
        notes.append(PROBE_NOTE % (dx.FALLBACK_MARK, what + " " + ", ".join(missing), dx.comment_safe("; ".join(why)),
                                   len(runs)))
    if not helper_ok:
        notes.append("(* %s: %s has a shape the translator does not know; instead, the implementation's complete table was\n"
                     "   compared with the one built from the parsed constants at %d candidate run numbers: equal. *)\n"
                     % (what, helper, len(runs)))
    out = dict(found)
    out.update(rec)
    return out


# ---------------------------------------------------------------------------------------------
# the implementation's complete tables (harness `vdet obs`, case line `run <n>`, harness/det/src/c08.rs obs_run),
# recomputed here from the parsed tables: used to reconstruct a dispatch the front end cannot read and to check a
# table-building helper of unknown shape
HASH_P = (1 << 61) - 1


def table_obs(n, codes):
    h, nok, seen = 0, 0, {}
    for v in codes:
        h = (h * 1000003 + v + 1) % HASH_P
        if v < n:
            nok += 1
            seen[v] = seen.get(v, 0) + 1
    bij = nok == n and all(seen.get(i, 0) == 1 for i in range(n))
    return "%d/%d/%d" % (nok, h, 1 if bij else 0)


def known_boards(rel, const):
    """harness `known()`: the two-character names over 0-9 A-Z (ascending) BoardId::try_from accepts"""
    rows = const_init(read(rel), const)
    return sorted({r[0] for r in rows if re.fullmatch(r"[0-9A-Z]{2}", r[0])})


def wire_obs(boards, nw, prows, ctab, pos_rows):
    """`w=` part of `run <n>` when the preamp table prows and the channel table ctab are selected (None: no map)"""
    n = len(boards) * 32
    if prows is None or ctab is None:
        return table_obs(nw, [nw] * n)
    if any(name not in boards for name, _ in prows):
        return table_obs(nw, [nw + 1] * n)           # BoardId::try_from(..).unwrap() panics while the map is built
    pm = {name: pre for name, pre in prows}          # HashMap: a later row replaces an earlier one
    codes = []
    for b in boards:
        for ch in range(32):
            if b not in pm:
                codes.append(nw)
                continue
            if ch >= len(ctab):
                codes.append(nw + 1)
                continue
            mc = ctab[ch]
            hit = [r for r in pos_rows if r[0] <= mc <= r[1]]
            if not hit:
                codes.append(nw + 1)                 # unreachable!()
                continue
            _, _, (k, mult, sub) = hit[0]
            codes.append(pm[b][k - 1] * mult + (mc - sub))
    return table_obs(nw, codes)


def pad_obs(boards, env, cols, inv_pads):
    """`p=` part of `run <n>` when the PWB table cols is selected (None: no map)"""
    npads = env["TPC_PADS"]
    n = len(boards) * 4 * 72
    if cols is None:
        return table_obs(npads, [npads] * n)
    if any(name not in boards for c in cols for name in c):
        return table_obs(npads, [npads + 1] * n)
    inv = {}
    for c, col in enumerate(cols):
        for r, name in enumerate(col):
            if c >= env["TPC_PWB_COLUMNS"] or r >= env["TPC_PWB_ROWS"]:
                return table_obs(npads, [npads + 1] * n)
            inv[name] = (c, r)
    pads = dict(inv_pads)
    codes = []
    for b in boards:
        for a in range(4):
            for ch in range(1, 73):
                if b not in inv:
                    codes.append(npads)
                    continue
                if (a, ch) not in pads:
                    codes.append(npads + 1)
                    continue
                (c, r), (pc, pr) = inv[b], pads[(a, ch)]
                column, row = c * env["PWB_PAD_COLUMNS"] + pc, r * env["PWB_PAD_ROWS"] + pr
                if column >= env["TPC_PAD_COLUMNS"] or row >= env["TPC_PAD_ROWS"]:
                    codes.append(npads + 1)
                    continue
                codes.append(column * env["TPC_PAD_ROWS"] + row)
    return table_obs(npads, codes)


_PROBE = {}
_SCAN = {}


def scan_boundaries(upto=20000):
    """the runs in 1..=upto at which the implementation's maps (complete wire table, one pad per board) change"""
    import vlib
    if upto not in _SCAN:
        exe, out = vlib.build_harness("det")
        if exe is None:
            raise GenError("det harness does not build against /repo: " + out[-600:])
        rc, out = vlib.sh([exe, "obs"], stdin=("runscan %d\n" % upto).encode(), timeout=900)
        line = out.split("\n")[0]
        if rc != 0 or not line.startswith("boundaries"):
            raise GenError("probing the implementation (`runscan`) failed: %r" % out[:300])
        _SCAN[upto] = [int(x) for x in line.split()[1:]]
    return _SCAN[upto]


def probe(runs):
    """{run: (w part, p part)} of the implementation"""
    import vlib
    need = [r for r in runs if r not in _PROBE]
    if need:
        exe, out = vlib.build_harness("det")
        if exe is None:
            raise GenError("det harness does not build against /repo: " + out[-600:])
        rc, out = vlib.sh([exe, "obs"], stdin="".join("run %d\n" % r for r in need).encode(), timeout=900)
        lines = out.split("\n")
        if rc != 0 or len(lines) < len(need):
            raise GenError("probing the implementation (`run <n>`) failed: %r" % out[:300])
        for r, line in zip(need, lines):
            m = re.fullmatch(r"(?:ok|err) w=(\S+) p=(\S+)", line.strip())
            if not m:
                raise GenError("probing the implementation: run %d: unexpected answer %r" % (r, line[:80]))
            _PROBE[r] = (m.group(1), m.group(2))
    return {r: _PROBE[r] for r in runs}


PROBE_NOTE = ("%s\n(* %s: the front end could not read the dispatch (%s).\n"
              "   The implementation was evaluated at %d candidate run numbers (every integer literal and integer constant of\n"
              "   the source file, each +-1, 0, 1, u32::MAX-1, u32::MAX, and every run in 1..=20000 where a scan finds a change); at each one the parsed table whose COMPLETE content\n"
              "   reproduces the implementation's answer was identified.  ASSUMPTION: the dispatch is constant between\n"
              "   consecutive candidates with the same answer (a change between two candidates is located by bisection); the\n"
              "   differential run (arm boundaries +-2 and a stride of runs) checks it.\n"
              "   Where the implementation has no map at all (every entry an error) a dispatch hidden behind another one's error\n"
              "   cannot be observed: a reconstructed dispatch says None there. *)\n")


# ---------------------------------------------------------------------------------------------
def gen_wire_maps():
    src = read("detector/src/alpha16/aw_map.rs")
    t = HEADER
    env = int_env(src, ["TPC_ANODE_WIRES"])
    t += "Definition gen_TPC_ANODE_WIRES : N := %d.\n\n" % env["TPC_ANODE_WIRES"]

    pnames = const_names(src, "PREAMPS_")
    cnames = const_names(src, "INV_CHANNELS_")
    if not pnames or not cnames:
        raise GenError("aw_map.rs: no PREAMPS_* / INV_CHANNELS_* table found")
    for n in pnames:
        rows = const_init(src, n)
        for r in rows:
            if not (isinstance(r, list) and len(r) == 2 and isinstance(r[0], str) and isinstance(r[1], list)
                    and len(r[1]) == 2 and all(isinstance(x, int) for x in r[1])):
                raise GenError("%s: row of unknown shape %r" % (n, r))
        t += "(* aw_map.rs %s: (board name bytes, (preamp_1, preamp_2)) *)\n" % n
        t += "Definition %s : list (list N * (N * N)) :=\n  [" % n.lower() + ";\n   ".join(
            "(%s, (%d, %d))" % (coq_str(r[0]), r[1][0], r[1][1]) for r in rows) + "].\n"
    for n in cnames:
        xs = const_init(src, n)
        if not all(isinstance(x, int) for x in xs):
            raise GenError("%s: not a list of integers" % n)
        t += "(* aw_map.rs %s *)\nDefinition %s : list N := %s.\n" % (n, n.lower(), coq_nlist(xs))
    t += "\n(* table index = position in these lists (source order of the consts) *)\n"
    t += "Definition preamp_tables : list (list (list N * (N * N))) := [%s].\n" % "; ".join(n.lower() for n in pnames)
    t += "Definition channel_tables : list (list N) := [%s].\n" % "; ".join(n.lower() for n in cnames)
    t += "Definition preamp_table_names : list (list N) := [%s].\n" % "; ".join(coq_str(n) for n in pnames)
    t += "Definition channel_table_names : list (list N) := [%s].\n" % "; ".join(coq_str(n) for n in cnames)
    t += "(* first run each table documents in its name *)\n"
    t += "Definition preamp_table_runs : list N := %s.\nDefinition channel_table_runs : list N := %s.\n\n" % (
        name_runs(pnames), name_runs(cnames))

    lazy = lazy_refs(src, "preamps_map")
    body = norm(fn_body(src, "fn preamps_map"))
    helper_ok = "BoardId::try_from(*board_name).unwrap()" in body and "m.insert(" in body
    marker = "pub fn try_new"
    families = {"preamp": pnames, "channel": cnames}
    found, why = syntactic_dispatches(src, "fn try_new", families, lazy, "aw_map.rs", after="impl TpcWirePosition {")

    # match mapped_channel { lo..=hi => preamp_k * M + mapped_channel | preamp_k * M + (mapped_channel - S), _ => unreachable!() }
    wire_pos_note = ""
    try:
        arms = match_arms(src, marker, "mapped_channel", 0)
        rows, pos_rows = [], []
        for i, (p, b) in enumerate(arms):
            b = norm(b)
            if p == "_":
                if b != "unreachable!()" or i != len(arms) - 1:
                    raise GenError("aw_map.rs: unknown default arm of `match mapped_channel`: %r" % b)
                continue
            m = re.fullmatch(r"(\d+)\s*\.\.=\s*(\d+)", p)
            mb = re.fullmatch(r"preamp_([12]) \* (\d+) \+ (?:mapped_channel|\(mapped_channel - (\d+)\))", b)
            if not m or not mb:
                raise GenError("aw_map.rs: unknown arm of `match mapped_channel`: %r => %r" % (p, b))
            rows.append("(%s, %s, (%s, %s, %s))" % (m.group(1), m.group(2), mb.group(1), mb.group(2), mb.group(3) or "0"))
            pos_rows.append((int(m.group(1)), int(m.group(2)), (int(mb.group(1)), int(mb.group(2)), int(mb.group(3) or "0"))))
        if not re.search(r"let\s+mapped_channel\s*=\s*channel_map\s*\[\s*usize::from\(channel_id\.0\)\s*\]\s*;", src):
            raise GenError("aw_map.rs: unknown shape of the channel lookup")
    except (GenError, IndexError, ValueError) as e:
        # the wire-index arithmetic could not be read: keep the arithmetic the model implements (2 preamps of 16 wires) and
        # have it VERIFIED against the implementation's complete wire table at every candidate run number below
        rows = ["(0, 15, (1, 16, 0))", "(16, 31, (2, 16, 16))"]
        pos_rows = [(0, 15, (1, 16, 0)), (16, 31, (2, 16, 16))]
        helper_ok = False
        wire_pos_note = ("(* wire-index arithmetic verified against the implementation by probing (the source could not be read: %s) *)\n"
                         % str(e).replace("*)", "* )")[:160])

    notes = []
    if len(found) < 2 or not helper_ok or why:
        boards = known_boards("detector/src/alpha16.rs", "ALPHA16BOARDS")
        ptabs = [[(r[0], tuple(r[1])) for r in const_init(src, n)] for n in pnames]
        ctabs = [const_init(src, n) for n in cnames]
        found = settle("aw_map.rs TpcWirePosition::try_new", src, families, found, why, helper_ok, "preamps_map",
                       lambda runs: {r: a[0] for r, a in probe(runs).items()},
                       lambda sel: wire_obs(boards, env["TPC_ANODE_WIRES"],
                                            None if sel["preamp"] is None else ptabs[sel["preamp"]],
                                            None if sel["channel"] is None else ctabs[sel["channel"]], pos_rows),
                       notes)
    t += "".join(notes)
    t += "(* TpcWirePosition::try_new: first `match run_number` (preamp map), arms in source order *)\n"
    t += "Definition preamp_arms : list (rpat * option N) :=\n  %s.\n" % dx.coq_arms(found["preamp"])
    t += "(* second `match run_number` (channel map) *)\n"
    t += "Definition channel_arms : list (rpat * option N) :=\n  %s.\n\n" % dx.coq_arms(found["channel"])
    t += wire_pos_note
    t += "(* `match mapped_channel`: (lo, hi, (which preamp, multiplier, subtracted)) ; `_ => unreachable!()` *)\n"
    t += "Definition wire_pos_arms : list (N * N * (N * N * N)) := [%s].\n\n" % "; ".join(rows)

    # TpcWirePosition::phi
    body = norm(fn_body(src, "pub fn phi"))
    m = re.fullmatch(r"let shifted_index = self\.0\.wrapping_sub\((\d+)\) & (0x[0-9a-fA-F]+|\d+); "
                     r"ANODE_WIRE_PITCH_PHI \* \(shifted_index as f64 \+ 0\.5\)", body)
    if not m:
        raise GenError("aw_map.rs: TpcWirePosition::phi has an unknown shape: %r" % body)
    pitch = norm(const_int(src, "ANODE_WIRE_PITCH_PHI"))
    if pitch != "2.0 * PI / (TPC_ANODE_WIRES as f64)":
        raise GenError("aw_map.rs: ANODE_WIRE_PITCH_PHI has an unknown shape: %r" % pitch)
    t += "(* TpcWirePosition::phi = ANODE_WIRE_PITCH_PHI * (((index - shift) land mask) + 1/2), pitch = 2 pi / TPC_ANODE_WIRES *)\n"
    t += "Definition gen_wire_phi_shift : N := %d.\nDefinition gen_wire_phi_mask : N := %d.\n" % (
        int(m.group(1)), int(m.group(2), 0))
    body = norm(fn_body(src, "fn try_from(input: usize)", after="impl TryFrom<usize> for TpcWirePosition"))
    if not body.startswith("if input < TPC_ANODE_WIRES { Ok(Self(input)) }"):
        raise GenError("aw_map.rs: TpcWirePosition::try_from(usize) has an unknown shape")
    write_if_changed(os.path.join(GEN, "WireMaps.v"), t)
    return env


# ---------------------------------------------------------------------------------------------
class U8:
    """u8 arithmetic as rustc evaluates it with overflow checks; anything out of range is a translator error"""

    def __init__(self, v):
        if not 0 <= v <= 255:
            raise GenError("INV_PADS_0: u8 overflow while interpreting the loop nest (%d)" % v)
        self.v = v

    def __add__(self, o):
        return U8(self.v + o.v)

    def __sub__(self, o):
        return U8(self.v - o.v)

    def __mul__(self, o):
        return U8(self.v * o.v)

    def __mod__(self, o):
        return U8(self.v % o.v)


def eval_u8(expr, env):
    e = expr.strip()
    if not re.fullmatch(r"[\w\s\+\-\*%\(\)]+", e):
        raise GenError("INV_PADS_0: cannot evaluate %r" % expr)
    e = re.sub(r"\b(\d+)(u8)?\b", r"U8(\1)", e)
    scope = {"U8": U8}
    scope.update({k: U8(v) for k, v in env.items()})
    try:
        return eval(e, {"__builtins__": {}}, scope).v
    except GenError:
        raise
    except Exception as ex:
        raise GenError("INV_PADS_0: cannot evaluate %r (%s)" % (expr, ex))


def interpret_inv_pads(src):
    body = fn_body(src, "= {", after="static ref INV_PADS_0")
    nb = norm(body)
    m = re.search(r"for after in (\d+)\.\.=(\d+)u8 \{ let offset = ([^;]+); for channel in (\d+)\.\.=(\d+)u8 \{ "
                  r"let mut col: u8; let mut row: u8; match channel \{", nb)
    if not m:
        raise GenError("INV_PADS_0: loop nest has an unknown shape")
    a_lo, a_hi, off_expr, c_lo, c_hi = int(m.group(1)), int(m.group(2)), m.group(3), int(m.group(4)), int(m.group(5))
    arms = block_arms(match_arms(body, "for channel", "channel", 0))
    parsed = []
    for i, (p, b) in enumerate(arms):
        b = norm(b)
        if p == "_":
            if b != "unreachable!()" or i != len(arms) - 1:
                raise GenError("INV_PADS_0: unknown default arm %r" % b)
            continue
        mp = re.fullmatch(r"(\d+)\s*\.\.=\s*(\d+)", p)
        mb = re.fullmatch(r"\{ col = ([^;]+); row = ([^;]+); \}", b)
        if not mp or not mb:
            raise GenError("INV_PADS_0: unknown arm %r => %r" % (p, b))
        parsed.append((int(mp.group(1)), int(mp.group(2)), mb.group(1), mb.group(2)))
    tail = nb[nb.find("match channel {"):]
    mi = re.search(r"\} if after > (\d+) \{ col = ([^;]+); row = ([^;]+); \} inverse\.insert\( \( "
                   r"AfterId::try_from\(after\)\.unwrap\(\), PadChannelId::try_from\(u16::from\(channel\)\)\.unwrap\(\), \), "
                   r"PwbPadPosition \{ column: PwbPadColumn::try_from\(usize::from\(col\)\)\.unwrap\(\), "
                   r"row: PwbPadRow::try_from\(usize::from\(row\)\)\.unwrap\(\), \}, \); \} \} inverse$", tail)
    if not mi:
        raise GenError("INV_PADS_0: tail of the loop body has an unknown shape")
    flip_gt, flip_col, flip_row = int(mi.group(1)), mi.group(2), mi.group(3)
    table = {}
    for after in range(a_lo, a_hi + 1):
        offset = eval_u8(off_expr, {"after": after})
        for channel in range(c_lo, c_hi + 1):
            hit = [a for a in parsed if a[0] <= channel <= a[1]]
            if not hit:
                raise GenError("INV_PADS_0: channel %d reaches unreachable!()" % channel)
            _, _, ce, re_ = hit[0]
            env = {"after": after, "channel": channel, "offset": offset}
            col = eval_u8(ce, env)
            row = eval_u8(re_, env)
            if after > flip_gt:
                col = eval_u8(flip_col, dict(env, col=col, row=row))      # sequential assignments, as in the source
                row = eval_u8(flip_row, dict(env, col=col, row=row))
            table[(after, channel)] = (col, row)   # HashMap::insert: a later insertion replaces an earlier one
    return sorted(table.items())


def probe_inv_pads(src):
    import vlib
    exe, out = vlib.build_harness("det")
    if exe is None:
        raise GenError("det harness does not build against /repo: " + out[-600:])
    runs = sorted(set(dx.candidate_runs(src)) | {0, 1, 2 ** 32 - 2, 2 ** 32 - 1})
    rc, out = vlib.sh([exe, "obs"], stdin="".join("invpads %d\n" % r for r in runs).encode(), timeout=900)
    lines = [l.strip() for l in out.split("\n") if l.strip()]
    if rc != 0 or len(lines) < len(runs):
        raise GenError("probing the implementation (`invpads <run>`) failed: %r" % out[:300])
    oks = sorted({l for l in lines if l.startswith("ok ")})
    if len(oks) != 1 or any(not (l.startswith("ok ") or l == "err") for l in lines):
        raise GenError("PwbPadPosition::try_new: the table depends on the run number or panics (%d distinct answers)" % len(oks))
    if any(l == "err" for l in lines):
        raise GenError("PwbPadPosition::try_new: errors for some run numbers; the model has one table for all runs")
    table = {}
    for item in oks[0][3:].split():
        a, ch, col, row = (int(x) for x in item.split("."))
        table[(a, ch)] = (col, row)
    if len(table) != 288:
        raise GenError("PwbPadPosition::try_new: %d entries instead of 288" % len(table))
    return sorted(table.items())


def gen_pad_maps():
    src = read("detector/src/padwing/map.rs")
    pw = read("detector/src/padwing.rs")
    t = HEADER
    names = ["PWB_PAD_COLUMNS", "PWB_PAD_ROWS", "TPC_PWB_COLUMNS", "TPC_PWB_ROWS", "TPC_PAD_COLUMNS", "TPC_PAD_ROWS",
             "TPC_PADS"]
    env = int_env(src, names)
    for n in names:
        t += "Definition gen_%s : N := %d.\n" % (n, env[n])
    t += "\n"
    bnames = const_names(src, "PADWING_BOARDS_")
    if not bnames:
        raise GenError("padwing/map.rs: no PADWING_BOARDS_* table")
    for n in bnames:
        cols = const_init(src, n)
        if not all(isinstance(c, list) and all(isinstance(x, str) for x in c) for c in cols):
            raise GenError("%s: unknown shape" % n)
        t += "(* padwing/map.rs %s: first index column, second index row; value board name bytes *)\n" % n
        t += "Definition %s : list (list (list N)) :=\n  [" % n.lower() + ";\n   ".join(
            "[" + "; ".join(coq_str(x) for x in c) + "]" for c in cols) + "].\n"
    t += "\nDefinition pwb_tables : list (list (list (list N))) := [%s].\n" % "; ".join(n.lower() for n in bnames)
    t += "Definition pwb_table_names : list (list N) := [%s].\n" % "; ".join(coq_str(n) for n in bnames)
    t += "(* first run each table documents in its name *)\nDefinition pwb_table_runs : list N := %s.\n\n" % name_runs(bnames)
    lazy = lazy_refs(src, "inverse_pwb_map")
    body = norm(fn_body(src, "fn inverse_pwb_map"))
    want = ("let mut inverse = HashMap::new(); for (column, row) in map.iter().enumerate() { for (row, name) in "
            "row.iter().enumerate() { inverse.insert( BoardId::try_from(*name).unwrap(), TpcPwbPosition { column: "
            "TpcPwbColumn::try_from(column).unwrap(), row: TpcPwbRow::try_from(row).unwrap(), }, ); } } inverse")
    helper_ok = body == want
    families = {"pwb": bnames}
    found, why = syntactic_dispatches(src, "fn try_new", families, lazy, "padwing/map.rs", after="impl TpcPwbPosition {")

    # PwbPadPosition::try_new ignores the run number and uses INV_PADS_0
    inv_note = ""
    try:
        body = norm(fn_body(src, ") -> Result<PwbPadPosition, MapPwbPadPositionError>"))
        if body != "let position_map = &INV_PADS_0; Ok(*position_map.get(&(after_id, pad_channel_id)).unwrap())":
            raise GenError("padwing/map.rs: PwbPadPosition::try_new has an unknown shape")
        tab = interpret_inv_pads(src)
    except (GenError, IndexError, ValueError) as e:
        # the source of the (chip, channel) -> (column, row) table could not be interpreted: take the table from the
        # implementation (complete, 4 x 72 entries, and the same for every candidate run number); the differential
        # (`ppos` cases) keeps comparing every pad position anyway
        tab = probe_inv_pads(src)
        inv_note = ("(* INV_PADS table taken from the implementation by probing PwbPadPosition::try_new "
                    "(the source could not be interpreted: %s) *)\n" % str(e).replace("*)", "* )")[:200])

    notes = []
    if not found or not helper_ok or why:
        boards = known_boards("detector/src/padwing.rs", "PADWING_BOARDS")
        tabs = [const_init(src, n) for n in bnames]
        found = settle("padwing/map.rs TpcPwbPosition::try_new", src, families, found, why, helper_ok, "inverse_pwb_map",
                       lambda runs: {r: a[1] for r, a in probe(runs).items()},
                       lambda sel: pad_obs(boards, env, None if sel["pwb"] is None else tabs[sel["pwb"]], tab),
                       notes)
    t += "".join(notes)
    t += "(* TpcPwbPosition::try_new: `match run_number`, arms in source order *)\n"
    t += "Definition pwb_arms : list (rpat * option N) :=\n  %s.\n\n" % dx.coq_arms(found["pwb"])

    t += inv_note
    t += "(* INV_PADS_0, interpreted: ((after, pad channel), (column, row)) *)\n"
    t += "Definition inv_pads_0 : list (N * N * (N * N)) :=\n  [" + ";\n   ".join(
        "; ".join("(%d, %d, (%d, %d))" % (a, c, col, row) for (a, c), (col, row) in tab[i:i + 6])
        for i in range(0, len(tab), 6)) + "].\n\n"

    # TpcPadPosition::new
    body = norm(fn_body(src, "pub fn new(board_position: TpcPwbPosition, pad_position: PwbPadPosition)"))
    if ("TpcPadColumn::try_from(column.0 * PWB_PAD_COLUMNS + pad_column.0).unwrap()" not in body
            or "TpcPadRow::try_from(row.0 * PWB_PAD_ROWS + pad_row.0).unwrap()" not in body):
        raise GenError("padwing/map.rs: TpcPadPosition::new has an unknown shape")
    for ty, lim in (("TpcPwbColumn", "TPC_PWB_COLUMNS"), ("TpcPwbRow", "TPC_PWB_ROWS"), ("PwbPadColumn", "PWB_PAD_COLUMNS"),
                    ("PwbPadRow", "PWB_PAD_ROWS"), ("TpcPadColumn", "TPC_PAD_COLUMNS"), ("TpcPadRow", "TPC_PAD_ROWS")):
        b = norm(fn_body(src, "fn try_from(value: usize)", after="impl TryFrom<usize> for %s" % ty))
        if not b.startswith("if value < %s { Ok(" % lim):
            raise GenError("padwing/map.rs: %s::try_from(usize) has an unknown shape" % ty)
    # TpcPadColumn::phi
    body = norm(fn_body(src, "pub fn phi(&self) -> f64", after="impl TpcPadColumn"))
    if body != "let column = self.0; (column as f64 + 0.5) * PAD_PITCH_PHI":
        raise GenError("padwing/map.rs: TpcPadColumn::phi has an unknown shape")
    if norm(const_int(src, "PAD_PITCH_PHI")) != "2.0 * PI / (TPC_PAD_COLUMNS as f64)":
        raise GenError("padwing/map.rs: PAD_PITCH_PHI has an unknown shape")
    t += "(* TpcPadColumn::phi = (column + 1/2) * 2 pi / TPC_PAD_COLUMNS  (shape checked by the translator) *)\n\n"

    # padwing.rs: AfterId::try_from(u8) and PadChannelId::try_from(u16)
    arms = match_arms(pw, "impl TryFrom<u8> for AfterId", "num", 0)
    vals = []
    for i, (p, b) in enumerate(arms):
        if p == "_":
            continue
        if not re.fullmatch(r"\d+", p) or not re.fullmatch(r"Ok\(Self::[A-Z]\)", norm(b)):
            raise GenError("padwing.rs: AfterId::try_from(u8) has an unknown arm %r" % p)
        vals.append(int(p))
    t += "(* padwing.rs: accepted AfterId numbers, PadChannelId range *)\nDefinition gen_after_ids : list N := %s.\n" % coq_nlist(vals)
    arms = match_arms(pw, "impl TryFrom<u16> for PadChannelId", "num", 0)
    m = re.fullmatch(r"(\d+)\s*\.\.=\s*(\d+)", arms[0][0])
    if len(arms) != 2 or not m or norm(arms[0][1]) != "Ok(Self(num))" or arms[1][0] != "_":
        raise GenError("padwing.rs: PadChannelId::try_from has an unknown shape")
    t += "Definition gen_pad_channel_lo : N := %s.\nDefinition gen_pad_channel_hi : N := %s.\n\n" % (m.group(1), m.group(2))
    return t, env


def gen_matching(t, wenv, penv):
    src = read("physics/src/matching.rs")
    env = dict(wenv)
    env.update(penv)
    env = int_env(src, ["WIRES_PER_COLUMN", "WIRE_SHIFT"], env)
    body = norm(fn_body(src, "fn wire_to_pad_column(wire: usize) -> usize"))
    m = re.fullmatch(r"let shifted_index = wire\.wrapping_sub\(WIRE_SHIFT\) & (0x[0-9a-fA-F]+|\d+); "
                     r"shifted_index / WIRES_PER_COLUMN", body)
    if not m:
        raise GenError("matching.rs: wire_to_pad_column has an unknown shape: %r" % body)
    body2 = norm(fn_body(src, "fn pad_column_to_wires(pad_column: usize) -> Range<usize>"))
    m2 = re.fullmatch(r"let first = \(\(pad_column \* WIRES_PER_COLUMN\) \+ WIRE_SHIFT\) & (0x[0-9a-fA-F]+|\d+); "
                      r"first\.\.first \+ WIRES_PER_COLUMN", body2)
    if not m2:
        raise GenError("matching.rs: pad_column_to_wires has an unknown shape: %r" % body2)
    t += "(* physics/src/matching.rs *)\n"
    t += "Definition gen_WIRE_SHIFT : N := %d.\nDefinition gen_WIRES_PER_COLUMN : N := %d.\n" % (
        env["WIRE_SHIFT"], env["WIRES_PER_COLUMN"])
    t += "(* wire_to_pad_column w = ((w wrapping_sub WIRE_SHIFT) land mask) / WIRES_PER_COLUMN *)\n"
    t += "Definition gen_w2c_mask : N := %d.\n" % int(m.group(1), 0)
    t += "(* pad_column_to_wires c = first .. first + WIRES_PER_COLUMN, first = (c * WIRES_PER_COLUMN + WIRE_SHIFT) land mask *)\n"
    t += "Definition gen_c2w_mask : N := %d.\n" % int(m2.group(1), 0)
    return t


def generate():
    wenv = gen_wire_maps()
    t, penv = gen_pad_maps()
    t = gen_matching(t, wenv, penv)
    write_if_changed(os.path.join(GEN, "PadMaps.v"), t)


if __name__ == "__main__":
    generate()
    print("generated")
