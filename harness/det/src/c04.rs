// C04: PWB packet reassembly — case generation and implementation observations.
//   c4reasm <chunk hex>,<chunk hex>,...   every chunk through Chunk::try_from, then PwbV2Packet::try_from(Vec<Chunk>)
//       observation: `reasm-err` when reassembly fails with any variant other than BadPayload (a structural check),
//       else `concat <hex>`: the payloads in chunk-id order (concatenated by the harness);  `chunk-err` when a
//       chunk does not decode.  The model prints the bytes its reassembly hands to the payload decoder.
//   rel4valid <payload hex>               the payload builder's output is accepted by PwbV2Packet::try_from(&[u8])
//   rel4orders <chunk hex>,...            implementation-only oracle: every arrival order gives the same result
//       (packet, or error kind and position), success equals the direct decode of the id-ordered concatenation,
//       and PwbPacket::try_from agrees with PwbV2Packet::try_from.
use crate::c03::{devices, pad_of, Fields};
use crate::util::*;
use alpha_g_detector::padwing::{
    BoardId, Chunk, PwbPacket, PwbV2Packet, TryPwbPacketFromChunksError as RE,
};

fn parse_chunks(rest: &str) -> Option<Vec<Chunk>> {
    if rest == "-" {
        return Some(Vec::new());
    }
    let mut v = Vec::new();
    for h in rest.split(',') {
        match Chunk::try_from(&unhex(h)[..]) {
            Ok(c) => v.push(c),
            Err(_) => return None,
        }
    }
    Some(v)
}

fn concat_by_id(chunks: &[Chunk]) -> Vec<u8> {
    let mut idx: Vec<usize> = (0..chunks.len()).collect();
    idx.sort_by_key(|&i| chunks[i].chunk_id());
    let mut out = Vec::new();
    for i in idx {
        out.extend_from_slice(chunks[i].payload());
    }
    out
}

pub fn observe(rest: &str) -> String {
    let Some(chunks) = parse_chunks(rest) else {
        return "chunk-err".to_string();
    };
    let cat = concat_by_id(&chunks);
    match catch(move || PwbV2Packet::try_from(chunks)) {
        None => "panic".to_string(),
        // success and "the reassembled payload does not decode" are different outcomes: the model decodes the
        // concatenation with the C05 model and must agree on which one it is
        Some(Ok(_)) => format!("concat ok {}", hex(&cat)),
        Some(Err(RE::BadPayload(_))) => format!("concat payload-err {}", hex(&cat)),
        Some(Err(_)) => "reasm-err".to_string(),
    }
}

/// result class compared across orders: packet, or error kind and position (found/expected dropped)
fn outcome(chunks: Vec<Chunk>) -> String {
    match catch(move || PwbV2Packet::try_from(chunks)) {
        None => "panic".to_string(),
        Some(Ok(p)) => format!("ok {:?}", p),
        Some(Err(e)) => match e {
            RE::DeviceIdMismatch { .. } => "err device".to_string(),
            RE::ChannelIdMismatch { .. } => "err chip".to_string(),
            RE::MissingChunk { position, .. } => format!("err missing {position}"),
            RE::MissingEndOfMessageChunk => "err no-eom".to_string(),
            RE::MisplacedEndOfMessageChunk { position, .. } => format!("err eom-early {position}"),
            RE::PayloadLengthMismatch { .. } => "err length".to_string(),
            RE::BadPayload(inner) => format!("err payload {:?}", inner),
            // a variant this harness does not know (error variants are not constrained by the property): its name only
            #[allow(unreachable_patterns)]
            other => {
                let d = format!("{other:?}");
                format!("err {}", d.split(|c: char| !c.is_alphanumeric()).next().unwrap_or(""))
            }
        },
    }
}

fn next_permutation(a: &mut [usize]) -> bool {
    let n = a.len();
    if n < 2 {
        return false;
    }
    let mut i = n - 1;
    while i > 0 && a[i - 1] >= a[i] {
        i -= 1;
    }
    if i == 0 {
        return false;
    }
    let mut j = n - 1;
    while a[j] <= a[i - 1] {
        j -= 1;
    }
    a.swap(i - 1, j);
    a[i..].reverse();
    true
}
fn shuffle(r: &mut Rng, a: &mut [usize]) {
    for i in (1..a.len()).rev() {
        let j = r.below(i as u64 + 1) as usize;
        a.swap(i, j);
    }
}

pub fn relation(rest: &str) -> String {
    let Some(chunks) = parse_chunks(rest) else {
        return "holds".to_string(); // not a chunk list: nothing to relate
    };
    let n = chunks.len();
    let reference = outcome(chunks.clone());
    // success (or payload error) equals the direct decode of the id-ordered concatenation
    let cat = concat_by_id(&chunks);
    let direct = catch(|| PwbV2Packet::try_from(&cat[..]));
    match &direct {
        None => return "fails direct-decode-panics".to_string(),
        Some(Ok(p)) => {
            if reference.starts_with("ok ") && reference != format!("ok {:?}", p) {
                return "fails packet-differs-from-direct-decode".to_string();
            }
            // a set whose id-ordered concatenation decodes must not fail at the payload stage
            if reference.starts_with("err payload") {
                return "fails payload-error-although-direct-decode-succeeds".to_string();
            }
        }
        Some(Err(e)) => {
            if reference.starts_with("ok ") {
                return "fails reassembled-but-direct-decode-fails".to_string();
            }
            if reference.starts_with("err payload") && reference != format!("err payload {:?}", e) {
                return "fails payload-error-differs-from-direct-decode".to_string();
            }
        }
    }
    // the enum wrapper agrees
    let w = catch({
        let c = chunks.clone();
        move || PwbPacket::try_from(c)
    });
    match w {
        None => return "fails wrapper-panics".to_string(),
        Some(Ok(PwbPacket::V2(p))) => {
            if reference != format!("ok {:?}", p) {
                return "fails wrapper-differs".to_string();
            }
        }
        Some(Err(_)) => {
            if reference.starts_with("ok ") {
                return "fails wrapper-differs".to_string();
            }
        }
    }
    // all orders: exhaustively up to 6 chunks, 60 pseudo-random ones beyond (seeded by the case itself)
    let mut idx: Vec<usize> = (0..n).collect();
    let check = |idx: &[usize]| -> Option<String> {
        let perm: Vec<Chunk> = idx.iter().map(|&i| chunks[i].clone()).collect();
        let o = outcome(perm);
        if o != reference {
            Some(format!("fails order {:?} gives {} instead of {}", idx, &o[..o.len().min(60)], &reference[..reference.len().min(60)]))
        } else {
            None
        }
    };
    if n <= 6 {
        loop {
            if let Some(f) = check(&idx) {
                return f;
            }
            if !next_permutation(&mut idx) {
                break;
            }
        }
    } else {
        let mut r = Rng::new(rest.len() as u64 ^ 0xC04);
        idx.reverse();
        if let Some(f) = check(&idx) {
            return f;
        }
        for _ in 0..60 {
            shuffle(&mut r, &mut idx);
            if let Some(f) = check(&idx) {
                return f;
            }
        }
    }
    "holds".to_string()
}

fn valid_payload(h: &str) -> String {
    let b = unhex(h);
    match catch(move || PwbV2Packet::try_from(&b[..]).is_ok()) {
        Some(true) => "holds".to_string(),
        Some(false) => "fails builder-payload-refused".to_string(),
        None => "fails direct-decode-panics".to_string(),
    }
}

// ---------------------------------------------------------------------------------------------
// builders

/// a valid PWB v2 packet payload (layout of PwbV2Packet::try_from(&[u8]))
pub fn pwb_payload(r: &mut Rng, n_channels: usize, samples: usize) -> Vec<u8> {
    let names: Vec<String> = (0..100).map(|i| format!("{:02}", i)).collect();
    let boards: Vec<BoardId> = names.iter().filter_map(|n| BoardId::try_from(n.as_str()).ok()).collect();
    let board = r.pick(&boards);
    let mut v = vec![2u8, b"ABCD"[r.below(4) as usize], 0, r.pick(&[0u8, 1, 3])];
    v.extend(board.mac_address());
    v.extend((r.boundary(0xFFFF) as u16).to_le_bytes());
    let ts = r.boundary((1u64 << 48) - 1);
    v.extend(ts.to_le_bytes());
    v.extend((r.boundary(511) as u16).to_le_bytes());
    v.extend((samples as u16).to_le_bytes());
    // channels sent: n_channels distinct bits among 79
    let mut bits: Vec<usize> = (0..79).collect();
    shuffle(r, &mut bits);
    let mut sent: Vec<usize> = bits[..n_channels.min(79)].to_vec();
    sent.sort();
    let mut mask = 0u128;
    for &b in &sent {
        mask |= 1 << b;
    }
    v.extend(&mask.to_le_bytes()[..10]);
    let thr = (r.next() as u128 | ((r.next() as u128) << 64)) & ((1u128 << 79) - 1);
    v.extend(&thr.to_le_bytes()[..10]);
    v.extend((r.next() as u32).to_le_bytes());
    v.extend((r.next() as u16).to_le_bytes());
    v.push(r.next() as u8);
    v.push(r.next() as u8);
    for &b in &sent {
        v.extend((b as u16 + 1).to_le_bytes());
        v.extend((samples as u16).to_le_bytes());
        for _ in 0..samples {
            v.extend((r.range(0, 4095) as i16 - 2048).to_le_bytes());
        }
        if samples % 2 == 1 {
            v.extend([0u8, 0]);
        }
    }
    v.extend([0xCCu8; 4]);
    v
}

#[derive(Clone)]
pub struct Msg {
    pub chunks: Vec<Fields>,
}
impl Msg {
    pub fn line(&self, order: &[usize]) -> String {
        if order.is_empty() {
            return "-".to_string();
        }
        order.iter().map(|&i| hex(&self.chunks[i].bytes())).collect::<Vec<_>>().join(",")
    }
    pub fn natural(&self) -> Vec<usize> {
        (0..self.chunks.len()).collect()
    }
}
fn mk_chunk(dev: u32, chan: u8, pseq: u32, cseq: u16, id: u16, eom: bool, payload: &[u8]) -> Fields {
    let mut body = payload.to_vec();
    body.resize(payload.len() + pad_of(payload.len()), 0);
    Fields { dev, pseq, cseq, chan, flags: eom as u8, id, clen: payload.len() as u16, body }
}
/// split a payload into chunks of `size` bytes (the last one takes the rest)
pub fn split(r: &mut Rng, devs: &[u32], payload: &[u8], size: usize) -> Msg {
    let dev = r.pick(devs);
    let chan = r.below(4) as u8;
    let pseq = r.boundary(u32::MAX as u64) as u32;
    let cseq = r.boundary(u16::MAX as u64) as u16;
    let parts: Vec<&[u8]> = payload.chunks(size).collect();
    let n = parts.len();
    let chunks = parts
        .iter()
        .enumerate()
        .map(|(i, p)| mk_chunk(dev, chan, pseq.wrapping_add(i as u32), cseq.wrapping_add(i as u16), i as u16, i + 1 == n, p))
        .collect();
    Msg { chunks }
}

fn emit(s: &mut Sink, label: &str, line: &str) {
    let o = observe(line);
    s.put(&format!("c4reasm {line}"), &o, label, o != "chunk-err" && line != "-");
}
fn emit_rel(s: &mut Sink, label: &str, line: &str) {
    s.put(&format!("rel4orders {line}"), &relation(line), label, true);
}
/// a case in three arrival orders (natural, reversed, random) + the all-orders oracle
fn emit_orders(s: &mut Sink, r: &mut Rng, label: &str, m: &Msg, with_rel: bool) {
    let mut o = m.natural();
    emit(s, label, &m.line(&o));
    if o.len() > 1 {
        o.reverse();
        emit(s, label, &m.line(&o));
        shuffle(r, &mut o);
        emit(s, label, &m.line(&o));
    }
    if with_rel {
        emit_rel(s, &format!("rel-{label}"), &m.line(&m.natural()));
    }
}

/// every single fault of the property text applied to a well-formed message
fn faults(s: &mut Sink, r: &mut Rng, devs: &[u32], m: &Msg, rel: bool) {
    let n = m.chunks.len();
    let positions: Vec<usize> = if n <= 8 { (0..n).collect() } else { vec![0, 1, n / 2, n - 2, n - 1] };
    for &i in &positions {
        // drop chunk i
        let mut f = m.clone();
        f.chunks.remove(i);
        emit_orders(s, r, "fault-drop", &f, rel);
        // duplicate chunk i (exact copy, and a copy with another payload of the same size)
        let mut f = m.clone();
        f.chunks.push(m.chunks[i].clone());
        emit_orders(s, r, "fault-duplicate", &f, rel);
        let mut f = m.clone();
        let mut c = m.chunks[i].clone();
        for b in c.body.iter_mut().take(c.clen as usize) {
            *b ^= 0x5A;
        }
        f.chunks.insert(r.below(n as u64 + 1) as usize, c);
        emit_orders(s, r, "fault-duplicate-other-payload", &f, rel);
        // chunk of another board / another chip swapped in
        let mut f = m.clone();
        f.chunks[i].dev = *devs.iter().find(|&&d| d != m.chunks[i].dev).unwrap();
        emit_orders(s, r, "fault-other-board", &f, rel);
        let mut f = m.clone();
        f.chunks[i].chan = (m.chunks[i].chan + 1 + r.below(3) as u8) % 4;
        emit_orders(s, r, "fault-other-chip", &f, rel);
        // end-of-message flag toggled
        let mut f = m.clone();
        f.chunks[i].flags ^= 1;
        emit_orders(s, r, "fault-eom-toggle", &f, rel);
        // chunk resized by one byte (shorter / longer); for the final chunk this is not a fault of the set
        for delta in [-1i32, 1] {
            let mut f = m.clone();
            let c = &mut f.chunks[i];
            let mut p: Vec<u8> = c.body[..c.clen as usize].to_vec();
            if delta < 0 {
                p.pop();
            } else {
                p.push(0x77);
            }
            if !p.is_empty() {
                *c = mk_chunk(c.dev, c.chan, c.pseq, c.cseq, c.id, c.flags == 1, &p);
                emit_orders(s, r, if i + 1 == n { "final-chunk-resized" } else { "fault-resize" }, &f, rel);
            }
        }
        // chunk id changed: to another present id, to n, to a far value with one bit set
        for new_id in [((i + 1) % n) as u16, n as u16, 1u16 << r.below(16), u16::MAX] {
            if new_id as usize != i {
                let mut f = m.clone();
                f.chunks[i].id = new_id;
                emit_orders(s, r, "fault-id-changed", &f, rel);
            }
        }
    }
    // every single bit of the id of one chunk flipped (ids aliasing modulo 2^k must not be accepted)
    for &i in &[0usize, n / 2, n - 1] {
        for k in 0..16 {
            let mut f = m.clone();
            f.chunks[i].id ^= 1 << k;
            let o = f.natural();
            emit(s, "fault-id-bit", &f.line(&o));
        }
    }
    // ids shifted by one (no id 0), end-of-message on every chunk / on none
    let mut f = m.clone();
    for c in f.chunks.iter_mut() {
        c.id += 1;
    }
    emit_orders(s, r, "fault-ids-from-1", &f, rel);
    let mut f = m.clone();
    for c in f.chunks.iter_mut() {
        c.flags = 1;
    }
    emit_orders(s, r, if n == 1 { "valid" } else { "fault-eom-everywhere" }, &f, rel);
    let mut f = m.clone();
    for c in f.chunks.iter_mut() {
        c.flags = 0;
    }
    emit_orders(s, r, "fault-eom-nowhere", &f, rel);
    // two complete messages mixed (same board and chip): every id twice
    let mut f = m.clone();
    f.chunks.extend(m.chunks.iter().cloned());
    emit_orders(s, r, "fault-two-messages", &f, rel);
}

pub fn run(tier: &str, seed: u64, s: &mut Sink) {
    let mut r = Rng::new(seed ^ 0xC04);
    let thorough = tier == "thorough";
    let devs = devices();
    emit(s, "empty", "-");
    emit_rel(s, "rel-empty", "-");

    // ---- valid packets split at every chunk-size class, a few arrival orders each
    let shapes: Vec<(usize, usize)> = if thorough {
        vec![(0, 0), (1, 0), (1, 1), (2, 3), (3, 8), (5, 16), (7, 31), (79, 2), (12, 64), (4, 511)]
    } else {
        vec![(0, 0), (1, 1), (2, 3), (3, 8), (6, 17)]
    };
    for &(nch, ns) in &shapes {
        let p = pwb_payload(&mut r, nch, ns);
        let l = p.len();
        // the builder must produce payloads the implementation accepts (else the success path is not exercised)
        s.put(&format!("rel4valid {}", hex(&p)), &valid_payload(&hex(&p)), "rel-builder-accepted", true);
        let mut sizes = vec![1usize, 2, 3, 4, 5, 7, 8, 51, 52, 53, 55, 56, 57, 63, 64, 65, 255, 256, 1023, 1024, 65535];
        sizes.extend([l.saturating_sub(1).max(1), l, l + 1, l / 2, l / 2 + 1, (l + 2) / 3]);
        sizes.sort();
        sizes.dedup();
        for &k in &sizes {
            if k == 0 || k > 65535 {
                continue;
            }
            let m = split(&mut r, &devs, &p, k);
            let n = m.chunks.len();
            if n > 400 && !thorough {
                continue;
            }
            emit_orders(s, &mut r, "valid-split", &m, n <= 6 || k % 2 == 1);
        }
    }
    // ---- all permutations: differential on every order up to 4 (6 in thorough) chunks
    let max_all = if thorough { 6 } else { 5 };
    for n in 1..=6usize {
        let reps = if thorough { 40 } else { 1 };
        for _ in 0..reps {
            let (a, b) = (1 + r.below(3) as usize, r.below(6) as usize);
            let p = pwb_payload(&mut r, a, b);
            let k = (p.len() + n - 1) / n;
            let m = split(&mut r, &devs, &p, k);
            if m.chunks.len() != n {
                continue;
            }
            emit_rel(s, "rel-valid-all-orders", &m.line(&m.natural()));
            let mut idx = m.natural();
            if n <= max_all {
                loop {
                    emit(s, "valid-all-orders", &m.line(&idx));
                    if !next_permutation(&mut idx) {
                        break;
                    }
                }
            } else {
                for _ in 0..30 {
                    shuffle(&mut r, &mut idx);
                    emit(s, "valid-random-orders", &m.line(&idx));
                }
            }
        }
    }
    // ---- random (undecodable) payload bytes: structure accepted, payload refused
    for &(l, k) in &[(1usize, 1usize), (2, 1), (7, 3), (56, 8), (100, 33), (300, 1), (513, 2), (1000, 256)] {
        let p = r.bytes(l);
        let m = split(&mut r, &devs, &p, k);
        emit_orders(s, &mut r, "random-payload", &m, true);
    }
    // the final chunk longer than the others, shorter, equal
    for last in [1usize, 4, 5, 9, 40] {
        let body = r.bytes(15);
        let mut m = split(&mut r, &devs, &body, 5);
        let c = m.chunks.last().unwrap().clone();
        let tail = r.bytes(last);
        *m.chunks.last_mut().unwrap() = mk_chunk(c.dev, c.chan, c.pseq, c.cseq, c.id, true, &tail);
        emit_orders(s, &mut r, "final-chunk-size", &m, true);
    }
    // ---- every single fault, on messages of 1..6 chunks and one of many chunks
    for rep in 0..if thorough { 6 } else { 1 } {
        for n in 1..=6usize {
            let p = pwb_payload(&mut r, 2 + rep, 4 + rep);
            let k = (p.len() + n - 1) / n;
            let m = split(&mut r, &devs, &p, k);
            faults(s, &mut r, &devs, &m, true);
        }
    }
    {
        let p = pwb_payload(&mut r, 3, 6);
        let m = split(&mut r, &devs, &p, 3);
        faults(s, &mut r, &devs, &m, thorough);
    }
    // ---- large: two chunks at the maximal chunk size (a full 79-channel packet), many chunk ids
    let big = pwb_payload(&mut r, 79, 511);
    for &k in &[65535usize, 65534, 40962] {
        if k == 65535 || thorough {
            let m = split(&mut r, &devs, &big, k);
            emit_orders(s, &mut r, "valid-split-max-chunk", &m, true);
        }
    }
    {
        // chunk ids with every bit up to 2^11 set: 4100 one-byte chunks (sorted, reversed in blocks, shuffled)
        let n = if thorough { 4100 } else { 1030 };
        let body = r.bytes(n);
        let m = split(&mut r, &devs, &body, 1);
        let mut idx = m.natural();
        emit(s, "many-chunks", &m.line(&idx));
        shuffle(&mut r, &mut idx);
        emit(s, "many-chunks", &m.line(&idx));
        emit_rel(s, "rel-many-chunks", &m.line(&idx));
        let mut f = m.clone();
        f.chunks.remove(n / 2);
        emit(s, "many-chunks-drop", &f.line(&f.natural()));
        let mut f = m.clone();
        f.chunks[n - 1].id = 1 << 12;
        emit(s, "many-chunks-id-bit", &f.line(&f.natural()));
    }
    // a chunk that does not decode inside the list
    {
        let body = r.bytes(9);
        let m = split(&mut r, &devs, &body, 3);
        let mut parts: Vec<String> = m.chunks.iter().map(|c| hex(&c.bytes())).collect();
        parts[1] = format!("{}00", &parts[1][..parts[1].len() - 2]);
        emit(s, "undecodable-chunk", &parts.join(","));
    }
}

/// implementation observation for a case line of this module (None: not one of mine)
pub fn observe_line(line: &str) -> Option<String> {
    let (tag, rest) = line.split_once(' ').unwrap_or((line, "-"));
    match tag {
        "c4reasm" => Some(observe(rest)),
        "rel4orders" => Some(relation(rest)),
        "rel4valid" => Some(valid_payload(rest)),
        _ => None,
    }
}
