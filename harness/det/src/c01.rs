// C01: the raw-data decoders are total. Every decoder of the detector crate is fed near-valid and hostile
// inputs; the case lines reuse the tags of the decoder's own property module (adc, c3chunk, pwbv2, c4reasm,
// trg, cb, nm), so the implementation's observation (ok + accessors / err / panic) is compared with the proved
// model of that decoder, and the driver additionally runs every case through a second build of this harness
// WITH overflow checks: the two builds must print the same line.
use crate::util::*;
use crate::{c02, c03, c04, c05, c06, c07};

fn emit(s: &mut Sink, case: String, label: &str) {
    let o = crate::observe_line(&case);
    s.put(&case, &o, label, true);
}

const EDGE: [u8; 7] = [0, 1, 2, 0x7f, 0x80, 0xfe, 0xff];

/// a packet with each of its first `upto` bytes set to the edge values, truncated / extended by every
/// amount in -40..=40, and with single bit flips
fn near(s: &mut Sink, r: &mut Rng, tag: &str, label: &str, base: &[u8], upto: usize, thorough: bool) {
    emit(s, format!("{tag} {}", hex(base)), label);
    for i in 0..upto.min(base.len()) {
        for &v in EDGE.iter() {
            let mut b = base.to_vec();
            b[i] = v;
            emit(s, format!("{tag} {}", hex(&b)), &format!("{label}-byte"));
        }
        // every single bit of the header region (a reserved-bit or mask check narrowed by one nibble)
        for bit in 0..8 {
            if thorough || base.len() <= 100 || r.chance(1, 2) {
                let mut b = base.to_vec();
                b[i] ^= 1 << bit;
                emit(s, format!("{tag} {}", hex(&b)), &format!("{label}-header-bit"));
            }
        }
    }
    // every prefix of the packet up to 120 bytes (a length guard weakened by a few bytes shows only when the
    // bytes in front of it are well-formed)
    for len in 0..=base.len().min(120) {
        emit(s, format!("{tag} {}", hex(&base[..len])), &format!("{label}-prefix"));
    }
    for d in 1..=40usize {
        if base.len() >= d && (thorough || d <= 8 || r.chance(1, 4)) {
            emit(s, format!("{tag} {}", hex(&base[..base.len() - d])), &format!("{label}-truncated"));
        }
        if thorough || d <= 4 || r.chance(1, 8) {
            let mut b = base.to_vec();
            b.extend(r.bytes(d));
            emit(s, format!("{tag} {}", hex(&b)), &format!("{label}-extended"));
        }
    }
    for _ in 0..(if thorough { 64 } else { 12 }) {
        let mut b = base.to_vec();
        let i = r.below(b.len() as u64) as usize;
        b[i] ^= 1 << r.below(8);
        emit(s, format!("{tag} {}", hex(&b)), &format!("{label}-bitflip"));
    }
}

pub fn run(tier: &str, seed: u64, s: &mut Sink) {
    let mut r = Rng::new(seed ^ 0xC01);
    let thorough = tier == "thorough";
    let reps = if thorough { 12 } else { 2 };

    // ---- ADC: firmware-controlled counters at 0, 1, 2, n+1.. and their maxima; keep_last around its guards
    for _ in 0..reps {
        let base = c02::valid(&mut r);
        near(s, &mut r, "adc", "adc", &base.long(), 36, thorough);
        near(s, &mut r, "adc", "adc-short", &base.short(), 16, thorough);
        let n = base.samples.len() as i64;
        for req in [0i64, 1, 2, 3, n, n + 1, n + 2, n + 3, 65534, 65535] {
            for kl in [0u16, 1, 2, 33, 34, 35, 2047, 2048, 4094, 4095] {
                for (supp, kb) in [(false, false), (false, true), (true, false), (true, true)] {
                    let mut p = base.clone();
                    p.req = req.clamp(0, 65535) as u16;
                    p.keep_last = kl;
                    p.supp = supp;
                    p.keep_bit = kb;
                    emit(s, format!("adc {}", hex(&p.long())), "adc-counters");
                }
            }
        }
        for ns in [0usize, 1, 2, 62, 63, 64, 65] {
            let mut p = base.clone();
            p.samples.truncate(ns);
            p.req = r.pick(&[0u16, 1, 2, ns as u16 + 2]);
            emit(s, format!("adc {}", hex(&p.long())), "adc-few-samples");
        }
    }
    // ---- TRG
    for _ in 0..reps {
        let base = c06::valid(&mut r).bytes();
        near(s, &mut r, "trg", "trg", &base, 80, thorough);
    }
    // ---- PWB chunk: chunk_length around every guard and at the u16 extremes, on short and on large slices
    let devs = c03::devices();
    for _ in 0..reps {
        for n in [1usize, 2, 3, 4, 5, 8, 61] {
            let f = c03::valid(&mut r, &devs, n);
            near(s, &mut r, "c3chunk", "chunk", &f.bytes(), 20, thorough);
            let len = f.bytes().len() as i64;
            for cl in [0i64, 1, 2, 3, 4, len - 29, len - 28, len - 27, len - 26, len - 25, len - 24, len - 23, 32767, 32768, 65532, 65533, 65534, 65535] {
                let mut g = f.clone();
                g.clen = cl.clamp(0, 65535) as u16;
                emit(s, format!("c3chunk {}", hex(&g.bytes())), "chunk-length-field");
            }
        }
    }
    for n in [65532usize, 65533, 65534, 65535] {
        let f = c03::valid(&mut r, &devs, n);
        emit(s, format!("c3chunk {}", hex(&f.bytes())), "chunk-max-size");
        let mut g = f.clone();
        g.clen = 65535;
        emit(s, format!("c3chunk {}", hex(&g.bytes())), "chunk-max-size");
    }
    // ---- PWB packet from bytes: masks, requested_samples, last cell at their extremes
    let macs = c05::known_macs();
    for _ in 0..reps {
        let base = c05::small_valid(&mut r, &macs);
        near(s, &mut r, "pwbv2", "pwb", &base.bytes(), 52, thorough);
        for req in [0u16, 1, 2, 510, 511, 512, 513, 32767, 32768, 65534, 65535] {
            for sent in [0u128, 1, 1 << 78, 1 << 79, (1 << 79) - 1, (1 << 80) - 1, r.next() as u128] {
                let mut p = base.clone();
                p.req = req;
                p.sent = sent;
                if req <= 600 {
                    p.fill(&mut r);
                }
                emit(s, format!("pwbv2 {}", hex(&p.bytes())), "pwb-counters");
            }
        }
    }
    // ---- PWB packet from a list of chunks: empty list, one chunk, ids at 0 / 1 / 65535, duplicates, mixtures
    for _ in 0..reps {
        let (nch, nsm) = (r.range(1, 4) as usize, r.pick(&[0usize, 1, 2, 5]));
        let payload = c04::pwb_payload(&mut r, nch, nsm);
        for size in [1usize, 7, 52, payload.len().max(1), 65535] {
            let m = c04::split(&mut r, &devs, &payload, size);
            if m.chunks.len() > 40 {
                continue;
            }
            let nat = m.natural();
            emit(s, format!("c4reasm {}", m.line(&nat)), "reasm");
            let mut rev = nat.clone();
            rev.reverse();
            emit(s, format!("c4reasm {}", m.line(&rev)), "reasm");
            // sizes the checks do not forbid: the last chunk longer than chunk 0, chunk 0 alone longer (2 chunks),
            // a single chunk of every small size (capacity / offset arithmetic on payload lengths)
            if m.chunks.len() >= 2 {
                for extra in [1usize, 3, 4, 100] {
                    let mut g = m.clone();
                    let first_len = g.chunks[0].clen as usize;
                    let last = g.chunks.last_mut().unwrap();
                    let n = first_len + extra;
                    last.body = r.bytes(n);
                    last.body.resize(n + c03::pad_of(n), 0);
                    last.clen = n as u16;
                    emit(s, format!("c4reasm {}", g.line(&nat)), "reasm-last-chunk-longer");
                    emit(s, format!("c4reasm {}", g.line(&rev)), "reasm-last-chunk-longer");
                }
            }
            for k in 0..m.chunks.len().min(6) {
                for id in [0u16, 1, 2, 32767, 32768, 65534, 65535] {
                    let mut g = m.clone();
                    g.chunks[k].id = id;
                    emit(s, format!("c4reasm {}", g.line(&nat)), "reasm-id-field");
                }
                let mut dup = nat.clone();
                dup.push(k);
                emit(s, format!("c4reasm {}", m.line(&dup)), "reasm-duplicate");
                let mut drop = nat.clone();
                drop.remove(k);
                emit(s, format!("c4reasm {}", m.line(&drop)), "reasm-missing");
            }
        }
        emit(s, "c4reasm -".to_string(), "reasm-empty");
    }
    // ---- Chronobox FIFO: streams, every word class followed by data, truncated tails
    for k in 0..(if thorough { 300 } else { 40 }) {
        let b = c07::stream(&mut r, if k % 8 == 0 { 60 } else { 10 });
        emit(s, format!("cb {}", hex(&b)), "cb-stream");
        if !b.is_empty() {
            let mut c = b.clone();
            let i = r.below(c.len() as u64) as usize;
            let e = r.pick(&EDGE);
            c[i] = e;
            emit(s, format!("cb {}", hex(&c)), "cb-stream-byte");
        }
    }
    // ---- bank names: every length 0..=8 over an alphabet with multi-byte characters at every offset
    let alpha: Vec<&str> = vec!["P", "C", "B", "A", "T", "0", "1", "9", "F", "f", "G", "V", "W", "+", "-", " ", "\0", "é", "¹", "€", "𝄞"];
    let n_names = if thorough { 60000 } else { 4000 };
    for _ in 0..n_names {
        let len = r.below(6) as usize;
        let mut name = String::new();
        // bias to the documented prefixes so that the deeper slicing code is reached
        match r.below(6) {
            0 => name.push_str("PC"),
            1 => name.push('B'),
            2 => name.push('C'),
            3 => name.push_str("CBF"),
            _ => {}
        }
        for _ in 0..len {
            name.push_str(r.pick(&alpha));
        }
        emit(s, format!("nm {}", hex(name.as_bytes())), "name");
        if name.len() <= 4 || r.chance(1, 4) {
            emit(s, format!("rel01id {}", hex(name.as_bytes())), "id-conversions");
        }
    }
    for w in ["", "0", "00", "09", "9", "99", "100", "cb01", "cb04", "cb05", "CB01", "é0", "0é", "€", "\u{10348}"] {
        emit(s, format!("rel01id {}", hex(w.as_bytes())), "id-conversions");
    }
    // ---- arbitrary bytes of every length 0..=120 and a few long strings up to 65 KiB, for every byte decoder
    for len in 0..=120usize {
        for tag in ["adc", "trg", "c3chunk", "pwbv2", "cb"] {
            let mut b = r.bytes(len);
            if r.chance(1, 2) && len >= 2 {
                // plausible first bytes so that the deeper code is reached
                match tag {
                    "adc" => {
                        b[0] = 1;
                        b[1] = 3;
                    }
                    "pwbv2" => {
                        b[0] = 2;
                        b[1] = b'A' + (r.below(4) as u8);
                    }
                    _ => {}
                }
            }
            emit(s, format!("{tag} {}", hex(&b)), "random-length");
        }
    }
    for len in [1000usize, 4096, 65535, 65536, 66560] {
        for tag in ["adc", "trg", "c3chunk", "pwbv2", "cb"] {
            if thorough || r.chance(1, 2) {
                emit(s, format!("{tag} {}", hex(&r.bytes(len))), "random-long");
            }
        }
    }
}

/// implementation-only oracle for the board-ID / channel-ID conversions (`rel01id <hex of a UTF-8 string>`):
/// none of them may panic on any string or number derived from it
fn id_conversions(name: &str) -> String {
    let n = name.to_string();
    let r = catch(move || {
        let _ = alpha_g_detector::alpha16::BoardId::try_from(n.as_str());
        let _ = alpha_g_detector::padwing::BoardId::try_from(n.as_str());
        let _ = alpha_g_detector::chronobox::BoardId::try_from(n.as_str());
        // numeric conversions on every byte / 16-bit word of the string
        let b = n.as_bytes();
        for (i, &x) in b.iter().enumerate() {
            let _ = alpha_g_detector::alpha16::Adc16ChannelId::try_from(x);
            let _ = alpha_g_detector::alpha16::Adc32ChannelId::try_from(x);
            let _ = alpha_g_detector::alpha16::ModuleId::try_from(x);
            let _ = alpha_g_detector::chronobox::ChannelId::try_from(x);
            let w = u16::from(x) | (u16::from(*b.get(i + 1).unwrap_or(&0)) << 8);
            let _ = alpha_g_detector::padwing::ChannelId::try_from(w);
            let _ = alpha_g_detector::padwing::PadChannelId::try_from(w);
            let _ = alpha_g_detector::padwing::AfterId::try_from(x);
            let _ = alpha_g_detector::padwing::AfterId::try_from(x as char);
        }
    });
    if r.is_some() { "holds".to_string() } else { "fails panic in an ID conversion".to_string() }
}

/// the other case tags belong to the decoders' own modules
pub fn observe_line(line: &str) -> Option<String> {
    let (tag, rest) = line.split_once(' ').unwrap_or((line, "-"));
    match tag {
        "rel01id" => Some(match String::from_utf8(unhex(rest)) {
            Ok(s) => id_conversions(&s),
            Err(_) => "holds".to_string(),
        }),
        _ => None,
    }
}
