// C07: chronobox FIFO parser — whole-stream and piecewise (resume protocol) observations.
use crate::util::*;
use alpha_g_detector::chronobox::{chronobox_fifo, EdgeType, FifoEntry};

fn fmt_entries(es: &[FifoEntry], rem: usize) -> String {
    let mut s = format!("{} {}", es.len(), rem);
    for e in es {
        match e {
            FifoEntry::TimestampCounter(t) => {
                let tr = matches!(t.edge, EdgeType::Trailing) as u8;
                s.push_str(&format!(" T{}.{}.{}", u8::from(t.channel), tr, t.timestamp()));
            }
            FifoEntry::WrapAroundMarker(m) => {
                s.push_str(&format!(
                    " M{}.{}",
                    m.timestamp_top_bit as u8,
                    m.wrap_around_counter()
                ));
            }
        }
    }
    s
}

pub fn observe_whole(bytes: &[u8]) -> String {
    let b = bytes.to_vec();
    match catch(move || {
        let mut input = &b[..];
        let es = chronobox_fifo(&mut input);
        // the remainder must be the untouched tail of the input
        let rem = input.len();
        let tail_ok = b[b.len() - rem..] == *input;
        (es, rem, tail_ok)
    }) {
        None => "panic".into(),
        Some((es, rem, ok)) => {
            if ok {
                fmt_entries(&es, rem)
            } else {
                "remainder-not-a-suffix".into()
            }
        }
    }
}

/// resume protocol: append each piece to the previous remainder and parse again
pub fn observe_feed(pieces: &[Vec<u8>]) -> String {
    let pieces = pieces.to_vec();
    match catch(move || {
        let mut rem: Vec<u8> = Vec::new();
        let mut all = Vec::new();
        for p in pieces {
            rem.extend_from_slice(&p);
            let mut input = &rem[..];
            let mut es = chronobox_fifo(&mut input);
            all.append(&mut es);
            rem = input.to_vec();
        }
        (all, rem.len())
    }) {
        None => "panic".into(),
        Some((es, rem)) => fmt_entries(&es, rem),
    }
}

fn ts_word(r: &mut Rng) -> [u8; 4] {
    let ch = match r.below(6) {
        0 => 0,
        1 => 58,
        _ => r.below(59) as u8,
    };
    let t = r.boundary(0xFF_FFFF) as u32;
    let w = ((0x80 | ch as u32) << 24) | t;
    w.to_le_bytes()
}
fn mk_word(r: &mut Rng) -> [u8; 4] {
    let t = r.boundary(0xFF_FFFF) as u32;
    ((0xFFu32 << 24) | t).to_le_bytes()
}
fn scalers(r: &mut Rng) -> Vec<u8> {
    let mut v = vec![0x3C, 0, 0, 0xFE];
    // body may contain anything, including bytes that look like words or tags
    let mut body = r.bytes(240);
    if r.chance(1, 3) {
        for i in (0..240).step_by(4) {
            body[i..i + 4].copy_from_slice(&[0x3C, 0, 0, 0xFE]);
        }
    }
    v.extend(body);
    v
}
fn invalid_word(r: &mut Rng) -> [u8; 4] {
    let top = match r.below(6) {
        0 => 0x80 + 59,
        1 => 0xFE,
        2 => 0x7F,
        3 => 0x00,
        4 => r.range(0x80 + 59, 0xFE) as u8,
        _ => r.below(0x80) as u8,
    };
    let mut w = (r.next() as u32).to_le_bytes();
    w[3] = top;
    w
}

/// a stream from the grammar; mostly valid, optionally ending with an invalid word / truncated tail
pub fn stream(r: &mut Rng, max_elems: u64) -> Vec<u8> {
    let n = r.below(max_elems + 1);
    let mut v = Vec::new();
    for _ in 0..n {
        match r.below(10) {
            0..=4 => v.extend(ts_word(r)),
            5..=7 => v.extend(mk_word(r)),
            _ => v.extend(scalers(r)),
        }
    }
    match r.below(8) {
        0 => v.extend(invalid_word(r)),
        1 => {
            // truncated scaler block
            let s = scalers(r);
            let k = r.below(244) as usize;
            v.extend(&s[..k]);
        }
        2 => {
            let w = ts_word(r);
            let k = r.below(4) as usize;
            v.extend(&w[..k]);
        }
        3 => {
            // invalid word followed by valid data (must not be consumed)
            v.extend(invalid_word(r));
            v.extend(ts_word(r));
            v.extend(mk_word(r));
        }
        _ => {}
    }
    v
}

fn emit_whole(s: &mut Sink, label: &str, b: &[u8]) {
    s.put(&format!("cb {}", hex(b)), &observe_whole(b), label, b.len() >= 4);
}
fn emit_feed(s: &mut Sink, label: &str, pieces: &[Vec<u8>]) {
    let c: Vec<String> = pieces.iter().map(|p| hex(p)).collect();
    let total: usize = pieces.iter().map(|p| p.len()).sum();
    s.put(&format!("cbfeed {}", c.join(",")), &observe_feed(pieces), label, total >= 4);
}

fn cut(b: &[u8], cuts: &[usize]) -> Vec<Vec<u8>> {
    let mut out = Vec::new();
    let mut prev = 0;
    for &c in cuts {
        out.push(b[prev..c].to_vec());
        prev = c;
    }
    out.push(b[prev..].to_vec());
    out
}

pub fn run(tier: &str, seed: u64, s: &mut Sink) {
    let mut r = Rng::new(seed ^ 0xC07);
    let thorough = tier == "thorough";
    // all 256 top bytes x a few low patterns: classification of words
    for top in 0..=255u8 {
        for low in [[0u8, 0, 0], [1, 0, 0], [0xFF, 0xFF, 0xFF], [0xFE, 0xFF, 0x7F], [0, 0, 0x80], [0x3C, 0, 0]] {
            let w = [low[0], low[1], low[2], top];
            emit_whole(s, "word-class", &w);
        }
    }
    let n_words = if thorough { 100000 } else { 3000 };
    for _ in 0..n_words {
        let w = (r.next() as u32).to_le_bytes();
        emit_whole(s, "word-random", &w);
    }
    // words followed by valid data: a word that is neither timestamp, marker nor the scaler tag must stop the
    // parse with everything from it on left untouched, whatever follows; in particular tag-like words whose low
    // 24 bits look like another block length, followed by that many words
    for top in [0x00u8, 0x3C, 0x7F, 0x80 + 58, 0x80 + 59, 0xBB, 0xFD, 0xFE, 0xFF] {
        for n in [0u32, 1, 2, 58, 59, 60, 61, 62, 63, 64, 100, 255, 256, 0x3C00, 0x3C0000, 0xFFFFFF] {
            let w = (n | ((top as u32) << 24)).to_le_bytes();
            for tail_words in [0usize, 1, 59, 60, 61, 62, 65, n.min(300) as usize, n.min(300) as usize + 2] {
                let mut b = Vec::new();
                if r.chance(1, 2) {
                    b.extend(ts_word(&mut r));
                }
                b.extend(w);
                for _ in 0..tail_words {
                    if r.chance(3, 4) {
                        b.extend(ts_word(&mut r));
                    } else {
                        b.extend(mk_word(&mut r));
                    }
                }
                emit_whole(s, "word-then-tail", &b);
            }
        }
    }
    for _ in 0..(if thorough { 20000 } else { 400 }) {
        let mut b = (r.next() as u32).to_le_bytes().to_vec();
        if r.chance(1, 3) {
            b[3] = r.pick(&[0xFEu8, 0xFD, 0xFF, 0xBA, 0xBB]);
        }
        for _ in 0..r.below(70) {
            b.extend(ts_word(&mut r));
        }
        emit_whole(s, "word-then-tail", &b);
    }
    // scaler-block length boundaries
    for len in [0usize, 1, 3, 4, 5, 243, 244, 245, 247, 248, 487, 488, 489] {
        let mut b = scalers(&mut r);
        b.extend(scalers(&mut r));
        b.extend(ts_word(&mut r));
        b.truncate(len);
        emit_whole(s, "scalers-length", &b);
    }
    let n_streams = if thorough { 2000 } else { 150 };
    for k in 0..n_streams {
        let b = stream(&mut r, if k % 10 == 0 { 40 } else { 12 });
        emit_whole(s, "stream", &b);
        // every single cut (thorough) or sampled cuts (quick)
        let cuts: Vec<usize> = if thorough || b.len() <= 64 {
            (0..=b.len()).collect()
        } else {
            (0..48).map(|_| r.below(b.len() as u64 + 1) as usize).collect()
        };
        for c in cuts {
            emit_feed(s, "cut1", &cut(&b, &[c]));
        }
        // random multi-cuts
        for _ in 0..4 {
            let k = r.range(2, 6) as usize;
            let mut cs: Vec<usize> = (0..k).map(|_| r.below(b.len() as u64 + 1) as usize).collect();
            cs.sort();
            emit_feed(s, "cut-multi", &cut(&b, &cs));
        }
        // all 1-byte pieces
        if b.len() <= 600 {
            let pieces: Vec<Vec<u8>> = b.iter().map(|&x| vec![x]).collect();
            emit_feed(s, "cut-bytes", &pieces);
        }
    }
    // long bursts: more consecutive timestamp / marker words than any round batch size (2^16, 2^17, 2^18) without a
    // scalers block in between, whole and cut in two; the parser must not stop at a capacity of its own
    let bursts: &[usize] = if thorough { &[65535, 65536, 65537, 70001, 131073, 262145] } else { &[65535, 65536, 65537, 70001] };
    for &n in bursts {
        let mut b = Vec::with_capacity(4 * n + 300);
        if r.chance(1, 2) {
            b.extend(scalers(&mut r));
        }
        for _ in 0..n {
            if r.chance(15, 16) {
                b.extend(ts_word(&mut r));
            } else {
                b.extend(mk_word(&mut r));
            }
        }
        if r.chance(1, 2) {
            b.extend(scalers(&mut r));
            b.extend(ts_word(&mut r));
        }
        // `cblong` / `cbfeedlong`: answered by the recursive model only (the combinator-level runner is quadratic in the
        // stream length; the two models are proved equal, C07_cbw_fifo_eq)
        s.put(&format!("cblong {}", hex(&b)), &observe_whole(&b), "long-burst", true);
        let c = r.below(b.len() as u64 + 1) as usize;
        let pieces = cut(&b, &[c]);
        let hs: Vec<String> = pieces.iter().map(|p| hex(p)).collect();
        s.put(&format!("cbfeedlong {}", hs.join(",")), &observe_feed(&pieces), "long-burst-cut1", true);
    }
    // random bytes
    let n_rand = if thorough { 3000 } else { 300 };
    for _ in 0..n_rand {
        let len = r.below(64) as usize;
        let b = r.bytes(len);
        emit_whole(s, "random", &b);
    }
}

/// implementation observation for a case line of this module (None: not one of mine)
pub fn observe_line(line: &str) -> Option<String> {
    let (tag, rest) = line.split_once(' ').unwrap_or((line, "-"));
    match tag {
        "cb" | "cblong" => Some(observe_whole(&crate::util::unhex(rest))),
        "cbfeed" | "cbfeedlong" => {
            let pieces: Vec<Vec<u8>> = rest.split(',').map(crate::util::unhex).collect();
            Some(observe_feed(&pieces))
        }
        _ => None,
    }
}
