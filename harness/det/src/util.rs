// Shared helpers: deterministic PRNG, hex, case sink.
use std::io::Write;

pub struct Rng(pub u64);
impl Rng {
    pub fn new(seed: u64) -> Self {
        Rng(seed ^ 0x9E3779B97F4A7C15)
    }
    pub fn next(&mut self) -> u64 {
        // SplitMix64
        self.0 = self.0.wrapping_add(0x9E3779B97F4A7C15);
        let mut z = self.0;
        z = (z ^ (z >> 30)).wrapping_mul(0xBF58476D1CE4E5B9);
        z = (z ^ (z >> 27)).wrapping_mul(0x94D049BB133111EB);
        z ^ (z >> 31)
    }
    pub fn below(&mut self, n: u64) -> u64 {
        if n == 0 {
            0
        } else {
            self.next() % n
        }
    }
    pub fn range(&mut self, lo: u64, hi: u64) -> u64 {
        lo + self.below(hi - lo + 1)
    }
    pub fn pick<T: Copy>(&mut self, xs: &[T]) -> T {
        xs[self.below(xs.len() as u64) as usize]
    }
    pub fn chance(&mut self, num: u64, den: u64) -> bool {
        self.below(den) < num
    }
    pub fn bytes(&mut self, n: usize) -> Vec<u8> {
        let mut v = Vec::with_capacity(n);
        while v.len() < n {
            let x = self.next().to_le_bytes();
            for b in x {
                if v.len() < n {
                    v.push(b);
                }
            }
        }
        v
    }
    /// value biased to boundaries of [0, max]
    pub fn boundary(&mut self, max: u64) -> u64 {
        match self.below(8) {
            0 => 0,
            1 => 1.min(max),
            2 => max,
            3 => max.saturating_sub(1),
            4 => max / 2,
            _ => {
                if max == u64::MAX {
                    self.next()
                } else {
                    self.below(max + 1)
                }
            }
        }
    }
}

pub fn hex(b: &[u8]) -> String {
    let mut s = String::with_capacity(b.len() * 2 + 1);
    if b.is_empty() {
        s.push('-');
    }
    for x in b {
        s.push_str(&format!("{:02x}", x));
    }
    s
}

pub fn unhex(s: &str) -> Vec<u8> {
    if s == "-" {
        return Vec::new();
    }
    (0..s.len() / 2)
        .map(|i| u8::from_str_radix(&s[2 * i..2 * i + 2], 16).unwrap())
        .collect()
}

/// Sink for cases: one line in cases file (what the model runner reads), one line in impl file
/// (the implementation's observation), one line in meta file (label, nontrivial flag).
pub struct Sink {
    pub cases: Box<dyn Write>,
    pub obs: Box<dyn Write>,
    pub meta: Box<dyn Write>,
    pub n: u64,
}
impl Sink {
    pub fn new(dir: &str) -> Sink {
        let f = |n: &str| -> Box<dyn Write> {
            Box::new(std::io::BufWriter::new(
                std::fs::File::create(format!("{dir}/{n}")).unwrap(),
            ))
        };
        Sink {
            cases: f("cases.txt"),
            obs: f("impl.txt"),
            meta: f("meta.txt"),
            n: 0,
        }
    }
    pub fn put(&mut self, case: &str, obs: &str, label: &str, nontrivial: bool) {
        writeln!(self.cases, "{case}").unwrap();
        writeln!(self.obs, "{obs}").unwrap();
        writeln!(self.meta, "{label} {}", nontrivial as u8).unwrap();
        self.n += 1;
    }
    pub fn finish(mut self) {
        self.cases.flush().unwrap();
        self.obs.flush().unwrap();
        self.meta.flush().unwrap();
    }
}

/// Run f catching panics; returns None on panic.
pub fn catch<T>(f: impl FnOnce() -> T + std::panic::UnwindSafe) -> Option<T> {
    std::panic::catch_unwind(f).ok()
}

pub fn quiet_panics() {
    std::panic::set_hook(Box::new(|_| {}));
}

/// Common command line of all harness binaries.
pub fn harness_main(run_property: fn(&str, &str, u64, &mut Sink) -> bool, observe_line: fn(&str) -> String) {
    use std::io::BufRead;
    let args: Vec<String> = std::env::args().collect();
    quiet_panics();
    match args.get(1).map(|s| s.as_str()) {
        Some("gen") if args.len() >= 6 => {
            let (prop, tier, seed, out) = (&args[2], &args[3], args[4].parse::<u64>().unwrap(), &args[5]);
            let mut sink = Sink::new(out);
            if !run_property(prop, tier, seed, &mut sink) {
                eprintln!("unknown property {prop}");
                std::process::exit(2);
            }
            sink.finish();
        }
        Some("obs") => {
            let stdin = std::io::stdin();
            for line in stdin.lock().lines() {
                // a panic inside the implementation is an observation, not a harness failure
                let l = line.unwrap();
                let o = catch(|| observe_line(&l)).unwrap_or_else(|| "panic".to_string());
                println!("{o}");
            }
        }
        _ => {
            eprintln!("usage: gen <property> <tier> <seed> <outdir> | obs < cases");
            std::process::exit(2);
        }
    }
}
