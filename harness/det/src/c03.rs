// C03: PWB chunk integrity — case generation and implementation observations.
//   c3chunk <hex>   Chunk::try_from(&[u8]) + all accessors
//   c3crc <hex>     !crc32c::crc32c(bytes)  (the crate the decoder calls) vs the model's bitwise CRC
use crate::util::*;
use alpha_g_detector::padwing::{AfterId, BoardId, Chunk};

pub fn after_num(a: AfterId) -> u8 {
    match a {
        AfterId::A => 0,
        AfterId::B => 1,
        AfterId::C => 2,
        AfterId::D => 3,
    }
}

pub fn observe(bytes: &[u8]) -> String {
    let b = bytes.to_vec();
    match catch(move || {
        Chunk::try_from(&b[..]).map(|c| {
            let n = b.len();
            format!(
                "ok {} {} {} {} {} {} {} {} {} {} {}",
                c.board_id().device_id(),
                after_num(c.after_id()),
                c.packet_sequence(),
                c.channel_sequence(),
                c.chunk_id(),
                c.is_end_of_message() as u8,
                c.header_crc32c(),
                c.payload_crc32c(),
                u32::from_le_bytes(b[16..20].try_into().unwrap()),
                u32::from_le_bytes(b[n - 4..].try_into().unwrap()),
                hex(c.payload())
            )
        })
    }) {
        None => "panic".to_string(),
        Some(Err(_)) => "err".to_string(),
        Some(Ok(s)) => s,
    }
}

/// device ids of all boards of PADWING_BOARDS (the table is private: enumerate the two-character names)
pub fn devices() -> Vec<u32> {
    let mut v = Vec::new();
    for a in b'0'..=b'9' {
        for b in b'0'..=b'9' {
            let name = format!("{}{}", a as char, b as char);
            if let Ok(id) = BoardId::try_from(name.as_str()) {
                v.push(id.device_id());
            }
        }
    }
    v
}

#[derive(Clone)]
pub struct Fields {
    pub dev: u32,
    pub pseq: u32,
    pub cseq: u16,
    pub chan: u8,
    pub flags: u8,
    pub id: u16,
    pub clen: u16, // declared chunk_length
    pub body: Vec<u8>, // payload followed by padding, as laid out
}
pub fn inv_crc(b: &[u8]) -> u32 {
    !crc32c::crc32c(b)
}
impl Fields {
    pub fn header(&self) -> Vec<u8> {
        let mut h = Vec::with_capacity(16);
        h.extend(self.dev.to_le_bytes());
        h.extend(self.pseq.to_le_bytes());
        h.extend(self.cseq.to_le_bytes());
        h.push(self.chan);
        h.push(self.flags);
        h.extend(self.id.to_le_bytes());
        h.extend(self.clen.to_le_bytes());
        h
    }
    /// bytes with both CRC words computed correctly over whatever the fields are
    pub fn bytes(&self) -> Vec<u8> {
        let h = self.header();
        let mut v = h.clone();
        v.extend(inv_crc(&h).to_le_bytes());
        v.extend(&self.body);
        v.extend(inv_crc(&self.body).to_le_bytes());
        v
    }
}
pub fn pad_of(n: usize) -> usize {
    (4 - n % 4) % 4
}
/// a well-formed chunk with the given payload
pub fn valid_with(r: &mut Rng, devs: &[u32], payload: Vec<u8>) -> Fields {
    let n = payload.len();
    let mut body = payload;
    body.resize(n + pad_of(n), 0);
    Fields {
        dev: r.pick(devs),
        pseq: r.boundary(u32::MAX as u64) as u32,
        cseq: r.boundary(u16::MAX as u64) as u16,
        chan: r.below(4) as u8,
        flags: r.below(2) as u8,
        id: r.boundary(u16::MAX as u64) as u16,
        clen: n as u16,
        body,
    }
}
pub fn valid(r: &mut Rng, devs: &[u32], n: usize) -> Fields {
    let p = match r.below(4) {
        0 => vec![0u8; n],
        1 => vec![0xFFu8; n],
        _ => r.bytes(n),
    };
    valid_with(r, devs, p)
}

fn emit(s: &mut Sink, label: &str, bytes: &[u8]) {
    let o = observe(bytes);
    let nontrivial = bytes.len() >= 28 && bytes.len() % 4 == 0;
    s.put(&format!("c3chunk {}", hex(bytes)), &o, label, nontrivial);
}
fn emit_crc(s: &mut Sink, label: &str, bytes: &[u8]) {
    s.put(&format!("c3crc {}", hex(bytes)), &format!("crc {}", inv_crc(bytes)), label, true);
}
fn flip(b: &[u8], bits: &[usize]) -> Vec<u8> {
    let mut q = b.to_vec();
    for &k in bits {
        q[k / 8] ^= 1 << (k % 8);
    }
    q
}
/// values with every single bit set, and the neighbours, below 2^w
fn bit_values(w: u32) -> Vec<u64> {
    let mut v = vec![0u64, 1, 2];
    for k in 0..w {
        let x = 1u64 << k;
        for y in [x.wrapping_sub(1), x, x + 1] {
            if y < (1u64 << w) {
                v.push(y);
            }
        }
    }
    v.push((1u64 << w) - 1);
    v.push((1u64 << w) - 2);
    v.push(1u64 << (w - 1) | 1u64 << (w / 2));
    v.sort();
    v.dedup();
    v
}

/// flipped variants of an accepted chunk: singles, pairs/triples, bursts
fn corruptions(s: &mut Sink, r: &mut Rng, b: &[u8], all_singles: bool, n_multi: usize, burst_offsets: usize, sparse: bool) {
    let nbits = b.len() * 8;
    let n = b.len();
    // single-bit flips
    if all_singles {
        for k in 0..nbits {
            emit(s, "flip1", &flip(b, &[k]));
        }
    } else {
        // all header / header CRC bits, last payload word (padding) and payload CRC bits; strided payload
        let mut ks: Vec<usize> = if sparse { (0..160).step_by(9).collect() } else { (0..160).collect() };
        ks.extend(((n - 8) * 8..nbits).step_by(if sparse { 3 } else { 1 }));
        let stride = (nbits / if sparse { 6 } else { 24 }).max(1);
        ks.extend((160..nbits).step_by(stride));
        for _ in 0..8 {
            ks.push(r.range(160, nbits as u64 - 1) as usize);
        }
        for k in ks {
            emit(s, "flip1-large", &flip(b, &[k]));
        }
    }
    // pairs and triples: biased to the same 32-bit word, header x payload, data x its CRC word
    for _ in 0..n_multi {
        let a = r.below(nbits as u64) as usize;
        let pick_near = |r: &mut Rng, a: usize| -> usize {
            let w = a / 32 * 32;
            w + r.below(32) as usize
        };
        let second = match r.below(6) {
            0 | 1 => pick_near(r, a),
            2 => r.below(160) as usize,                                // header codeword
            3 => 160 + r.below((nbits - 160) as u64) as usize,        // payload codeword
            4 => nbits - 32 + r.below(32) as usize,                    // payload CRC word
            _ => r.below(nbits as u64) as usize,
        };
        if second != a {
            emit(s, "flip2", &flip(b, &[a, second]));
            let third = match r.below(4) {
                0 => pick_near(r, second),
                1 => 128 + r.below(32) as usize, // header CRC word
                _ => r.below(nbits as u64) as usize,
            };
            if third != a && third != second {
                emit(s, "flip3", &flip(b, &[a, second, third]));
            }
        }
    }
    // bursts: every length 1..=32 (first and last bit of the window flipped, random in between),
    // serial order (LSB first within bytes) and MSB-first order
    for len in 1..=32usize {
        for j in 0..burst_offsets {
            let max_off = nbits - len;
            let off = match j {
                0 => 0,
                1 => max_off,
                2 => 160 - len.min(160) / 2, // straddles header CRC / payload
                3 => 128 - len / 2,             // straddles header / header CRC
                4 => nbits - 32 - len / 2,     // straddles body / payload CRC
                _ => r.below(max_off as u64 + 1) as usize,
            }
            .min(max_off);
            let mut ks = vec![off];
            if len > 1 {
                ks.push(off + len - 1);
                for k in off + 1..off + len - 1 {
                    if r.chance(1, 2) {
                        ks.push(k);
                    }
                }
            }
            emit(s, "burst", &flip(b, &ks));
            // same window counted MSB-first within bytes
            let msb: Vec<usize> = ks.iter().map(|k| k / 8 * 8 + (7 - k % 8)).collect();
            emit(s, "burst-msb-first", &flip(b, &msb));
        }
    }
    // whole bytes / aligned words replaced
    for _ in 0..6 {
        let mut q = b.to_vec();
        let i = r.below(n as u64) as usize;
        let old = q[i];
        q[i] = r.next() as u8;
        if q[i] != old {
            emit(s, "byte-change", &q);
        }
        let mut q = b.to_vec();
        let w = r.below(n as u64 / 4) as usize * 4;
        let x = r.bytes(4);
        if q[w..w + 4] != x[..] {
            q[w..w + 4].copy_from_slice(&x);
            emit(s, "word-change", &q);
        }
    }
}

pub fn run(tier: &str, seed: u64, s: &mut Sink) {
    let mut r = Rng::new(seed ^ 0xC03);
    let thorough = tier == "thorough";
    let devs = devices();
    // documentation chunk
    let doc: [u8; 28] = [
        236, 40, 255, 135, 2, 0, 0, 0, 3, 0, 0, 1, 5, 0, 1, 0, 143, 203, 131, 81, 255, 0, 0, 0, 122, 92, 155, 159,
    ];
    emit(s, "doc", &doc);

    // ---- CRC crate vs bitwise model
    emit_crc(s, "crc-check-string", b"123456789");
    for n in 0..=40usize {
        emit_crc(s, "crc-zeros", &vec![0u8; n]);
        emit_crc(s, "crc-ones", &vec![0xFFu8; n]);
    }
    let n_crc = if thorough { 3000 } else { 300 };
    for _ in 0..n_crc {
        let n = r.below(200) as usize;
        emit_crc(s, "crc-random", &r.bytes(n));
    }
    for n in [1024usize, 4096, 65536] {
        emit_crc(s, "crc-long", &r.bytes(n));
    }
    for k in 0..64usize {
        // single set bit: the impulse response of the register
        let mut v = vec![0u8; 8];
        v[k / 8] = 1 << (k % 8);
        emit_crc(s, "crc-impulse", &v);
    }

    // ---- valid chunks: every payload length class, every device, chip, flag
    let mut lens: Vec<usize> = (1..=64).collect();
    lens.extend(1021..=1027);
    if thorough {
        lens.extend(65532..=65535);
    } else {
        lens.push(65535);
    }
    for &n in &lens {
        let f = valid(&mut r, &devs, n);
        emit(s, "valid", &f.bytes());
    }
    for (i, &d) in devs.iter().enumerate() {
        let mut f = valid(&mut r, &devs, 1 + i % 9);
        f.dev = d;
        f.chan = (i % 4) as u8;
        f.flags = (i / 4 % 2) as u8;
        emit(s, "valid-device", &f.bytes());
        // neighbours of every known id, byte-swapped id
        for d2 in [d.wrapping_add(1), d.wrapping_sub(1), d.swap_bytes(), d ^ 0x8000_0000] {
            f.dev = d2;
            emit(s, "device-near", &f.bytes());
        }
    }

    // ---- every header field at boundary values and with every single bit set (CRCs recomputed)
    let n_base = if thorough { 12 } else { 2 };
    for bi in 0..n_base {
        let base = valid(&mut r, &devs, [5usize, 8, 1, 30, 64, 3, 2, 4, 7, 33, 12, 63][bi % 12]);
        for v in bit_values(32) {
            let mut f = base.clone();
            f.dev = v as u32;
            emit(s, "field-device", &f.bytes());
            let mut f = base.clone();
            f.pseq = v as u32;
            emit(s, "field-packet-seq", &f.bytes());
        }
        for v in bit_values(16) {
            let mut f = base.clone();
            f.cseq = v as u16;
            emit(s, "field-channel-seq", &f.bytes());
            let mut f = base.clone();
            f.id = v as u16;
            emit(s, "field-chunk-id", &f.bytes());
            // declared length alone changed (body unchanged): only the window value is accepted
            let mut f = base.clone();
            f.clen = v as u16;
            emit(s, "field-length-only", &f.bytes());
        }
        for v in 0..=255u8 {
            let mut f = base.clone();
            f.chan = v;
            emit(s, "field-chip", &f.bytes());
            let mut f = base.clone();
            f.flags = v;
            emit(s, "field-flags", &f.bytes());
        }
    }
    // accepted chunks whose length field has every single bit set (2^k, 2^k +- 1): needs large chunks
    for k in 0..16u32 {
        let x = 1usize << k;
        for n in [x - 1, x, x + 1] {
            if n >= 1 && n <= 65535 && (thorough || k < 14 || n == x) {
                let f = valid(&mut r, &devs, n);
                emit(s, "length-bits-accepted", &f.bytes());
            }
        }
    }

    // ---- chunk_length window: declared N with exactly N-4 .. N+7 bytes between header CRC and payload CRC
    for &n in &[1usize, 2, 3, 4, 5, 6, 7, 8, 9, 31, 32, 33, 63, 64, 65, 1023, 1024, 1025] {
        for region in n.saturating_sub(4)..=n + 7 {
            for fill in 0..3 {
                // fill 0: payload random, rest zero; 1: everything nonzero; 2: everything zero
                let mut body = match fill {
                    0 => {
                        let mut p = r.bytes(n.min(region));
                        for x in p.iter_mut() {
                            *x |= 1;
                        }
                        p.resize(region, 0);
                        p
                    }
                    1 => vec![0xA5u8; region],
                    _ => vec![0u8; region],
                };
                body.truncate(region);
                let mut f = valid(&mut r, &devs, 1);
                f.clen = n as u16;
                f.body = body;
                emit(s, "length-window", &f.bytes());
            }
        }
    }
    // declared length around len-28..len-23 for fixed slices
    for total in [28usize, 32, 36, 40, 64, 1052] {
        for fill in 0..2 {
            let region = total - 24;
            let body = if fill == 0 { vec![0u8; region] } else { r.bytes(region).iter().map(|x| x | 1).collect() };
            for d in 22..=30i64 {
                let clen = total as i64 - d;
                if (0..=65535).contains(&clen) {
                    let mut f = valid(&mut r, &devs, 1);
                    f.clen = clen as u16;
                    f.body = body.clone();
                    emit(s, "length-window-slice", &f.bytes());
                }
            }
        }
    }
    // the u16 cannot express a length that fits a slice longer than 65535+3+24: 65564, 65568
    for total in [65560usize, 65564, 65568] {
        let region = total - 24;
        for clen in [65535u16, 65534, 65533, 65532, 0] {
            let mut f = valid(&mut r, &devs, 1);
            f.clen = clen;
            f.body = vec![0u8; region];
            emit(s, "length-window-max", &f.bytes());
        }
    }

    // ---- padding bytes nonzero (payload CRC recomputed, and not)
    for n in [1usize, 2, 3, 5, 6, 7, 61, 62, 63] {
        let base = valid(&mut r, &devs, n);
        for p in n..n + pad_of(n) {
            for v in [1u8, 0x80, 0xFF] {
                let mut f = base.clone();
                f.body[p] = v;
                emit(s, "padding-nonzero", &f.bytes());
                let mut q = base.bytes();
                q[20 + p] = v;
                emit(s, "padding-nonzero-crc-stale", &q);
            }
        }
    }

    // ---- truncation / extension
    for n in [1usize, 4, 6, 17] {
        let b = valid(&mut r, &devs, n).bytes();
        for len in 0..=b.len() + 9 {
            let mut q = b.clone();
            q.resize(len, 0);
            emit(s, "length-cut-or-extend", &q);
        }
        let mut q = b.clone();
        q.extend(r.bytes(4));
        emit(s, "extend-random", &q);
        // two valid chunks back to back, a chunk inside the payload of a chunk
        let b2 = valid(&mut r, &devs, 3).bytes();
        let mut q = b.clone();
        q.extend(&b2);
        emit(s, "two-chunks", &q);
        let mut q = b2.clone();
        q.extend(&b);
        emit(s, "two-chunks", &q);
        let f = valid_with(&mut r, &devs, b.clone());
        emit(s, "chunk-in-payload", &f.bytes());
    }
    for len in (0..=64usize).chain([65556, 65560, 65564]) {
        emit(s, "random-bytes", &r.bytes(len));
        // random body behind a valid device id
        let mut q = r.bytes(len);
        if len >= 4 {
            q[..4].copy_from_slice(&r.pick(&devs).to_le_bytes());
        }
        emit(s, "random-bytes-known-device", &q);
    }

    // ---- wrong CRC conventions
    for n in [1usize, 4, 7, 32] {
        let f = valid(&mut r, &devs, n);
        let good = f.bytes();
        let h = f.header();
        let len = good.len();
        let variants: Vec<(usize, u32)> = vec![
            (16, crc32c::crc32c(&h)),                          // not inverted
            (16, inv_crc(&h).swap_bytes()),                    // big-endian
            (16, inv_crc(&good[..20])),                        // over 20 bytes
            (16, inv_crc(&h[..12])),                           // over 12 bytes
            (16, 0),
            (16, u32::MAX),
            (16, inv_crc(&f.body)),                            // swapped with payload CRC
            (len - 4, crc32c::crc32c(&f.body)),
            (len - 4, inv_crc(&f.body).swap_bytes()),
            (len - 4, inv_crc(&f.body[..n])),                  // padding excluded
            (len - 4, inv_crc(&good[16..len - 4])),            // header CRC word included
            (len - 4, inv_crc(&good[..len - 4])),              // whole chunk
            (len - 4, inv_crc(&f.body[..f.body.len() - 1])),   // range one byte short
            (len - 4, inv_crc(&h)),
            (len - 4, 0),
            (len - 4, u32::MAX),
        ];
        for (at, w) in variants {
            let mut q = good.clone();
            q[at..at + 4].copy_from_slice(&w.to_le_bytes());
            emit(s, "crc-convention", &q);
        }
    }

    // ---- the two 32-bit MSB-first "bursts" that are multiples of the generator (C03_chunk_burst32_msb_first_refuted):
    // documented witnesses, accepted by model and implementation alike when they fall inside one codeword
    for n in [5usize, 8, 23, 64] {
        let base = valid(&mut r, &devs, n).bytes();
        for pat in [[0x62u8, 0x95, 0xe3, 0xfd, 0x80], [0x01, 0x03, 0x83, 0x6b, 0xf2]] {
            for off in [16usize, 18, 20, 20 + n - 5, base.len() - 5, base.len() - 7] {
                let mut q = base.clone();
                for (i, p) in pat.iter().enumerate() {
                    q[off + i] ^= p;
                }
                emit(s, "burst-msb-first-generator-multiple", &q);
                // open known finding msb_first_burst32: under the MSB-first reading of "contiguous bits" these two
                // 32-bit windows (40 serial positions) are multiples of the generator and are not rejected
                if off >= 20 && off + 5 <= base.len() - 4 {
                    let case = format!("relkf-msbburst32 {} {}", hex(&base), hex(&q));
                    let o = observe_line(&case).unwrap();
                    s.put(&case, &o, "known-class-msb-first-burst32", true);
                }
            }
        }
    }

    // ---- corruptions of accepted chunks
    let small: Vec<usize> = if thorough { (1..=64).chain([100, 255, 256]).collect() } else { vec![1, 2, 3, 4, 5, 8, 13, 32] };
    for (i, &n) in small.iter().enumerate() {
        let b = valid(&mut r, &devs, n).bytes();
        emit(s, "valid", &b);
        let all = thorough || i < 5;
        corruptions(s, &mut r, &b, all, if thorough { 300 } else { 60 }, if thorough { 12 } else { 6 }, false);
    }
    // the zero padding is bound by its own check AND by the payload CRC: every 1- and 2-bit change confined to the
    // padding bytes (exhaustively; triples in thorough), for every padding length
    for n in [1usize, 2, 3, 5, 6, 7] {
        let b = valid(&mut r, &devs, n).bytes();
        let (lo, hi) = ((20 + n) * 8, (20 + n + pad_of(n)) * 8);
        for a in lo..hi {
            emit(s, "padding-flip1", &flip(&b, &[a]));
            for c in a + 1..hi {
                emit(s, "padding-flip2", &flip(&b, &[a, c]));
                if thorough {
                    for d in c + 1..hi {
                        emit(s, "padding-flip3", &flip(&b, &[a, c, d]));
                    }
                }
            }
        }
        // padding bytes all set to the same value, and padding with a CRC recomputed over it
        for v in [1u8, 0x80, 0xFF] {
            let mut q = b.clone();
            for i in 20 + n..20 + n + pad_of(n) {
                q[i] = v;
            }
            emit(s, "padding-same-value", &q);
        }
    }
    // every burst length at every offset of one small chunk
    {
        let b = valid(&mut r, &devs, 6).bytes();
        let nbits = b.len() * 8;
        for len in 1..=32usize {
            let step = if thorough { 1 } else { 5 };
            for off in (0..=nbits - len).step_by(step) {
                let mut ks = vec![off];
                if len > 1 {
                    ks.push(off + len - 1);
                }
                for k in off + 1..(off + len).saturating_sub(1) {
                    if r.chance(1, 2) {
                        ks.push(k);
                    }
                }
                emit(s, "burst-every-offset", &flip(&b, &ks));
            }
        }
    }
    let large: Vec<usize> = if thorough { vec![1021, 1024, 4099, 65533, 65535] } else { vec![1022, 65535] };
    for &n in &large {
        let b = valid(&mut r, &devs, n).bytes();
        emit(s, "valid", &b);
        let (m, bo) = if n > 5000 { (if thorough { 20 } else { 3 }, 0) } else { (40, 1) };
        corruptions(s, &mut r, &b, false, m, bo, n > 5000 && !thorough);
    }
}

/// implementation observation for a case line of this module (None: not one of mine)
pub fn observe_line(line: &str) -> Option<String> {
    let (tag, rest) = line.split_once(' ').unwrap_or((line, "-"));
    match tag {
        "c3chunk" => Some(observe(&unhex(rest))),
        "relkf-msbburst32" => {
            // implementation-only oracle: a change confined to 32 contiguous bits (MSB-first numbering within bytes) of
            // an accepted chunk must be rejected
            let (a, b) = rest.split_once(' ')?;
            let (a, b) = (unhex(a), unhex(b));
            let ok = |x: &[u8]| {
                let v = x.to_vec();
                catch(move || alpha_g_detector::padwing::Chunk::try_from(&v[..]).is_ok()).unwrap_or(false)
            };
            Some(if ok(&a) && a != b && ok(&b) {
                let first = a.iter().zip(&b).position(|(x, y)| x != y).unwrap();
                format!("fails accepted: 32 contiguous bits (MSB-first within bytes) starting in byte {first} changed, chunk still accepted")
            } else {
                "holds".to_string()
            })
        }
        "c3crc" => Some(format!("crc {}", inv_crc(&unhex(rest)))),
        _ => None,
    }
}
