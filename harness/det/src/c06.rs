// C06: TRG packet decoding — case generation and implementation observations.
use crate::util::*;
use alpha_g_detector::trigger::TrgV3Packet;

pub fn observe(bytes: &[u8]) -> String {
    let b = bytes.to_vec();
    match catch(move || TrgV3Packet::try_from(&b[..])) {
        None => "panic".to_string(),
        Some(Err(_)) => "err".to_string(),
        Some(Ok(p)) => format!(
            "ok {} {} {} {} {} {} {} {} {} {} {} {} {} {} {} {} {} {}",
            p.udp_counter(),
            p.timestamp(),
            p.output_counter(),
            p.input_counter(),
            p.pulser_counter(),
            p.trigger_bitmap(),
            p.nim_bitmap(),
            p.esata_bitmap(),
            p.satisfied_mlu() as u8,
            p.aw16_prompt(),
            p.drift_veto_counter(),
            p.scaledown_counter(),
            p.aw16_multiplicity(),
            p.aw16_bus(),
            p.bsc64_bus(),
            p.bsc64_multiplicity(),
            p.coincidence_latch(),
            p.firmware_revision()
        ),
    }
}

#[derive(Clone)]
pub struct Words(pub [u32; 20]);
impl Words {
    pub fn bytes(&self) -> Vec<u8> {
        self.0.iter().flat_map(|w| w.to_le_bytes()).collect()
    }
}

/// A well-formed packet with boundary-biased random field values.
pub fn valid(r: &mut Rng) -> Words {
    let mut c = [
        r.boundary(u32::MAX as u64) as u32,
        r.boundary(u32::MAX as u64) as u32,
        r.boundary(u32::MAX as u64) as u32,
        r.boundary(u32::MAX as u64) as u32,
    ];
    if r.chance(1, 3) {
        // close together
        let base = r.boundary(u32::MAX as u64 - 3) as u32;
        for x in c.iter_mut() {
            *x = base + r.below(4) as u32;
        }
    }
    c.sort();
    let (out, sd, drift, inp) = (c[0], c[1], c[2], c[3]);
    let mut w = [0u32; 20];
    w[0] = r.boundary(0x7FFF_FFFF) as u32;
    w[1] = 0x8000_0000 | (out & 0x0FFF_FFFF);
    w[2] = r.boundary(u32::MAX as u64) as u32;
    w[3] = out;
    w[4] = inp;
    for i in 5..9 {
        w[i] = r.boundary(u32::MAX as u64) as u32;
    }
    w[9] = ((r.below(2) as u32) << 31) | r.boundary(0xFFFF) as u32;
    w[10] = drift;
    w[11] = sd;
    w[12] = 0;
    w[13] = ((r.boundary(0xFF) as u32) << 16) | r.boundary(0xFFFF) as u32;
    w[14] = r.boundary(u32::MAX as u64) as u32;
    w[15] = r.boundary(u32::MAX as u64) as u32;
    w[16] = r.boundary(0xFF) as u32;
    w[17] = r.boundary(0xFF) as u32;
    w[18] = r.boundary(u32::MAX as u64) as u32;
    w[19] = 0xE000_0000 | (out & 0x0FFF_FFFF);
    Words(w)
}

fn emit(s: &mut Sink, label: &str, bytes: &[u8]) {
    let o = observe(bytes);
    let nontrivial = bytes.len() == 80;
    s.put(&format!("trg {}", hex(bytes)), &o, label, nontrivial);
}

pub fn run(tier: &str, seed: u64, s: &mut Sink) {
    let mut r = Rng::new(seed ^ 0xC06);
    let thorough = tier == "thorough";
    let n_base = if thorough { 400 } else { 40 };
    // documentation packet first (corpus)
    let doc: [u8; 80] = [
        255, 0, 0, 0, 0, 0, 0, 128, 254, 0, 0, 0, 0, 0, 0, 0, 3, 0, 0, 0, 0, 0, 0, 0, 5, 0, 0, 0, 6,
        0, 0, 0, 7, 0, 0, 0, 8, 0, 0, 128, 2, 0, 0, 0, 1, 0, 0, 0, 0, 0, 0, 0, 9, 0, 10, 0, 11, 0,
        0, 0, 0, 0, 0, 0, 12, 0, 0, 0, 13, 0, 0, 0, 14, 0, 0, 0, 0, 0, 0, 224,
    ];
    emit(s, "doc", &doc);
    for _ in 0..n_base {
        let base = valid(&mut r);
        emit(s, "valid", &base.bytes());
        // every reserved bit individually
        let mut reserved: Vec<(usize, u32)> = vec![(0, 31)];
        for b in 16..31 {
            reserved.push((9, b));
        }
        for b in 0..32 {
            reserved.push((12, b));
        }
        for b in 24..32 {
            reserved.push((13, b));
        }
        for b in 8..32 {
            reserved.push((16, b));
            reserved.push((17, b));
        }
        for (w, b) in reserved {
            let mut p = base.clone();
            p.0[w] ^= 1 << b;
            emit(s, "reserved-bit", &p.bytes());
        }
        // header / footer marks: all 16 nibbles
        for nib in 0..16u32 {
            let mut p = base.clone();
            p.0[1] = (p.0[1] & 0x0FFF_FFFF) | (nib << 28);
            emit(s, "header-mark", &p.bytes());
            let mut p = base.clone();
            p.0[19] = (p.0[19] & 0x0FFF_FFFF) | (nib << 28);
            emit(s, "footer-mark", &p.bytes());
        }
        // low-28 agreements and disagreements
        for which in 0..3 {
            for bit in [0u32, 1, 13, 27, 28, 29, 31] {
                let mut p = base.clone();
                let idx = [1usize, 19, 3][which];
                p.0[idx] ^= 1 << bit;
                emit(s, "out-low28", &p.bytes());
            }
        }
        // output counter differing from header only above bit 27 (consistent otherwise)
        {
            let mut p = base.clone();
            let hi = (r.below(16) as u32) << 28;
            let lo = p.0[3] & 0x0FFF_FFFF;
            let out = hi | lo;
            p.0[3] = out;
            for i in [4usize, 10, 11] {
                p.0[i] = p.0[i].max(out);
            }
            // keep order out <= sd <= drift <= in
            let mut c = [p.0[11], p.0[10], p.0[4]];
            c.sort();
            p.0[11] = c[0];
            p.0[10] = c[1];
            p.0[4] = c[2];
            emit(s, "out-high-bits", &p.bytes());
        }
        // all orderings and ties of the four counters at adjacent values
        let v0 = r.boundary(u32::MAX as u64 - 4) as u32;
        let n_ord = if thorough { 256 } else { 64 };
        for k in 0..n_ord {
            let k = if thorough { k } else { r.below(256) as u32 };
            let mut p = base.clone();
            let out = v0 + (k & 3);
            p.0[3] = out;
            p.0[11] = v0 + ((k >> 2) & 3);
            p.0[10] = v0 + ((k >> 4) & 3);
            p.0[4] = v0 + ((k >> 6) & 3);
            p.0[1] = 0x8000_0000 | (out & 0x0FFF_FFFF);
            p.0[19] = 0xE000_0000 | (out & 0x0FFF_FFFF);
            emit(s, "counter-order", &p.bytes());
        }
        // every field at boundary values
        for w in 0..20 {
            for v in [0u32, 1, 0x7FFF_FFFF, 0x8000_0000, u32::MAX - 1, u32::MAX] {
                let mut p = base.clone();
                p.0[w] = v;
                emit(s, "field-boundary", &p.bytes());
            }
        }
        // single bit flips (sampled in quick, exhaustive in thorough for the first bases)
        let b = base.bytes();
        let flips: Vec<usize> = if thorough {
            (0..640).collect()
        } else {
            (0..24).map(|_| r.below(640) as usize).collect()
        };
        for f in flips {
            let mut q = b.clone();
            q[f / 8] ^= 1 << (f % 8);
            emit(s, "bit-flip", &q);
        }
        // one random byte replaced
        for _ in 0..8 {
            let mut q = b.clone();
            let i = r.below(80) as usize;
            q[i] = r.next() as u8;
            emit(s, "byte-change", &q);
        }
    }
    // lengths 0..=200: prefix/extension of a valid packet, and random bytes
    let base = valid(&mut r).bytes();
    for len in 0..=200usize {
        let mut q = base.clone();
        q.resize(len, 0);
        emit(s, "length", &q);
        emit(s, "length-random", &r.bytes(len));
    }
    // random 80-byte strings
    let n_rand = if thorough { 20000 } else { 1000 };
    for _ in 0..n_rand {
        emit(s, "random80", &r.bytes(80));
    }
}

/// implementation observation for a case line of this module (None: not one of mine)
pub fn observe_line(line: &str) -> Option<String> {
    let (tag, rest) = line.split_once(' ').unwrap_or((line, "-"));
    match tag {
        "trg" => Some(observe(&crate::util::unhex(rest))),
        _ => None,
    }
}
