// C08: channel identity -- bank-name parsers, run-number dependent wire / pad maps, wire <-> pad column
// geometry.  Case generation and implementation observations (public API of alpha_g_detector only).
//
// case lines (first token unique to this module):
//   nm <hex>                      every parser on one name
//   nmblk <prefixhex> <c1,c2,..>  every parser on prefix+c for each completion c (hex); compact observation
//   radix <r> <hex>               u8::from_str_radix(name, r), the std function the parsers use
//   run <n>                       complete wire table and pad table of run n (count of Ok entries / hash / bijective)
//   wpos <run> <boardhex> <ch>    TpcWirePosition::try_new
//   ppos <run> <boardhex> <after> <ch>   TpcPadPosition::try_new
//   wcol <w>                      geometry: phi index of wire w and the pad column whose phi interval contains it
//   colw <c>                      geometry: the wires whose phi lies in pad column c
use crate::util::*;
use alpha_g_detector::alpha16::aw_map::{TpcWirePosition, ANODE_WIRE_PITCH_PHI, TPC_ANODE_WIRES};
use alpha_g_detector::alpha16::{self, Adc16ChannelId, Adc32ChannelId, ChannelId};
use alpha_g_detector::midas::*;
use alpha_g_detector::padwing::map::{TpcPadColumn, TpcPadPosition, PAD_PITCH_PHI, TPC_PADS, TPC_PAD_COLUMNS, TPC_PAD_ROWS};
use alpha_g_detector::padwing::{self, AfterId, PadChannelId};

// ------------------------------------------------------------------------------------------------
// names
// ------------------------------------------------------------------------------------------------
fn ch16(c: Adc16ChannelId) -> u8 {
    (0..=255u8).find(|&n| Adc16ChannelId::try_from(n).map(|x| x == c).unwrap_or(false)).unwrap()
}
fn ch32(c: Adc32ChannelId) -> u8 {
    (0..=255u8).find(|&n| Adc32ChannelId::try_from(n).map(|x| x == c).unwrap_or(false)).unwrap()
}
fn a16_board(b: alpha16::BoardId) -> String {
    format!("{}:{}", hex(b.name().as_bytes()), hex(&b.mac_address()))
}
fn pwb_board(b: padwing::BoardId) -> String {
    format!("{}:{}", hex(b.name().as_bytes()), hex(&b.mac_address()))
}
fn a16_name_obs(n: Alpha16BankName) -> String {
    match n.channel_id() {
        ChannelId::A16(c) => format!("ok:1:{}:{}", a16_board(n.board_id()), ch16(c)),
        ChannelId::A32(c) => format!("ok:2:{}:{}", a16_board(n.board_id()), ch32(c)),
    }
}

fn outcome<T, E>(r: Option<Result<T, E>>, f: impl Fn(T) -> String) -> String {
    match r {
        None => "panic".to_string(),
        Some(Err(_)) => "err".to_string(),
        Some(Ok(v)) => f(v),
    }
}

const PARSERS: [&str; 10] = ["main", "a16", "adc16", "adc32", "pwb", "trg", "trb3", "mcvx", "cb", "seq2"];

fn parser_obs(p: usize, name: &str) -> String {
    let s = name.to_string();
    match p {
        0 => outcome(catch(move || MainEventBankName::try_from(&s[..])), |k| match k {
            MainEventBankName::Alpha16(n) => a16_name_obs(n),
            MainEventBankName::Padwing(n) => format!("ok:3:{}:0", pwb_board(n.board_id())),
            MainEventBankName::Trg(_) => "ok:4:-:-:0".to_string(),
            MainEventBankName::Trb3(_) => "ok:5:-:-:0".to_string(),
            MainEventBankName::McVertex(_) => "ok:6:-:-:0".to_string(),
        }),
        1 => outcome(catch(move || Alpha16BankName::try_from(&s[..])), a16_name_obs),
        2 => outcome(catch(move || Adc16BankName::try_from(&s[..])), |n| {
            format!("ok:{}:{}", a16_board(n.board_id()), ch16(n.channel_id()))
        }),
        3 => outcome(catch(move || Adc32BankName::try_from(&s[..])), |n| {
            format!("ok:{}:{}", a16_board(n.board_id()), ch32(n.channel_id()))
        }),
        4 => outcome(catch(move || PadwingBankName::try_from(&s[..])), |n| format!("ok:{}", pwb_board(n.board_id()))),
        5 => outcome(catch(move || TriggerBankName::try_from(&s[..])), |_| "ok".to_string()),
        6 => outcome(catch(move || Trb3BankName::try_from(&s[..])), |_| "ok".to_string()),
        7 => outcome(catch(move || McVertexBankName::try_from(&s[..])), |_| "ok".to_string()),
        8 => outcome(catch(move || ChronoboxBankName::try_from(&s[..])), |n| {
            format!("ok:{}", hex(n.board_id.name().as_bytes()))
        }),
        _ => outcome(catch(move || Seq2BankName::try_from(&s[..])), |_| "ok".to_string()),
    }
}

/// the parsers whose outcome on `name` is not `err`, as `parser=obs,..` (empty when every parser says err)
fn name_obs(name: &str) -> String {
    let mut out = Vec::new();
    for (i, p) in PARSERS.iter().enumerate() {
        let o = parser_obs(i, name);
        if o != "err" {
            out.push(format!("{p}={o}"));
        }
    }
    out.join(",")
}

fn obs_nm(h: &str) -> String {
    match String::from_utf8(unhex(h)) {
        Err(_) => "not-utf8".to_string(), // a &str cannot hold this; never generated
        Ok(s) => {
            let o = name_obs(&s);
            if o.is_empty() {
                "err".to_string()
            } else if o.contains("=panic") {
                format!("panic {o}")
            } else {
                format!("ok {o}")
            }
        }
    }
}

fn obs_nmblk(prefix: &str, comps: &str) -> String {
    let p = unhex(prefix);
    let mut n = 0;
    let mut out = String::new();
    for c in comps.split(',') {
        let mut b = p.clone();
        b.extend(unhex(c));
        n += 1;
        match String::from_utf8(b.clone()) {
            Err(_) => out.push_str(&format!(" {}:not-utf8", hex(&b))),
            Ok(s) => {
                let o = name_obs(&s);
                if !o.is_empty() {
                    out.push_str(&format!(" {}:{}", hex(&b), o));
                }
            }
        }
    }
    let class = if out.is_empty() {
        "err"
    } else if out.contains("=panic") {
        "panic"
    } else {
        "ok"
    };
    format!("{class} {n}{out}")
}

fn obs_radix(r: u32, h: &str) -> String {
    match String::from_utf8(unhex(h)) {
        Err(_) => "not-utf8".to_string(),
        Ok(s) => match catch(move || u8::from_str_radix(&s, r)) {
            None => "panic".to_string(),
            Some(Err(_)) => "err".to_string(),
            Some(Ok(v)) => format!("ok {v}"),
        },
    }
}

// ------------------------------------------------------------------------------------------------
// maps
// ------------------------------------------------------------------------------------------------
const HASH_P: u128 = (1u128 << 61) - 1;
fn hash_step(h: u64, v: u64) -> u64 {
    ((h as u128 * 1_000_003u128 + v as u128 + 1) % HASH_P) as u64
}

/// all two-character names over 0-9 A-Z in ascending order
fn candidate_names() -> Vec<String> {
    let al: Vec<char> = ('0'..='9').chain('A'..='Z').collect();
    let mut v = Vec::new();
    for a in &al {
        for b in &al {
            v.push(format!("{a}{b}"));
        }
    }
    v
}

struct Known {
    a16: Vec<alpha16::BoardId>,
    pwb: Vec<padwing::BoardId>,
}
fn known() -> &'static Known {
    static K: std::sync::OnceLock<Known> = std::sync::OnceLock::new();
    K.get_or_init(|| Known {
        a16: candidate_names().iter().filter_map(|n| alpha16::BoardId::try_from(&n[..]).ok()).collect(),
        pwb: candidate_names().iter().filter_map(|n| padwing::BoardId::try_from(&n[..]).ok()).collect(),
    })
}

fn after_of(a: u8) -> AfterId {
    AfterId::try_from(a).unwrap()
}

fn wire_code(run: u32, b: alpha16::BoardId, ch: u8) -> u64 {
    let c = Adc32ChannelId::try_from(ch).unwrap();
    match catch(move || TpcWirePosition::try_new(run, b, c)) {
        None => TPC_ANODE_WIRES as u64 + 1,
        Some(Err(_)) => TPC_ANODE_WIRES as u64,
        Some(Ok(w)) => usize::from(w) as u64,
    }
}
fn pad_code(run: u32, b: padwing::BoardId, a: u8, ch: u16) -> u64 {
    let (af, pc) = (after_of(a), PadChannelId::try_from(ch).unwrap());
    match catch(move || TpcPadPosition::try_new(run, b, af, pc)) {
        None => TPC_PADS as u64 + 1,
        Some(Err(_)) => TPC_PADS as u64,
        Some(Ok(p)) => (usize::from(p.column) * TPC_PAD_ROWS + usize::from(p.row)) as u64,
    }
}

/// (number of Ok entries, hash, Ok entries are each of 0..n exactly once)
fn table_obs(n: u64, tbl: &[u64]) -> String {
    let mut h = 0u64;
    let mut seen = vec![0u32; n as usize];
    let mut nok = 0u64;
    for &v in tbl {
        h = hash_step(h, v);
        if v < n {
            nok += 1;
            seen[v as usize] += 1;
        }
    }
    let bij = nok == n && seen.iter().all(|&c| c == 1);
    format!("{nok}/{h}/{}", bij as u8)
}

fn obs_run(run: u32) -> String {
    let k = known();
    let mut wt = Vec::with_capacity(k.a16.len() * 32);
    for &b in &k.a16 {
        for ch in 0..32u8 {
            wt.push(wire_code(run, b, ch));
        }
    }
    let mut pt = Vec::with_capacity(k.pwb.len() * 288);
    for &b in &k.pwb {
        for a in 0..4u8 {
            for ch in 1..=72u16 {
                pt.push(pad_code(run, b, a, ch));
            }
        }
    }
    let (w, p) = (table_obs(TPC_ANODE_WIRES as u64, &wt), table_obs(TPC_PADS as u64, &pt));
    let class = if w.starts_with("0/") && p.starts_with("0/") { "err" } else { "ok" };
    format!("{class} w={w} p={p}")
}

fn obs_wpos(run: u32, bh: &str, ch: u8) -> String {
    let name = String::from_utf8(unhex(bh)).unwrap_or_default();
    let (Ok(b), Ok(c)) = (alpha16::BoardId::try_from(&name[..]), Adc32ChannelId::try_from(ch)) else {
        return "noboard".to_string();
    };
    match catch(move || TpcWirePosition::try_new(run, b, c)) {
        None => "panic".to_string(),
        Some(Err(_)) => "err".to_string(),
        Some(Ok(w)) => format!("ok {}", usize::from(w)),
    }
}
fn obs_ppos(run: u32, bh: &str, a: u8, ch: u16) -> String {
    let name = String::from_utf8(unhex(bh)).unwrap_or_default();
    let (Ok(b), Ok(af), Ok(pc)) = (padwing::BoardId::try_from(&name[..]), AfterId::try_from(a), PadChannelId::try_from(ch))
    else {
        return "noboard".to_string();
    };
    match catch(move || TpcPadPosition::try_new(run, b, af, pc)) {
        None => "panic".to_string(),
        Some(Err(_)) => "err".to_string(),
        Some(Ok(p)) => format!("ok {} {}", usize::from(p.column), usize::from(p.row)),
    }
}

// geometry through the public phi() accessors
fn wire_phi(w: usize) -> Option<f64> {
    TpcWirePosition::try_from(w).ok().map(|p| p.phi())
}
fn column_of_phi(phi: f64) -> Option<usize> {
    let mut found = None;
    for c in 0..TPC_PAD_COLUMNS {
        let centre = TpcPadColumn::try_from(c).unwrap().phi();
        if centre - 0.5 * PAD_PITCH_PHI <= phi && phi < centre + 0.5 * PAD_PITCH_PHI {
            if found.is_some() {
                return None; // two columns claim it
            }
            found = Some(c);
        }
    }
    found
}
fn obs_wcol(w: usize) -> String {
    match wire_phi(w) {
        None => "nowire".to_string(),
        Some(phi) => {
            let s = (phi / ANODE_WIRE_PITCH_PHI - 0.5).round() as i64;
            match column_of_phi(phi) {
                Some(c) => format!("ok {s} {c}"),
                None => format!("ok {s} none"),
            }
        }
    }
}
fn obs_colw(c: usize) -> String {
    let mut v = Vec::new();
    for w in 0..TPC_ANODE_WIRES {
        if column_of_phi(wire_phi(w).unwrap()) == Some(c) {
            v.push(w.to_string());
        }
    }
    v.sort_by_key(|s| s.parse::<usize>().unwrap());
    if v.is_empty() {
        "ok -".to_string()
    } else {
        format!("ok {}", v.join(" "))
    }
}

/// the complete (AFTER chip, pad channel) -> (column, row) table of one PWB as the implementation has it for a run
/// (used by the translator when it cannot interpret the source of that table; not part of the differential)
fn obs_invpads(run: u32) -> String {
    use alpha_g_detector::padwing::map::{PwbPadColumn, PwbPadPosition, PwbPadRow};
    use alpha_g_detector::padwing::{AfterId, PadChannelId};
    let mut out = Vec::new();
    for (a, after) in [AfterId::A, AfterId::B, AfterId::C, AfterId::D].into_iter().enumerate() {
        for ch in 1..=72u16 {
            let Ok(chan) = PadChannelId::try_from(ch) else { return "err".to_string() };
            match catch(move || PwbPadPosition::try_new(run, after, chan)) {
                Some(Ok(p)) => {
                    // the column / row types convert from an index only: find the index
                    let col = (0..64usize).find(|&i| PwbPadColumn::try_from(i).ok() == Some(p.column()));
                    let row = (0..1024usize).find(|&i| PwbPadRow::try_from(i).ok() == Some(p.row()));
                    match (col, row) {
                        (Some(c), Some(r)) => out.push(format!("{a}.{ch}.{c}.{r}")),
                        _ => return "err".to_string(),
                    }
                }
                Some(Err(_)) => return "err".to_string(),
                None => return "panic".to_string(),
            }
        }
    }
    format!("ok {}", out.join(" "))
}

pub fn observe_line(line: &str) -> Option<String> {
    let t: Vec<&str> = line.split(' ').collect();
    let num = |s: &str| s.parse::<u64>().ok();
    Some(match (t[0], t.len()) {
        ("nm", 2) => obs_nm(t[1]),
        ("nmblk", 3) => obs_nmblk(t[1], t[2]),
        ("radix", 3) => obs_radix(num(t[1])? as u32, t[2]),
        ("run", 2) => obs_run(num(t[1])? as u32),
        ("invpads", 2) => obs_invpads(num(t[1])? as u32),
        ("runscan", 2) => {
            // (translator) the runs in 1..=upto at which the maps' fingerprint differs from the previous run's
            let mut out = Vec::new();
            let mut last = run_fingerprint(0);
            for run in 1..=(num(t[1])? as u32) {
                let f = run_fingerprint(run);
                if f != last {
                    out.push(run.to_string());
                    last = f;
                }
            }
            format!("boundaries {}", out.join(" "))
        }
        ("wpos", 4) => obs_wpos(num(t[1])? as u32, t[2], num(t[3])? as u8),
        ("ppos", 5) => obs_ppos(num(t[1])? as u32, t[2], num(t[3])? as u8, num(t[4])? as u16),
        ("wcol", 2) => obs_wcol(num(t[1])? as usize),
        ("colw", 2) => obs_colw(num(t[1])? as usize),
        _ => return None,
    })
}

// ------------------------------------------------------------------------------------------------
// generators
// ------------------------------------------------------------------------------------------------
/// digits, letters incl. F G V W Z and lower case, '+', '-', '_', space, NUL, two multi-byte characters
fn alphabet() -> Vec<Vec<u8>> {
    let mut v: Vec<Vec<u8>> = Vec::new();
    for c in "0123456789ABCDEFGHMPQRSTUVWXYZabcfgpvxz+-_ \0".chars() {
        v.push(c.to_string().into_bytes());
    }
    v.push("é".as_bytes().to_vec()); // 2 bytes
    v.push("€".as_bytes().to_vec()); // 3 bytes
    v
}

fn put(s: &mut Sink, case: String, label: &str, nontrivial: bool) {
    let o = observe_line(&case).unwrap();
    s.put(&case, &o, label, nontrivial);
}

fn put_block(s: &mut Sink, prefix: &[u8], comps: &[Vec<u8>], label: &str) {
    if comps.is_empty() {
        return;
    }
    let c: Vec<String> = comps.iter().map(|x| hex(x)).collect();
    let case = format!("nmblk {} {}", hex(prefix), c.join(","));
    let o = observe_line(&case).unwrap();
    let nt = !o.starts_with("err");
    s.put(&case, &o, label, nt);
}

/// all symbol sequences of total byte length exactly `want`, as (prefix, completions) blocks
fn blocks(al: &[Vec<u8>], want: usize, prefix: &mut Vec<u8>, f: &mut dyn FnMut(&[u8], &[Vec<u8>])) {
    let left = want - prefix.len();
    let comps: Vec<Vec<u8>> = al.iter().filter(|x| x.len() == left).cloned().collect();
    if !comps.is_empty() {
        f(prefix, &comps);
    }
    for x in al {
        if x.len() < left {
            let n = prefix.len();
            prefix.extend_from_slice(x);
            blocks(al, want, prefix, f);
            prefix.truncate(n);
        }
    }
}

fn documented_like(r: &mut Rng) -> Vec<u8> {
    let k = known();
    let digits = b"0123456789ABCDEFGHIJKLMNOPQRSTUVWXYZ";
    match r.below(8) {
        0 | 1 => {
            let b = r.pick(&k.a16);
            let mut v = vec![if r.chance(1, 2) { b'B' } else { b'C' }];
            v.extend(b.name().as_bytes());
            v.push(digits[r.below(36) as usize]);
            v
        }
        2 | 3 => {
            let b = r.pick(&k.pwb);
            let mut v = b"PC".to_vec();
            v.extend(b.name().as_bytes());
            v
        }
        4 => {
            let mut v = b"PC".to_vec();
            v.push(b'0' + r.below(10) as u8);
            v.push(b'0' + r.below(10) as u8);
            v
        }
        5 => r.pick(&[&b"ATAT"[..], b"TRBA", b"MCVX", b"SEQ2", b"CBF1", b"CBF2", b"CBF3", b"CBF4", b"CBF0", b"CBF5"]).to_vec(),
        _ => {
            let mut v = vec![r.pick(b"BC")];
            v.push(digits[r.below(36) as usize]);
            v.push(digits[r.below(36) as usize]);
            v.push(digits[r.below(36) as usize]);
            v
        }
    }
}

fn utf8_ok(b: &[u8]) -> bool {
    std::str::from_utf8(b).is_ok()
}

/// every documented name, built from the boards the public API accepts
fn documented() -> Vec<Vec<u8>> {
    let k = known();
    let digits = b"0123456789ABCDEFGHIJKLMNOPQRSTUV";
    let mut v: Vec<Vec<u8>> = Vec::new();
    for b in &k.a16 {
        for (letter, n) in [(b'B', 16usize), (b'C', 32)] {
            for d in &digits[..n] {
                let mut x = vec![letter];
                x.extend(b.name().as_bytes());
                x.push(*d);
                v.push(x);
            }
        }
    }
    for b in &k.pwb {
        let mut x = b"PC".to_vec();
        x.extend(b.name().as_bytes());
        v.push(x);
    }
    for n in ["ATAT", "TRBA", "MCVX", "SEQ2", "CBF1", "CBF2", "CBF3", "CBF4"] {
        v.push(n.as_bytes().to_vec());
    }
    v
}

/// integer literals of the map sources (comments included -- over-approximation is harmless): candidates for arm boundaries
fn mined_literals() -> Vec<u64> {
    let repo = std::env::var("VERIF_REPO").unwrap_or_else(|_| "/repo".to_string());
    let mut out = Vec::new();
    for f in ["detector/src/alpha16/aw_map.rs", "detector/src/padwing/map.rs"] {
        let Ok(src) = std::fs::read_to_string(format!("{repo}/{f}")) else { continue };
        let b = src.as_bytes();
        let mut i = 0;
        while i < b.len() {
            let prev_ident = i > 0 && (b[i - 1].is_ascii_alphanumeric() || b[i - 1] == b'_');
            if b[i].is_ascii_digit() && !prev_ident {
                let mut v: u64 = 0;
                let mut ok = true;
                while i < b.len() && (b[i].is_ascii_digit() || b[i] == b'_') {
                    if b[i] != b'_' {
                        v = v.saturating_mul(10).saturating_add((b[i] - b'0') as u64);
                        if v > u32::MAX as u64 {
                            ok = false;
                        }
                    }
                    i += 1;
                }
                while i < b.len() && (b[i].is_ascii_alphanumeric() || b[i] == b'_') {
                    i += 1;
                }
                if ok {
                    out.push(v);
                }
            } else {
                i += 1;
            }
        }
    }
    out.sort();
    out.dedup();
    out
}

/// cheap fingerprint of a run's maps: the complete wire table and one pad of every board
fn run_fingerprint(run: u32) -> u64 {
    let k = known();
    let mut h = 0u64;
    for &b in &k.a16 {
        for ch in 0..32u8 {
            h = hash_step(h, wire_code(run, b, ch));
        }
    }
    for &b in &k.pwb {
        h = hash_step(h, pad_code(run, b, 0, 1));
    }
    h
}

pub fn run(tier: &str, seed: u64, s: &mut Sink) {
    let thorough = tier == "thorough";
    let mut r = Rng::new(seed ^ 0xC08);
    let al = alphabet();
    let k = known();

    // ---- names: every documented-looking name and its one-symbol perturbations
    let n_doc = if thorough { 3000 } else { 600 };
    for _ in 0..n_doc {
        let base = documented_like(&mut r);
        put(s, format!("nm {}", hex(&base)), "name:documented-like", true);
        // one systematic perturbation
        let mut v = base.clone();
        match r.below(6) {
            0 => {
                let i = r.below(v.len() as u64) as usize;
                let sym = r.pick(&al.iter().map(|x| x.as_slice()).collect::<Vec<_>>());
                v.splice(i..i + 1, sym.iter().copied());
            }
            1 => {
                let i = r.below(v.len() as u64) as usize;
                v[i] = v[i].to_ascii_lowercase();
            }
            2 => {
                v.pop();
            }
            3 => v.push(r.pick(b"0A1 +")),
            4 => {
                let i = r.below(v.len() as u64 + 1) as usize;
                v.insert(i, r.pick(b"0A+- "));
            }
            _ => {
                let i = r.below(v.len() as u64) as usize;
                v[i] = v[i].wrapping_add(if r.chance(1, 2) { 1 } else { 255 }) & 0x7f;
            }
        }
        if utf8_ok(&v) {
            put(s, format!("nm {}", hex(&v)), "name:perturbed", true);
        }
    }
    // every board x every digit character 0-9 A-Z a-z for B and C (the base-16 / base-32 boundary G, W)
    for b in &k.a16 {
        for letter in [b'B', b'C', b'A', b'b'] {
            let mut p = vec![letter];
            p.extend(b.name().as_bytes());
            let comps: Vec<Vec<u8>> =
                (b'0'..=b'9').chain(b'A'..=b'Z').chain(b'a'..=b'z').chain([b'+', b'-', b'/', b':', b'@', b'[', b'`', b'{']).map(|c| vec![c]).collect();
            put_block(s, &p, &comps, "name:adc-all-digits");
        }
    }
    // PC + every two-digit number and near misses
    for a in (b'/'..=b':').chain([b'A', b'a', b' ', b'+']) {
        let p = vec![b'P', b'C', a];
        let comps: Vec<Vec<u8>> = (b'/'..=b':').chain([b'A', b'a', b' ', b'+']).map(|c| vec![c]).collect();
        put_block(s, &p, &comps, "name:pwb-all-numbers");
    }
    put_block(s, b"PC", &["é".as_bytes().to_vec(), "ß".as_bytes().to_vec(), "\u{7ff}".as_bytes().to_vec()], "name:pwb-multibyte");
    put_block(s, b"B", &["€".as_bytes().to_vec(), "\u{800}".as_bytes().to_vec()], "name:adc-multibyte");
    put_block(s, b"C0", &["é".as_bytes().to_vec()], "name:adc-multibyte");
    put_block(s, b"", &["\u{10000}".as_bytes().to_vec(), "😀".as_bytes().to_vec()], "name:4-byte-char");

    // ---- all 4-byte names over the alphabet: exhaustive (thorough) / sampled blocks (quick)
    {
        let mut all: Vec<(Vec<u8>, Vec<Vec<u8>>)> = Vec::new();
        blocks(&al, 4, &mut Vec::new(), &mut |p, c| all.push((p.to_vec(), c.to_vec())));
        if thorough {
            for (p, c) in &all {
                put_block(s, p, c, "name:4-byte-exhaustive");
            }
        } else {
            for _ in 0..400 {
                let (p, c) = &all[r.below(all.len() as u64) as usize];
                put_block(s, p, c, "name:4-byte-sampled-block");
            }
        }
    }
    // ---- other lengths 0..=8
    let n_len = if thorough { 20000 } else { 2500 };
    for i in 0..n_len {
        let len = (i % 9) as usize;
        let mut v = Vec::new();
        if r.chance(1, 2) {
            v = documented_like(&mut r);
            v.truncate(len);
        }
        while v.len() < len {
            let sym = &al[r.below(al.len() as u64) as usize];
            if v.len() + sym.len() <= len {
                v.extend_from_slice(sym);
            } else {
                v.push(r.pick(b"0A"));
            }
        }
        if utf8_ok(&v) {
            put(s, format!("nm {}", hex(&v)), &format!("name:length-{}", v.len()), v.len() == 4);
        }
    }
    // ---- from_str_radix
    for radix in [16u32, 32, 10, 36, 2] {
        for c in 0..128u8 {
            put(s, format!("radix {radix} {}", hex(&[c])), "radix:one-char", true);
        }
        let n = if thorough { 2000 } else { 150 };
        for _ in 0..n {
            let len = r.below(5) as usize;
            let mut v = Vec::new();
            for _ in 0..len {
                v.push(r.pick(b"0129AFfGVvWZz+-7 "));
            }
            put(s, format!("radix {radix} {}", hex(&v)), "radix:short-string", !v.is_empty());
        }
    }

    // ---- every documented name and its one-character neighbours at every position
    for base in documented() {
        put(s, format!("nm {}", hex(&base)), "name:documented", true);
        for i in 0..base.len() {
            let c = base[i];
            let mut alts: Vec<u8> = vec![c.wrapping_sub(1), c.wrapping_add(1)];
            if c.is_ascii_alphabetic() {
                alts.push(c ^ 0x20); // case flipped
            }
            // (the digit position of B/C names is swept over every character by the adc-all-digits blocks)
            for a in alts {
                if a < 0x80 && a != c {
                    let mut v = base.clone();
                    v[i] = a;
                    put(s, format!("nm {}", hex(&v)), "name:one-char-neighbour", true);
                }
            }
        }
    }

    // ---- run numbers: every arm boundary (mined from the source text and found by scanning) +-2, a stride,
    //      the simulation run and its neighbours, powers of two, random u32
    let mut runs: Vec<u32> = Vec::new();
    let around = |runs: &mut Vec<u32>, b: u64| {
        for d in -2i64..=2 {
            let x = b as i64 + d;
            if x >= 0 && x <= u32::MAX as i64 {
                runs.push(x as u32);
            }
        }
    };
    let mined = mined_literals();
    for &l in &mined {
        if thorough || l >= 100 {
            around(&mut runs, l);
        }
    }
    // scan 0..=20000 with a cheap fingerprint (complete wire table + one pad per board): a change is an arm boundary
    let mut last = run_fingerprint(0);
    for run in 1..=20000u32 {
        let f = run_fingerprint(run);
        if f != last {
            around(&mut runs, run as u64);
            last = f;
        }
    }
    if thorough {
        runs.extend(0..=20000u32);
    } else {
        for b in [0u64, 2724, 2941, 4418, 5000, 10418, 20000] {
            around(&mut runs, b);
        }
        runs.extend((0..=20000u32).step_by(997));
    }
    runs.extend([u32::MAX, u32::MAX - 1, u32::MAX - 2, 1 << 31, (1 << 31) - 1, 65535, 65536]);
    for _ in 0..(if thorough { 300 } else { 20 }) {
        runs.push(r.next() as u32);
    }
    runs.sort();
    runs.dedup();
    let mut classes: Vec<(String, u32)> = Vec::new(); // first run of each distinct complete table
    for &run in &runs {
        let case = format!("run {run}");
        let o = observe_line(&case).unwrap();
        if !classes.iter().any(|(c, _)| *c == o) {
            classes.push((o.clone(), run));
        }
        s.put(&case, &o, "run:tables", o.starts_with("ok"));
    }
    // for one run of every distinct table: every board x every channel (wires), every board x chip x 4 channels (pads),
    // installed or not
    for (o, run) in &classes {
        if !o.starts_with("ok") {
            continue;
        }
        for b in &k.a16 {
            for ch in 0..32 {
                put(s, format!("wpos {run} {} {ch}", hex(b.name().as_bytes())), "map:wire-all-rows", true);
            }
        }
        for b in &k.pwb {
            for a in 0..4 {
                for ch in [1, 36, 37, 72] {
                    put(s, format!("ppos {run} {} {a} {ch}", hex(b.name().as_bytes())), "map:pad-all-boards", true);
                }
            }
        }
        let b = k.pwb[r.below(k.pwb.len() as u64) as usize];
        for a in 0..4 {
            for ch in 1..=72 {
                put(s, format!("ppos {run} {} {a} {ch}", hex(b.name().as_bytes())), "map:pad-all-channels", true);
            }
        }
    }
    // individual lookups
    let n_pos = if thorough { 20000 } else { 1500 };
    let cands = candidate_names();
    for _ in 0..n_pos {
        let run = match r.below(4) {
            0 => r.pick(&runs),
            1 => r.pick(&[2723u32, 2724, 2940, 2941, 4417, 4418, 10417, 10418, u32::MAX]),
            2 => r.below(20001) as u32,
            _ => r.next() as u32,
        };
        if r.chance(1, 2) {
            let name = if r.chance(4, 5) { r.pick(&k.a16).name().to_string() } else { cands[r.below(cands.len() as u64) as usize].clone() };
            let ch = if r.chance(9, 10) { r.below(32) } else { r.pick(&[32u64, 33, 255]) };
            put(s, format!("wpos {run} {} {ch}", hex(name.as_bytes())), "map:wire-lookup", run >= 2941);
        } else {
            let name = if r.chance(4, 5) { r.pick(&k.pwb).name().to_string() } else { cands[r.below(cands.len() as u64) as usize].clone() };
            let a = if r.chance(9, 10) { r.below(4) } else { r.pick(&[4u64, 255]) };
            let ch = if r.chance(9, 10) { r.range(1, 72) } else { r.pick(&[0u64, 73, 79, 65535]) };
            put(s, format!("ppos {run} {} {a} {ch}", hex(name.as_bytes())), "map:pad-lookup", run >= 4418);
        }
    }
    // ---- geometry: all wires, all columns (+ out of range)
    for w in 0..(TPC_ANODE_WIRES + 2) {
        put(s, format!("wcol {w}"), "geometry:wire-column", w < TPC_ANODE_WIRES);
    }
    for c in 0..TPC_PAD_COLUMNS {
        put(s, format!("colw {c}"), "geometry:column-wires", c < TPC_PAD_COLUMNS);
    }
}
