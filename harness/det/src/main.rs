mod c02;
mod c06;
mod c07;
mod util;

use std::io::BufRead;

/// implementation observation for one case line (same format the model runner prints)
fn observe_line(line: &str) -> String {
    let mut it = line.split(' ');
    match it.next() {
        Some("trg") => c06::observe(&util::unhex(it.next().unwrap_or("-"))),
        Some("adc") => c02::observe(&util::unhex(it.next().unwrap_or("-"))),
        Some("cb") => c07::observe_whole(&util::unhex(it.next().unwrap_or("-"))),
        Some("cbfeed") => {
            let pieces: Vec<Vec<u8>> = it.next().unwrap_or("-").split(',').map(util::unhex).collect();
            c07::observe_feed(&pieces)
        }
        _ => "unknown-case".to_string(),
    }
}

fn main() {
    let args: Vec<String> = std::env::args().collect();
    util::quiet_panics();
    match args.get(1).map(|s| s.as_str()) {
        Some("gen") if args.len() >= 6 => {
            let (prop, tier, seed, out) = (&args[2], &args[3], args[4].parse::<u64>().unwrap(), &args[5]);
            let mut sink = util::Sink::new(out);
            match prop.as_str() {
                "C02" => c02::run(tier, seed, &mut sink),
                "C06" => c06::run(tier, seed, &mut sink),
                "C07" => c07::run(tier, seed, &mut sink),
                _ => {
                    eprintln!("unknown property {prop}");
                    std::process::exit(2);
                }
            }
            sink.finish();
        }
        Some("obs") => {
            let stdin = std::io::stdin();
            for line in stdin.lock().lines() {
                println!("{}", observe_line(&line.unwrap()));
            }
        }
        _ => {
            eprintln!("usage: vdet gen <property> <tier> <seed> <outdir> | vdet obs < cases");
            std::process::exit(2);
        }
    }
}
