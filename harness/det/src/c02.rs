// C02 (and part of C01): ADC v3 packets — decision-table generator and implementation observations.
use crate::util::*;
use alpha_g_detector::alpha16::{AdcV3Packet, ChannelId};

pub const MACS: [[u8; 6]; 8] = [
    [216, 128, 57, 104, 55, 76],
    [216, 128, 57, 104, 170, 37],
    [216, 128, 57, 104, 172, 127],
    [216, 128, 57, 104, 79, 167],
    [216, 128, 57, 104, 202, 166],
    [216, 128, 57, 104, 142, 130],
    [216, 128, 57, 104, 111, 162],
    [216, 128, 57, 104, 142, 82],
];

pub fn observe(bytes: &[u8]) -> String {
    let b = bytes.to_vec();
    match catch(move || AdcV3Packet::try_from(&b[..])) {
        None => "panic".to_string(),
        Some(Err(_)) => "err".to_string(),
        Some(Ok(p)) => {
            let (kind, ch) = match p.channel_id() {
                ChannelId::A16(c) => (16, format!("{c:?}")),
                ChannelId::A32(c) => (32, format!("{c:?}")),
            };
            // Debug of the newtype is e.g. Adc16ChannelId(5)
            let ch: String = ch.chars().filter(|c| c.is_ascii_digit()).collect();
            // strip the "16"/"32" of the type name
            let ch = &ch[2..];
            let module: String = format!("{:?}", p.module_id())
                .chars()
                .filter(|c| c.is_ascii_digit())
                .collect();
            let board = match p.board_id() {
                None => "-".to_string(),
                Some(b) => hex(&b.mac_address()),
            };
            let off = p.trigger_offset().map_or("-".to_string(), |v| v.to_string());
            let build = p.build_timestamp().map_or("-".to_string(), |v| v.to_string());
            let wave: Vec<String> = p.waveform().iter().map(|s| s.to_string()).collect();
            format!(
                "ok {} {} {} {} {} {} {} {} {} {} {} {} {} [{}]",
                p.accepted_trigger(),
                module,
                kind,
                ch,
                p.requested_samples(),
                p.event_timestamp(),
                board,
                off,
                build,
                p.suppression_baseline(),
                p.keep_last(),
                p.keep_bit() as u8,
                p.is_suppression_enabled() as u8,
                wave.join(",")
            )
        }
    }
}

#[derive(Clone)]
pub struct Adc {
    pub ty: u8,
    pub ver: u8,
    pub trig: u16,
    pub module: u8,
    pub ch: u8,
    pub req: u16,
    pub lsw: u32,
    pub zero: [u8; 2],
    pub mac: [u8; 6],
    pub msw: u32,
    pub off: i32,
    pub build: u32,
    pub samples: Vec<i16>,
    pub keep_last: u16,
    pub keep_bit: bool,
    pub supp: bool,
    pub unused: u16,
    pub baseline: Option<i16>, // None = computed correctly
}
impl Adc {
    pub fn correct_baseline(&self) -> i16 {
        if self.samples.len() < 64 {
            return 0;
        }
        let sum: i32 = self.samples[..64].iter().map(|&x| x as i32).sum();
        sum.div_euclid(64) as i16
    }
    pub fn footer(&self) -> u16 {
        (self.keep_last & 0xFFF) | ((self.keep_bit as u16) << 12) | ((self.supp as u16) << 13) | (self.unused << 14)
    }
    pub fn long(&self) -> Vec<u8> {
        let mut b = vec![self.ty, self.ver];
        b.extend(self.trig.to_be_bytes());
        b.push(self.module);
        b.push(self.ch);
        b.extend(self.req.to_be_bytes());
        b.extend(self.lsw.to_be_bytes());
        b.extend(self.zero);
        b.extend(self.mac);
        b.extend(self.msw.to_be_bytes());
        b.extend(self.off.to_be_bytes());
        b.extend(self.build.to_be_bytes());
        for s in &self.samples {
            b.extend(s.to_be_bytes());
        }
        b.extend(self.footer().to_be_bytes());
        b.extend(self.baseline.unwrap_or(self.correct_baseline()).to_be_bytes());
        b
    }
    pub fn short(&self) -> Vec<u8> {
        let mut b = vec![self.ty, self.ver];
        b.extend(self.trig.to_be_bytes());
        b.push(self.module);
        b.push(self.ch);
        b.extend(self.req.to_be_bytes());
        b.extend(self.lsw.to_be_bytes());
        b.extend(self.footer().to_be_bytes());
        b.extend(self.baseline.unwrap_or(0).to_be_bytes());
        b
    }
}

pub fn samples(r: &mut Rng, n: usize) -> Vec<i16> {
    let style = r.below(7);
    let base = r.range(0, 6000) as i16 - 3000;
    (0..n)
        .map(|i| match style {
            0 => i16::MIN,
            1 => i16::MAX,
            2 => {
                if r.chance(1, 2) {
                    i16::MIN
                } else {
                    i16::MAX
                }
            }
            3 => -1 - (i as i16 % 3), // negative sums not divisible by 64
            4 => r.next() as i16,
            _ => base + (r.below(200) as i16) - 100,
        })
        .collect()
}

/// a well-formed long packet
pub fn valid(r: &mut Rng) -> Adc {
    let n = match r.below(6) {
        0 => 64,
        1 => 65,
        2 => 699,
        _ => r.range(64, 720) as usize,
    };
    let supp = r.chance(1, 2);
    let keep_bit = supp || r.chance(1, 2);
    // last_index = (keep_last - 1) * 2 - 2 must be < n and keep_last >= 34
    let max_kl = ((n - 1 + 2) / 2 + 1).min(4095) as u64;
    let keep_last = if keep_bit { r.range(34, max_kl.max(34)) as u16 } else { 0 };
    let req = if supp { (n as u64 + 2 + if r.chance(1, 2) { 0 } else { r.below(300) }) as u16 } else { n as u16 + 2 };
    Adc {
        ty: 1,
        ver: 3,
        trig: r.boundary(0xFFFF) as u16,
        module: r.below(8) as u8,
        ch: if r.chance(1, 3) { r.below(16) as u8 } else { 128 + r.below(32) as u8 },
        req,
        lsw: r.boundary(u32::MAX as u64) as u32,
        zero: [0, 0],
        mac: MACS[r.below(8) as usize],
        msw: r.boundary(u32::MAX as u64) as u32,
        off: r.boundary(u32::MAX as u64) as u32 as i32,
        build: r.boundary(u32::MAX as u64) as u32,
        samples: samples(r, n),
        keep_last,
        keep_bit,
        supp,
        unused: r.below(4) as u16,
        baseline: None,
    }
}

fn emit(s: &mut Sink, label: &str, bytes: &[u8]) {
    let o = observe(bytes);
    let nontrivial = bytes.len() >= 16 && bytes[0] == 1 && bytes[1] == 3;
    s.put(&format!("adc {}", hex(bytes)), &o, label, nontrivial);
}

pub fn run(tier: &str, seed: u64, s: &mut Sink) {
    let mut r = Rng::new(seed ^ 0xC02);
    let thorough = tier == "thorough";
    // corpus: finding F1 witnesses (requested_samples 0/1 on a long packet) -- must be rejected, never panic
    for req in [0u16, 1, 2] {
        let mut p = valid(&mut r);
        p.samples = samples(&mut r, 70);
        p.supp = true;
        p.keep_bit = true;
        p.keep_last = 34;
        p.req = req;
        emit(s, "F1-requested-samples", &p.long());
        p.supp = false;
        emit(s, "F1-requested-samples", &p.long());
        p.samples.truncate(63);
        emit(s, "F1-requested-samples", &p.long());
    }
    // --- decision table
    let n_fill = if thorough { 12 } else { 2 };
    for &n in &[63usize, 64, 65, 66, 100, 130] {
        for supp in [false, true] {
            for keep_bit in [false, true] {
                // keep_last around 0/33/34/max and around the last_index boundary
                let kl_edge = ((n + 2) / 2 + 1) as u16; // smallest keep_last with last_index >= n - ...
                let mut kls = vec![0u16, 1, 33, 34, 35, 4095, kl_edge.saturating_sub(1), kl_edge, kl_edge + 1];
                kls.dedup();
                for &kl in &kls {
                    for req_off in [-(n as i64), 1 - n as i64, 2 - n as i64, 1, 2, 3, 100] {
                        // req in {0, 1, 2, n+1, n+2, n+3, n+100}
                        let req = (n as i64 + req_off).clamp(0, 65535) as u16;
                        for _ in 0..n_fill {
                            let mut p = valid(&mut r);
                            p.samples = samples(&mut r, n);
                            p.supp = supp;
                            p.keep_bit = keep_bit;
                            p.keep_last = kl;
                            p.req = req;
                            emit(s, "decision-table", &p.long());
                        }
                    }
                }
            }
        }
    }
    // --- large packets: every bit of the 12-bit keep_last field set on an accepted packet (keep_last = 2^k needs
    // (2^k - 1) * 2 - 2 < n samples), the largest sample counts a u16 requested_samples admits, and the
    // keep_last / sample-count boundary at those sizes
    for k in 6..12u32 {
        for d in [-1i64, 0, 1] {
            let kl = ((1i64 << k) + d) as u16;
            let last_index = (kl as usize - 1) * 2 - 2;
            for extra in [0usize, 1, 70] {
                for supp in [false, true] {
                    let mut p = valid(&mut r);
                    p.samples = samples(&mut r, last_index + extra);
                    p.keep_bit = true;
                    p.keep_last = kl;
                    p.supp = supp;
                    p.req = (p.samples.len() + 2 + if supp { r.pick(&[0usize, 1, 5]) } else { 0 }) as u16;
                    emit(s, "large-keep-last", &p.long());
                }
            }
        }
    }
    for n in [8190usize, 32766, 65532, 65533] {
        for (supp, kl) in [(false, 0u16), (true, 4095), (true, 34)] {
            let mut p = valid(&mut r);
            p.samples = samples(&mut r, n);
            p.keep_bit = supp;
            p.keep_last = kl;
            p.supp = supp;
            p.req = (n + 2).min(65535) as u16;
            emit(s, "large-sample-count", &p.long());
            p.req = (n + 1).min(65535) as u16;
            emit(s, "large-sample-count", &p.long());
        }
    }
    for kl in [2047u16, 2048, 2049] {
        let mut p = valid(&mut r);
        p.supp = true;
        p.keep_bit = false;
        p.keep_last = kl;
        emit(s, "short-form", &p.short());
    }
    // --- short form: all footer flag combinations, keep_last 0/1, unused bits, lengths around 16
    for supp in [false, true] {
        for keep_bit in [false, true] {
            for kl in [0u16, 1, 34, 4095] {
                for unused in 0..4u16 {
                    let mut p = valid(&mut r);
                    p.supp = supp;
                    p.keep_bit = keep_bit;
                    p.keep_last = kl;
                    p.unused = unused;
                    p.baseline = Some(r.next() as i16);
                    p.req = r.pick(&[0u16, 1, 2, 511, 65535]);
                    emit(s, "short-form", &p.short());
                }
            }
        }
    }
    let n_base = if thorough { 600 } else { 60 };
    for _ in 0..n_base {
        let base = valid(&mut r);
        emit(s, "valid", &base.long());
        // one field changed
        for k in 0..22 {
            let mut p = base.clone();
            match k {
                0 => p.ty = r.pick(&[0u8, 2, 255]),
                1 => p.ver = r.pick(&[0u8, 2, 4, 255]),
                2 => p.module = r.pick(&[7u8, 8, 255]),
                3 => p.ch = r.pick(&[15u8, 16, 127, 128, 159, 160, 255]),
                4 => p.zero = [r.below(2) as u8, 1],
                5 => p.mac[5] ^= 1,
                6 => p.mac = [0; 6],
                7 => p.baseline = Some(p.correct_baseline().wrapping_add(1)),
                8 => p.baseline = Some(p.correct_baseline().wrapping_sub(1)),
                9 => {
                    // truncating instead of flooring baseline
                    let sum: i32 = p.samples[..64].iter().map(|&x| x as i32).sum();
                    p.baseline = Some((sum / 64) as i16);
                }
                10 => p.keep_bit = !p.keep_bit,
                11 => p.supp = !p.supp,
                12 => p.keep_last = p.keep_last.wrapping_add(1) & 0xFFF,
                13 => p.keep_last = p.keep_last.wrapping_sub(1) & 0xFFF,
                14 => p.req = p.req.wrapping_add(1),
                15 => p.req = p.req.wrapping_sub(1),
                16 => p.req = r.pick(&[0u16, 1, 2, 65535]),
                17 => {
                    p.samples.pop();
                }
                18 => p.samples.push(0),
                19 => p.unused = (p.unused + 1) & 3,
                20 => p.samples.truncate(r.pick(&[0usize, 1, 63])),
                _ => {
                    let i = r.below(64) as usize;
                    p.samples[i] = p.samples[i].wrapping_add(64);
                }
            }
            emit(s, "one-field-changed", &p.long());
        }
        // odd number of sample bytes, truncations and extensions
        let b = base.long();
        for d in [1usize, 2, 3, 4, 5, 35, 36, 37] {
            if b.len() > d {
                emit(s, "truncated", &b[..b.len() - d]);
            }
        }
        let mut e = b.clone();
        e.push(0);
        emit(s, "extended", &e);
        e.push(0);
        emit(s, "extended", &e);
        // byte changes
        for _ in 0..6 {
            let mut q = b.clone();
            let i = if r.chance(1, 2) { r.below(36.min(q.len() as u64)) as usize } else { r.below(q.len() as u64) as usize };
            q[i] = r.next() as u8;
            emit(s, "byte-change", &q);
        }
    }
    // lengths 0..=120 of a valid packet prefix and random bytes
    let base = valid(&mut r).long();
    for len in 0..=120usize {
        let mut q = base.clone();
        q.resize(len, 0);
        emit(s, "length", &q);
        let mut z = r.bytes(len);
        if len >= 2 {
            z[0] = 1;
            z[1] = 3;
        }
        emit(s, "length-random", &z);
    }
    let n_rand = if thorough { 5000 } else { 300 };
    for _ in 0..n_rand {
        let len = r.below(200) as usize;
        emit(s, "random", &r.bytes(len));
    }
}

/// implementation observation for a case line of this module (None: not one of mine)
pub fn observe_line(line: &str) -> Option<String> {
    let (tag, rest) = line.split_once(' ').unwrap_or((line, "-"));
    match tag {
        "adc" => Some(observe(&crate::util::unhex(rest))),
        _ => None,
    }
}
