// C05: PWB v2 packets — structured generator (masks x sample counts x header bytes x near-valid variants)
// and the implementation's observation: every accessor, both channel lists, waveform_at of all 79 channels.
use crate::util::*;
use alpha_g_detector::padwing::{AfterId, BoardId, ChannelId, Compression, PwbV2Packet, Trigger};

/// canonical name of a channel: R1..R3, F1..F4, P1..P72 (taken from the Debug form, e.g. Pad(PadChannelId(17)))
fn chan_name(c: &ChannelId) -> String {
    let d = format!("{c:?}");
    let digits: String = d.chars().filter(|c| c.is_ascii_digit()).collect();
    let k = match c {
        ChannelId::Reset(_) => "R",
        ChannelId::Fpn(_) => "F",
        ChannelId::Pad(_) => "P",
    };
    format!("{k}{digits}")
}

pub fn observe(bytes: &[u8]) -> String {
    let b = bytes.to_vec();
    match catch(move || {
        PwbV2Packet::try_from(&b[..]).map(|p| {
            let chip = match p.after_id() {
                AfterId::A => "A",
                AfterId::B => "B",
                AfterId::C => "C",
                AfterId::D => "D",
            };
            let comp = match p.compression() {
                Compression::Raw => 0,
            };
            let trig = match p.trigger_source() {
                Trigger::External => 0,
                Trigger::Manual => 1,
                Trigger::InternalPulse => 3,
            };
            let names = |l: &[ChannelId]| l.iter().map(chan_name).collect::<Vec<_>>().join(",");
            let mut o = format!(
                "ok {} {} {} {} {} {} {} {} {} {} {} {} {} S[{}] T[{}] W",
                p.packet_version(),
                chip,
                comp,
                trig,
                hex(&p.board_id().mac_address()),
                p.trigger_delay(),
                p.trigger_timestamp(),
                p.last_sca_cell(),
                p.requested_samples(),
                p.event_counter(),
                p.fifo_max_depth(),
                p.event_descriptor_write_depth(),
                p.event_descriptor_read_depth(),
                names(p.channels_sent()),
                names(p.channels_over_threshold()),
            );
            // waveform_at for every channel of the chip, in readout order
            for i in 1..=79u16 {
                let c = ChannelId::try_from(i).unwrap();
                o.push(' ');
                o.push_str(&chan_name(&c));
                o.push('=');
                match p.waveform_at(c) {
                    None => o.push('-'),
                    Some(w) => o.push_str(&w.iter().map(|s| s.to_string()).collect::<Vec<_>>().join(",")),
                }
            }
            o
        })
    }) {
        None => "panic".to_string(),
        Some(Err(_)) => "err".to_string(),
        Some(Ok(o)) => o,
    }
}

/// MAC addresses of PADWING_BOARDS, harvested through the public API (board names are two digits)
pub fn known_macs() -> Vec<[u8; 6]> {
    let mut v = Vec::new();
    for i in 0..100 {
        if let Ok(b) = BoardId::try_from(&format!("{i:02}")[..]) {
            v.push(b.mac_address());
        }
    }
    v
}

#[derive(Clone)]
pub struct Block {
    pub index: u16,
    pub size: u16,
    pub samples: Vec<i16>,
    pub pad: Vec<u8>,
}

#[derive(Clone)]
pub struct Pk {
    pub ver: u8,
    pub chip: u8,
    pub comp: u8,
    pub trig: u8,
    pub mac: [u8; 6],
    pub delay: u16,
    pub ts: u64, // 48 bits used
    pub zero: [u8; 2],
    pub last: u16,
    pub req: u16,
    pub sent: u128, // 80 bits used
    pub over: u128,
    pub counter: u32,
    pub fifo: u16,
    pub wd: u8,
    pub rd: u8,
    pub blocks: Vec<Block>,
    pub marker: Vec<u8>,
    pub trailing: Vec<u8>,
}
impl Pk {
    pub fn bytes(&self) -> Vec<u8> {
        let mut b = vec![self.ver, self.chip, self.comp, self.trig];
        b.extend(self.mac);
        b.extend(self.delay.to_le_bytes());
        b.extend(&self.ts.to_le_bytes()[..6]);
        b.extend(self.zero);
        b.extend(self.last.to_le_bytes());
        b.extend(self.req.to_le_bytes());
        b.extend(&self.sent.to_le_bytes()[..10]);
        b.extend(&self.over.to_le_bytes()[..10]);
        b.extend(self.counter.to_le_bytes());
        b.extend(self.fifo.to_le_bytes());
        b.push(self.wd);
        b.push(self.rd);
        for k in &self.blocks {
            b.extend(k.index.to_le_bytes());
            b.extend(k.size.to_le_bytes());
            for s in &k.samples {
                b.extend(s.to_le_bytes());
            }
            b.extend(&k.pad);
        }
        b.extend(&self.marker);
        b.extend(&self.trailing);
        b
    }
    /// rebuild the blocks so that they match `sent` and `req`
    pub fn fill(&mut self, r: &mut Rng) {
        self.blocks.clear();
        for bit in 0..80u16 {
            if self.sent >> bit & 1 == 1 {
                self.blocks.push(Block {
                    index: bit + 1,
                    size: self.req,
                    samples: samples(r, self.req as usize),
                    pad: if self.req % 2 == 1 { vec![0, 0] } else { vec![] },
                });
            }
        }
    }
}

pub fn samples(r: &mut Rng, n: usize) -> Vec<i16> {
    let style = r.below(6);
    let base = r.range(0, 4000) as i16 - 2000;
    (0..n)
        .map(|i| match style {
            0 => {
                if r.chance(1, 2) {
                    i16::MIN
                } else {
                    i16::MAX
                }
            }
            1 => r.next() as i16,
            2 => i as i16,                 // position-revealing ramp
            3 => -13108,                   // looks like the end marker
            _ => base + (r.below(200) as i16) - 100,
        })
        .collect()
}

const ALL79: u128 = (1u128 << 79) - 1;

fn rand_mask(r: &mut Rng) -> u128 {
    let x = (r.next() as u128) | ((r.next() as u128) << 64);
    let m = match r.below(6) {
        0 => x & r.next() as u128 & (r.next() as u128) << 30, // sparse
        1 => x | (r.next() as u128) << 20,                   // dense
        2 => 1u128 << r.below(79),
        3 => (1u128 << r.below(79)) | (1u128 << r.below(79)),
        _ => x,
    };
    m & ALL79
}

fn req_class(r: &mut Rng) -> u16 {
    match r.below(10) {
        0 => 0,
        1 => 1,
        2 => 2,
        3 => 3,
        4 => 510,
        5 => 511,
        _ => r.range(0, 60) as u16,
    }
}

/// a well-formed packet with the given mask and sample count
pub fn valid_with(r: &mut Rng, macs: &[[u8; 6]], sent: u128, req: u16) -> Pk {
    let over = match r.below(4) {
        0 => 0,
        1 => sent,
        2 => sent & rand_mask(r),
        _ => rand_mask(r), // not a subset of sent: the decoder does not relate the two masks
    };
    let mut p = Pk {
        ver: 2,
        chip: b'A' + r.below(4) as u8,
        comp: 0,
        trig: r.pick(&[0u8, 1, 3]),
        mac: macs[r.below(macs.len() as u64) as usize],
        delay: r.boundary(0xFFFF) as u16,
        ts: r.boundary((1u64 << 48) - 1),
        zero: [0, 0],
        last: r.boundary(511) as u16,
        req,
        sent,
        over,
        counter: r.boundary(u32::MAX as u64) as u32,
        fifo: r.boundary(0xFFFF) as u16,
        wd: r.boundary(255) as u8,
        rd: r.boundary(255) as u8,
        blocks: vec![],
        marker: vec![204; 4],
        trailing: vec![],
    };
    p.fill(r);
    p
}

/// small valid packet (at most a handful of channels, short waveforms) used as base of perturbations
pub fn small_valid(r: &mut Rng, macs: &[[u8; 6]]) -> Pk {
    let mut sent = 0u128;
    for _ in 0..r.range(1, 5) {
        sent |= 1u128 << r.below(79);
    }
    let req = r.pick(&[0u16, 1, 2, 3, 4, 5, 8, 9]);
    valid_with(r, macs, sent, req)
}

fn emit(s: &mut Sink, label: &str, bytes: &[u8]) {
    let o = observe(bytes);
    let nontrivial = bytes.len() >= 56 && bytes[0] == 2;
    s.put(&format!("pwbv2 {}", hex(bytes)), &o, label, nontrivial);
}

const N_PERTURB: u64 = 34;
/// one systematic perturbation of a valid packet
fn perturb(r: &mut Rng, base: &Pk, k: u64) -> Vec<u8> {
    let mut p = base.clone();
    let nb = p.blocks.len();
    let pickb = |r: &mut Rng| r.below(nb.max(1) as u64) as usize;
    match k {
        0 => p.ver = r.pick(&[0u8, 1, 3, 255]),
        1 => p.chip = r.pick(&[b'A' - 1, b'D' + 1, b'a', 0, 1, 2, 3, 255]),
        2 => p.comp = r.pick(&[1u8, 2, 255]),
        3 => p.trig = r.pick(&[2u8, 4, 255]),
        4 => p.mac[r.below(6) as usize] ^= 1 << r.below(8),
        5 => p.mac = [0; 6],
        6 => p.zero = r.pick(&[[1u8, 0], [0, 1], [255, 255], [0, 128]]),
        7 => p.last = r.pick(&[512u16, 513, 1023, 0x8000, 0xFFFF]),
        8 => p.last = r.pick(&[0u16, 510, 511]), // still valid
        9 => p.req = p.req.wrapping_add(1),      // header only: length equation fails (or sizes mismatch)
        10 => p.req = p.req.wrapping_sub(1),
        11 => {
            // consistent but too large sample count
            p.req = r.pick(&[512u16, 513]);
            p.sent = 1u128 << r.below(79);
            p.fill(r);
        }
        12 => p.sent |= 1u128 << 79,
        13 => p.over |= 1u128 << 79,
        14 => p.sent ^= 1u128 << r.below(79), // one channel more or less in the mask, blocks unchanged
        15 => p.over ^= 1u128 << r.below(79), // still valid
        16 => {
            if nb > 0 {
                let i = pickb(r);
                p.blocks[i].index = p.blocks[i].index.wrapping_add(1);
            }
        }
        17 => {
            if nb > 0 {
                let i = pickb(r);
                p.blocks[i].index = p.blocks[i].index.wrapping_sub(1);
            }
        }
        18 => {
            if nb > 0 {
                let i = pickb(r);
                p.blocks[i].index = r.pick(&[0u16, 80, 81, 255, 256, 0x8000, 0xFFFF]);
            }
        }
        19 => {
            if nb > 1 {
                let i = pickb(r);
                let j = (i + 1) % nb;
                p.blocks.swap(i, j); // wrong order
            }
        }
        20 => {
            if nb > 1 {
                p.blocks.reverse();
            }
        }
        21 => {
            if nb > 0 {
                let i = pickb(r);
                p.blocks[i].size = p.blocks[i].size.wrapping_add(1);
            }
        }
        22 => {
            if nb > 0 {
                let i = pickb(r);
                p.blocks[i].size = r.pick(&[0u16, 1, 511, 512, 0xFFFF]);
            }
        }
        23 => {
            // non-zero padding (odd counts) / padding where none belongs (even counts)
            if nb > 0 {
                let i = pickb(r);
                p.blocks[i].pad = r.pick(&[[1u8, 0], [0, 1], [0, 128], [204, 204]]).to_vec();
            }
        }
        24 => {
            if nb > 0 {
                let i = pickb(r);
                p.blocks[i].pad = vec![]; // padding missing (odd) -- no change when even
            }
        }
        25 => {
            if nb > 0 {
                let i = pickb(r);
                p.blocks[i].samples.pop();
            }
        }
        26 => {
            if nb > 0 {
                let i = pickb(r);
                p.blocks[i].samples.push(0);
            }
        }
        27 => p.marker[r.below(4) as usize] ^= 1 << r.below(8),
        28 => p.marker = r.pick(&[[0u8; 4], [204, 204, 204, 0], [0xCC, 0xCC, 0xCD, 0xCC], [205, 204, 204, 204]]).to_vec(),
        29 => p.marker = vec![204; r.pick(&[0usize, 1, 2, 3, 5, 6, 8])],
        30 => p.trailing = vec![r.pick(&[0u8, 204]); r.range(1, 4) as usize],
        31 => {
            if nb > 0 {
                p.blocks.pop(); // last block missing, mask unchanged
            }
        }
        32 => {
            if nb > 0 {
                let b = p.blocks[pickb(r)].clone();
                p.blocks.push(b); // extra block
            }
        }
        _ => {
            // a sample changed: still valid, waveform differs
            if nb > 0 && p.req > 0 {
                let i = pickb(r);
                let j = r.below(p.req as u64) as usize;
                p.blocks[i].samples[j] = r.next() as i16;
            }
        }
    }
    p.bytes()
}

pub fn run(tier: &str, seed: u64, s: &mut Sink) {
    let mut r = Rng::new(seed ^ 0xC05);
    let thorough = tier == "thorough";
    let macs = known_macs();
    let reqs_sys: [u16; 6] = [0, 1, 2, 3, 510, 511];

    // --- all 79 single-channel masks (+ bit 79) x requested_samples
    for bit in 0..80u32 {
        let reqs: Vec<u16> = if thorough {
            let mut v = reqs_sys.to_vec();
            v.push(r.range(4, 509) as u16);
            v
        } else {
            vec![reqs_sys[(bit % 6) as usize], r.pick(&[0u16, 1, 2, 510, 511]), r.range(3, 40) as u16]
        };
        for req in reqs {
            let p = valid_with(&mut r, &macs, 1u128 << bit, req);
            emit(s, "single-channel", &p.bytes());
        }
    }
    // --- full mask and random masks
    for &req in &reqs_sys {
        if req < 500 || thorough {
            let p = valid_with(&mut r, &macs, ALL79, req);
            emit(s, "full-mask", &p.bytes());
        }
    }
    let p = valid_with(&mut r, &macs, ALL79, 511);
    emit(s, "full-mask", &p.bytes());
    let n_rand_mask = if thorough { 3000 } else { 300 };
    for _ in 0..n_rand_mask {
        let m = rand_mask(&mut r);
        let mut req = req_class(&mut r);
        if req > 100 && m.count_ones() > 8 && !r.chance(1, 20) {
            req = r.range(0, 40) as u16; // keep most cases small
        }
        let p = valid_with(&mut r, &macs, m, req);
        emit(s, "random-mask", &p.bytes());
    }
    // --- requested_samples and last_sca_cell around the guard constant, consistent data
    for req in [509u16, 510, 511, 512, 513] {
        for nch in [1usize, 2] {
            let mut m = 0u128;
            while (m.count_ones() as usize) < nch {
                m |= 1u128 << r.below(79);
            }
            let p = valid_with(&mut r, &macs, m, req);
            emit(s, "requested-samples-boundary", &p.bytes());
        }
    }
    for last in [0u16, 1, 510, 511, 512, 513, 0xFFFF] {
        let mut p = small_valid(&mut r, &macs);
        p.last = last;
        emit(s, "last-sca-cell-boundary", &p.bytes());
    }
    // --- header bytes 0..=255 for version / chip / compression / trigger source
    for field in 0..4 {
        for v in 0..=255u8 {
            let mut p = small_valid(&mut r, &macs);
            match field {
                0 => p.ver = v,
                1 => p.chip = v,
                2 => p.comp = v,
                _ => p.trig = v,
            }
            emit(s, "header-byte-sweep", &p.bytes());
        }
    }
    // --- every known MAC, and unknown ones
    for mac in &macs {
        let mut p = small_valid(&mut r, &macs);
        p.mac = *mac;
        emit(s, "known-mac", &p.bytes());
        let mut q = p.clone();
        q.mac[r.below(6) as usize] ^= 1 << r.below(8);
        emit(s, "mac-one-bit-off", &q.bytes());
    }
    for _ in 0..20 {
        let mut p = small_valid(&mut r, &macs);
        let m = r.bytes(6);
        p.mac.copy_from_slice(&m);
        emit(s, "random-mac", &p.bytes());
    }
    // --- over-threshold mask vs sent mask
    for _ in 0..(if thorough { 400 } else { 60 }) {
        let mut p = small_valid(&mut r, &macs);
        p.over = match r.below(5) {
            0 => ALL79,
            1 => ALL79 & !p.sent,
            2 => p.sent,
            3 => 1u128 << 78,
            _ => rand_mask(&mut r),
        };
        emit(s, "over-threshold-mask", &p.bytes());
    }
    // --- near-valid variants: one field / length / block changed
    let n_base = if thorough { 1200 } else { 150 };
    for _ in 0..n_base {
        let base = small_valid(&mut r, &macs);
        emit(s, "valid-small", &base.bytes());
        for k in 0..N_PERTURB {
            emit(s, &format!("perturb-{k:02}"), &perturb(&mut r, &base, k));
        }
        // truncations and extensions
        let b = base.bytes();
        for d in [1usize, 2, 3, 4, 5, 6] {
            if b.len() > d {
                emit(s, "truncated", &b[..b.len() - d]);
            }
        }
        // a byte changed / a bit flipped anywhere
        for _ in 0..6 {
            let mut q = b.clone();
            let i = if r.chance(1, 2) { r.below(52) as usize } else { r.below(q.len() as u64) as usize };
            if r.chance(1, 2) {
                q[i] ^= 1 << r.below(8);
            } else {
                q[i] = r.next() as u8;
            }
            emit(s, "byte-change", &q);
        }
    }
    // --- every multi-bit field of an ACCEPTED packet with each single bit set: 2^k, 2^k - 1, 2^k + 1
    let around = |k: u32, max: u64| -> Vec<u64> {
        let b = 1u64 << k;
        let mut v = vec![b, b - 1];
        if b < max {
            v.push(b + 1);
        }
        v.into_iter().filter(|x| *x <= max).collect()
    };
    for (field, bits, max) in [
        ("delay", 16u32, 0xFFFFu64),
        ("ts", 48, (1u64 << 48) - 1),
        ("last", 10, 511),
        ("req", 10, 511),
        ("counter", 32, u32::MAX as u64),
        ("fifo", 16, 0xFFFF),
        ("wd", 8, 255),
        ("rd", 8, 255),
    ] {
        for k in 0..bits {
            for v in around(k, max) {
                let mut p = small_valid(&mut r, &macs);
                match field {
                    "delay" => p.delay = v as u16,
                    "ts" => p.ts = v,
                    "last" => p.last = v as u16,
                    "req" => {
                        p.req = v as u16;
                        // large counts: keep one or two channels so that the packet stays small
                        if v > 64 {
                            p.sent = (1u128 << r.below(79)) | (1u128 << r.below(79));
                        }
                        p.fill(&mut r);
                    }
                    "counter" => p.counter = v as u32,
                    "fifo" => p.fifo = v as u16,
                    "wd" => p.wd = v as u8,
                    _ => p.rd = v as u8,
                }
                emit(s, "field-single-bit", &p.bytes());
            }
        }
    }
    // both masks: every single bit, and every bit together with its neighbours / with the top legal bit
    for k in 0..79u32 {
        let mut p = small_valid(&mut r, &macs);
        p.over = 1u128 << k;
        emit(s, "field-single-bit", &p.bytes());
        let mut p = small_valid(&mut r, &macs);
        p.over = (1u128 << k) | (1u128 << 78) | ((1u128 << k) - 1);
        emit(s, "field-single-bit", &p.bytes());
        let req = r.pick(&[0u16, 1, 2, 5]);
        let m = (1u128 << k) | (1u128 << 78) | (if k > 0 { 1u128 << (k - 1) } else { 0 });
        let p = valid_with(&mut r, &macs, m, req);
        emit(s, "field-single-bit", &p.bytes());
    }
    // samples: every single bit of an i16 at the first / last / a middle position of a block
    for k in 0..16u32 {
        for d in [0i32, -1, 1] {
            let mut p = small_valid(&mut r, &macs);
            if p.req == 0 {
                p.req = 5;
                p.fill(&mut r);
            }
            let v = ((1i32 << k) + d) as u16 as i16;
            let nb = p.blocks.len();
            let n = p.req as usize;
            p.blocks[0].samples[0] = v;
            p.blocks[nb - 1].samples[n - 1] = v;
            p.blocks[nb / 2].samples[n / 2] = v;
            emit(s, "field-single-bit", &p.bytes());
        }
    }
    // --- an invalid element FOLLOWED (and preceded) by plenty of valid data: many blocks, defect early
    for _ in 0..(if thorough { 600 } else { 120 }) {
        let nch = r.range(8, 30) as usize;
        let mut m = 0u128;
        while (m.count_ones() as usize) < nch {
            m |= 1u128 << r.below(79);
        }
        let req = r.pick(&[1u16, 2, 3, 4, 7]);
        let mut p = valid_with(&mut r, &macs, m, req);
        // defect early (followed by plenty of valid blocks), in the middle, or late (preceded by plenty)
        let at = match r.below(6) {
            0 => 0,
            1 => 1,
            2 | 3 => r.below(nch as u64 / 2) as usize,
            4 => nch - 2,
            _ => r.range(nch as u64 / 2, nch as u64 - 2) as usize,
        };
        let label = match r.below(8) {
            0 => {
                p.blocks[at].index += 1;
                "defect-then-valid"
            }
            1 => {
                p.blocks[at].index -= 1;
                "defect-then-valid"
            }
            2 => {
                p.blocks[at].size ^= 1 << r.below(10);
                "defect-then-valid"
            }
            3 => {
                p.blocks[at].pad = if req % 2 == 1 { r.pick(&[[0u8, 1], [128, 0]]).to_vec() } else { vec![0, 0] };
                "defect-then-valid"
            }
            4 => {
                p.blocks.swap(at, at + 1);
                "defect-then-valid"
            }
            5 => {
                p.blocks.remove(at);
                "defect-then-valid"
            }
            6 => {
                let b = p.blocks[at].clone();
                p.blocks.insert(at, b);
                "defect-then-valid"
            }
            _ => "many-blocks-valid",
        };
        emit(s, label, &p.bytes());
    }
    // header defect followed by a long valid body
    for k in [0u64, 1, 2, 3, 4, 6, 7, 12, 13] {
        let mut m = 0u128;
        while m.count_ones() < 20 {
            m |= 1u128 << r.below(79);
        }
        let base = valid_with(&mut r, &macs, m, 6);
        emit(s, "header-defect-long-body", &perturb(&mut r, &base, k));
    }
    // --- length-like field: header count N, block size field s, a samples actually present, N-1 <= s, a <= N+1
    for n in [0i32, 1, 2, 3, 4, 5, 510, 511] {
        for ds in [-1i32, 0, 1] {
            for da in [-1i32, 0, 1] {
                for pad_by_actual in [false, true] {
                    let (sz, act) = (n + ds, n + da);
                    if sz < 0 || act < 0 {
                        continue;
                    }
                    let nch = if n > 100 { 2 } else { r.range(1, 4) as usize };
                    let mut m = 0u128;
                    while (m.count_ones() as usize) < nch {
                        m |= 1u128 << r.below(79);
                    }
                    let mut p = valid_with(&mut r, &macs, m, n as u16);
                    // all blocks, or only the first one
                    let only_first = r.chance(1, 3);
                    for (i, b) in p.blocks.iter_mut().enumerate() {
                        if only_first && i > 0 {
                            continue;
                        }
                        b.size = sz as u16;
                        b.samples = samples(&mut r, act as usize);
                        let odd = if pad_by_actual { act % 2 == 1 } else { n % 2 == 1 };
                        b.pad = if odd { vec![0, 0] } else { vec![] };
                    }
                    emit(s, "count-vs-units", &p.bytes());
                }
            }
        }
    }
    // --- lengths 0..=140 (prefix of a valid packet, zero-extended; random with a valid-looking start)
    let mut base = valid_with(&mut r, &macs, 0b1001, 9);
    base.over = 0b1000;
    let base = base.bytes();
    for len in 0..=140usize {
        let mut q = base.clone();
        q.resize(len, 0);
        emit(s, "length", &q);
        let mut z = r.bytes(len);
        for (i, v) in [2u8, b'B', 0, 1].iter().enumerate() {
            if i < len {
                z[i] = *v;
            }
        }
        emit(s, "length-random", &z);
    }
    // empty mask: the shortest valid packet (56 bytes)
    for _ in 0..5 {
        let req = req_class(&mut r);
        let p = valid_with(&mut r, &macs, 0, req);
        emit(s, "empty-mask", &p.bytes());
    }
    // --- random bytes; random tail after a valid header
    let n_rand = if thorough { 5000 } else { 400 };
    for _ in 0..n_rand {
        let len = r.below(300) as usize;
        emit(s, "random", &r.bytes(len));
        let p = small_valid(&mut r, &macs);
        let mut b = p.bytes();
        let keep = r.range(24, 52) as usize;
        let tail = r.bytes(b.len() - keep);
        b[keep..].copy_from_slice(&tail);
        emit(s, "random-tail", &b);
    }
}

/// implementation observation for a case line of this module (None: not one of mine)
pub fn observe_line(line: &str) -> Option<String> {
    let (tag, rest) = line.split_once(' ').unwrap_or((line, "-"));
    match tag {
        "pwbv2" => Some(observe(&crate::util::unhex(rest))),
        _ => None,
    }
}
