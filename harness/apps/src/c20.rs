// C20: alpha-g-chronobox-timestamps — the REAL binary is run on MIDAS files written here.
//
// Case lines (the first token is unique to this module):
//   c20 <cutseed> <board>:<hex>,<board>:<hex>,…      bank payloads ("pieces") in bank order; `-` = no piece at all.
//        The cut pattern (how every piece is cut further into banks, how banks of different boards interleave,
//        how banks are grouped into Chronobox events, which decoy banks/events are added, how events are spread
//        over 1..=3 files (.mid or .mid.lz4), bank format and data type, order of the file arguments) is derived deterministically
//        from <cutseed> and the pieces; cutseed 0 = every piece is one bank, one event, one file.
//        The per-board concatenation of the pieces is all the model needs.
//   c20hw <cutseed> <board>:<ev>;<ev>;…,…            hardware events E<T>.<ch>.<trailing> | M<c> | S<fill>; the
//        stream of each board is hw_stream(events) (coq/Apps/CbHardware.v re-stated below); one piece per board.
//   observation: `fail` (non-zero exit and no CSV) | `ok <n> <board>.<channel>.<leading>.<ticks|->…`
//   rel20time <cutseed> <hw items>   every row of the CSV is the row the generator expects from the true edge times
//   rel20some <cutseed> <hw items>   (faulted marker sequences) every NON-EMPTY time is the true time of its edge
//   rel20cut <s1>/<s2>/… <hw items>  the CSV bodies under the cut patterns s1, s2, … are byte-identical
use crate::util::*;
use std::cell::RefCell;
use std::collections::HashMap;
use std::path::PathBuf;
use std::process::{Command, Stdio};

// ---------------------------------------------------------------------------------------------
// MIDAS writer (midasio 0.5.3 file.rs / event.rs / data_bank.rs), little endian
// ---------------------------------------------------------------------------------------------
#[derive(Clone, Debug)]
struct Bank {
    name: [u8; 4],
    dtype: u32,
    data: Vec<u8>,
}
#[derive(Clone, Debug)]
struct Event {
    id: u16,
    mask: u16,
    serial: u32,
    ts: u32,
    fmt: u32, // 1 = BANK16, 17 = BANK32, 49 = BANK32A
    banks: Vec<Bank>,
}
#[derive(Clone, Debug)]
struct MFile {
    run: u32,
    t0: u32,
    t1: u32,
    lz4: bool, // written as .mid.lz4 (alpha_g_analysis::read decompresses by extension)
    events: Vec<Event>,
}

fn bank_bytes(fmt: u32, b: &Bank, out: &mut Vec<u8>) {
    out.extend_from_slice(&b.name);
    match fmt {
        1 => {
            out.extend_from_slice(&(b.dtype as u16).to_le_bytes());
            out.extend_from_slice(&(b.data.len() as u16).to_le_bytes());
        }
        17 => {
            out.extend_from_slice(&b.dtype.to_le_bytes());
            out.extend_from_slice(&(b.data.len() as u32).to_le_bytes());
        }
        _ => {
            out.extend_from_slice(&b.dtype.to_le_bytes());
            out.extend_from_slice(&(b.data.len() as u32).to_le_bytes());
            out.extend_from_slice(&[0xAA; 4]); // reserved
        }
    }
    out.extend_from_slice(&b.data);
    let pad = (8 - b.data.len() % 8) % 8;
    out.extend(std::iter::repeat(0xEEu8).take(pad));
}

fn event_bytes(e: &Event, out: &mut Vec<u8>) {
    let mut body = Vec::new();
    for b in &e.banks {
        bank_bytes(e.fmt, b, &mut body);
    }
    out.extend_from_slice(&e.id.to_le_bytes());
    out.extend_from_slice(&e.mask.to_le_bytes());
    out.extend_from_slice(&e.serial.to_le_bytes());
    out.extend_from_slice(&e.ts.to_le_bytes());
    out.extend_from_slice(&(body.len() as u32 + 8).to_le_bytes()); // event size
    out.extend_from_slice(&(body.len() as u32).to_le_bytes()); // all banks size
    out.extend_from_slice(&e.fmt.to_le_bytes()); // flags
    out.extend_from_slice(&body);
}

fn file_bytes(f: &MFile) -> Vec<u8> {
    let mut out = Vec::new();
    let odb0 = b"<odb begin/>";
    let odb1 = b"{\"end\":1}";
    out.extend_from_slice(&0x8000u16.to_le_bytes());
    out.extend_from_slice(&0x494Du16.to_le_bytes());
    out.extend_from_slice(&f.run.to_le_bytes());
    out.extend_from_slice(&f.t0.to_le_bytes());
    out.extend_from_slice(&(odb0.len() as u32).to_le_bytes());
    out.extend_from_slice(odb0);
    for e in &f.events {
        event_bytes(e, &mut out);
    }
    out.extend_from_slice(&0x8001u16.to_le_bytes());
    out.extend_from_slice(&0x494Du16.to_le_bytes());
    out.extend_from_slice(&f.run.to_le_bytes());
    out.extend_from_slice(&f.t1.to_le_bytes());
    out.extend_from_slice(&(odb1.len() as u32).to_le_bytes());
    out.extend_from_slice(odb1);
    out
}

// ---------------------------------------------------------------------------------------------
// cut pattern: pieces -> files
// ---------------------------------------------------------------------------------------------
type Piece = (u8, Vec<u8>);

fn cbf_name(board: u8) -> [u8; 4] {
    [b'C', b'B', b'F', b'0' + board]
}

fn pick_dtype(r: &mut Rng, len: usize) -> u32 {
    // the binary never looks at the data type; midasio requires len % size == 0
    if len % 4 == 0 && r.chance(1, 2) {
        6 // DWORD
    } else if len % 2 == 0 && r.chance(1, 4) {
        4 // WORD
    } else {
        1 // BYTE
    }
}

fn decoy_bank(r: &mut Rng) -> Bank {
    // names the binary must ignore inside a Chronobox event
    let name: [u8; 4] = match r.below(6) {
        0 => *b"CBF5",
        1 => *b"CBF0",
        2 => *b"cbf1",
        3 => *b"CBFS",
        4 => *b"ATAT",
        _ => *b"CB01",
    };
    let len = r.below(13) as usize;
    Bank { name, dtype: 1, data: r.bytes(len) }
}

fn decoy_event(r: &mut Rng, serial: u32) -> Event {
    // events of another id carrying CBFn banks: must be ignored
    let id = r.pick(&[1u16, 8, 2, 3, 5, 0, 0x8002, 4 + 256]);
    let mut banks = Vec::new();
    for _ in 0..r.below(3) {
        let len = 4 * r.below(4) as usize;
        let mut data = r.bytes(len);
        if len >= 4 {
            data[3] = 0xFF; // looks like a marker
        }
        banks.push(Bank { name: cbf_name(r.range(1, 4) as u8), dtype: 1, data });
    }
    Event { id, mask: r.next() as u16, serial, ts: r.next() as u32, fmt: 17, banks }
}

fn mix(seed: u64, pieces: &[Piece]) -> u64 {
    // the pattern depends on the seed and on the shape of the pieces only
    let mut h = seed ^ 0xC20C20;
    for (b, d) in pieces {
        h = h.wrapping_mul(0x100000001B3).wrapping_add(*b as u64 + 31 * d.len() as u64);
    }
    h
}

fn plan(seed: u64, pieces: &[Piece]) -> (Vec<MFile>, Vec<usize>) {
    let run = 9000 + (seed % 1000) as u32;
    if seed == 0 {
        let banks = pieces
            .iter()
            .map(|(b, d)| Bank { name: cbf_name(*b), dtype: 1, data: d.clone() })
            .collect();
        let ev = Event { id: 4, mask: 0, serial: 0, ts: 0, fmt: 17, banks };
        return (vec![MFile { run, t0: 100, t1: 100, lz4: false, events: vec![ev] }], vec![0]);
    }
    let mut r = Rng::new(mix(seed, pieces));
    // 1. every piece is cut into banks; per-board queues keep the order
    let mode = r.below(6);
    let mut queues: Vec<Vec<Vec<u8>>> = vec![Vec::new(); 5];
    for (b, d) in pieces {
        let q = &mut queues[*b as usize];
        let n = d.len();
        let mut cuts: Vec<usize> = match mode {
            0 => vec![],                                                       // no further cut
            1 => (0..r.below(3)).map(|_| r.below(n as u64 + 1) as usize).collect(), // a few byte cuts
            2 => (0..r.below(8)).map(|_| 4 * r.below(n as u64 / 4 + 1) as usize).collect(), // word cuts
            3 => (0..r.below(12)).map(|_| r.below(n as u64 + 1) as usize).collect(),
            4 => {
                // cuts just around every element boundary of a scaler block / word
                (0..r.below(6)).map(|_| (4 * r.below(n as u64 / 4 + 1) + r.below(4)) as usize).collect()
            }
            _ => {
                if n <= 80 {
                    (1..n).collect() // one byte per bank
                } else {
                    (0..20).map(|_| r.below(n as u64 + 1) as usize).collect()
                }
            }
        };
        cuts.retain(|&c| c <= n);
        cuts.sort();
        let mut prev = 0;
        for c in cuts {
            q.push(d[prev..c].to_vec()); // empty banks are allowed and kept
            prev = c;
        }
        q.push(d[prev..].to_vec());
    }
    // 2. random merge preserving the order inside every board
    let mut seq: Vec<Bank> = Vec::new();
    let mut heads = [0usize; 5];
    loop {
        let live: Vec<usize> = (1..5).filter(|&b| heads[b] < queues[b].len()).collect();
        if live.is_empty() {
            break;
        }
        let b = if r.chance(2, 3) { live[0] } else { r.pick(&live) };
        let data = queues[b][heads[b]].clone();
        heads[b] += 1;
        let dtype = pick_dtype(&mut r, data.len());
        seq.push(Bank { name: cbf_name(b as u8), dtype, data });
    }
    // 3. banks -> Chronobox events, decoys in between
    let mut events: Vec<Event> = Vec::new();
    let mut serial = r.next() as u32;
    let mut i = 0;
    let decoys = r.chance(3, 4);
    while i < seq.len() || events.is_empty() {
        if decoys && r.chance(1, 3) {
            events.push(decoy_event(&mut r, serial));
            serial = serial.wrapping_add(1);
        }
        let k = match r.below(5) {
            0 => 0,
            1 | 2 => 1,
            3 => 2,
            _ => r.range(1, 6) as usize,
        };
        let k = k.min(seq.len() - i);
        let mut banks: Vec<Bank> = Vec::new();
        for b in &seq[i..i + k] {
            if decoys && r.chance(1, 5) {
                banks.push(decoy_bank(&mut r));
            }
            banks.push(b.clone());
        }
        if decoys && r.chance(1, 5) {
            banks.push(decoy_bank(&mut r));
        }
        i += k;
        let mut fmt = r.pick(&[17u32, 17, 17, 1, 49]);
        if banks.iter().any(|b| b.data.len() > 60000) {
            fmt = 17;
        }
        events.push(Event { id: 4, mask: r.next() as u16, serial, ts: r.next() as u32, fmt, banks });
        serial = serial.wrapping_add(1);
        if i >= seq.len() {
            break;
        }
    }
    if decoys && r.chance(1, 3) {
        events.push(decoy_event(&mut r, serial));
    }
    // 4. events -> 1..=3 files of one run; t0 strictly increasing, t0(next) - t1(prev) <= 1
    let nfiles = r.range(1, 3) as usize;
    let mut bounds: Vec<usize> = (0..nfiles - 1).map(|_| r.below(events.len() as u64 + 1) as usize).collect();
    bounds.sort();
    bounds.push(events.len());
    let mut files = Vec::new();
    let mut t = r.pick(&[0u32, 1, 1_700_000_000, u32::MAX - 10]);
    let mut prev = 0;
    for (fi, &bnd) in bounds.iter().enumerate() {
        let d = r.below(3) as u32; // duration of the file
        let t0 = t;
        let t1 = t0 + d;
        files.push(MFile { run, t0, t1, lz4: r.chance(1, 5), events: events[prev..bnd].to_vec() });
        prev = bnd;
        let gap = if d == 0 { 1 } else { r.below(2) as u32 };
        t = t1 + gap;
        let _ = fi;
    }
    // order of the file arguments
    let mut order: Vec<usize> = (0..files.len()).collect();
    for i in (1..order.len()).rev() {
        let j = r.below(i as u64 + 1) as usize;
        order.swap(i, j);
    }
    (files, order)
}

// ---------------------------------------------------------------------------------------------
// running the real binary
// ---------------------------------------------------------------------------------------------
#[derive(Clone, Debug)]
struct RunOut {
    exit_ok: bool,
    csv: Option<Vec<u8>>, // the CSV without its two comment lines
    raw_head_ok: bool,
}

thread_local! {
    static CACHE: RefCell<HashMap<String, RunOut>> = RefCell::new(HashMap::new());
    static COUNTER: RefCell<u64> = RefCell::new(0);
}

fn scratch_root() -> PathBuf {
    let args: Vec<String> = std::env::args().collect();
    let base = if args.get(1).map(|s| s.as_str()) == Some("gen") && args.len() >= 6 {
        PathBuf::from(&args[5])
    } else {
        std::env::temp_dir()
    };
    base.join(format!("c20-scratch-{}", std::process::id()))
}

fn binary() -> PathBuf {
    let dir = std::env::var("VERIF_ANALYSIS_BIN").unwrap_or_else(|_| {
        // replay / obs mode outside the driver: the driver's default location
        let exe = std::env::current_exe().unwrap();
        // …/.build/cargo-apps/release/vapps -> …/.build/cargo-analysis/release
        exe.parent().unwrap().parent().unwrap().parent().unwrap().join("cargo-analysis/release").to_string_lossy().into_owned()
    });
    PathBuf::from(dir).join("alpha-g-chronobox-timestamps")
}

fn pieces_key(seed: u64, pieces: &[Piece]) -> String {
    let items: Vec<String> = pieces.iter().map(|(b, d)| format!("{}:{}", b, hex(d))).collect();
    format!("{} {}", seed, if items.is_empty() { "-".to_string() } else { items.join(",") })
}

fn run_binary(seed: u64, pieces: &[Piece]) -> RunOut {
    let key = pieces_key(seed, pieces);
    if let Some(o) = CACHE.with(|c| c.borrow().get(&key).cloned()) {
        return o;
    }
    let n = COUNTER.with(|c| {
        *c.borrow_mut() += 1;
        *c.borrow()
    });
    let root = scratch_root();
    let dir = root.join(format!("r{n}"));
    std::fs::create_dir_all(&dir).unwrap();
    let (files, order) = plan(seed, pieces);
    let mut paths = Vec::new();
    for (i, f) in files.iter().enumerate() {
        let p = dir.join(format!("run{:05}sub{:03}.mid{}", f.run, i, if f.lz4 { ".lz4" } else { "" }));
        if f.lz4 {
            use std::io::Write;
            let mut enc = lz4::EncoderBuilder::new().level(1).build(std::fs::File::create(&p).unwrap()).unwrap();
            enc.write_all(&file_bytes(f)).unwrap();
            let (_w, res) = enc.finish();
            res.unwrap();
        } else {
            std::fs::write(&p, file_bytes(f)).unwrap();
        }
        paths.push(p);
    }
    let out = dir.join("out");
    let csv_path = dir.join("out.csv");
    let mut cmd = Command::new(binary());
    cmd.arg("-o").arg(&out);
    for &i in &order {
        cmd.arg(&paths[i]);
    }
    let status = cmd
        .current_dir(&dir)
        .stdin(Stdio::null())
        .stdout(Stdio::null())
        .stderr(Stdio::null())
        .status()
        .expect("cannot run alpha-g-chronobox-timestamps (VERIF_ANALYSIS_BIN)");
    let raw = std::fs::read(&csv_path).ok();
    // any other file created by the run counts as "a CSV was written"
    let stray = std::fs::read_dir(&dir)
        .unwrap()
        .filter_map(|e| e.ok())
        .any(|e| {
            let n = e.file_name().to_string_lossy().into_owned();
            !n.ends_with(".mid") && !n.ends_with(".mid.lz4") && n != "out.csv"
        });
    let (csv, head_ok) = match raw {
        None => (if stray { Some(b"<stray file>".to_vec()) } else { None }, true),
        Some(raw) => {
            // two comment lines: "# <pkg> <version>\n# <command line>\n"
            let mut pos = 0;
            let mut ok = true;
            for _ in 0..2 {
                if raw.get(pos) != Some(&b'#') {
                    ok = false;
                    break;
                }
                match raw[pos..].iter().position(|&c| c == b'\n') {
                    Some(k) => pos += k + 1,
                    None => {
                        ok = false;
                        break;
                    }
                }
            }
            (Some(raw[pos..].to_vec()), ok)
        }
    };
    let _ = std::fs::remove_dir_all(&dir);
    let _ = std::fs::remove_dir(&root); // succeeds only when empty
    let o = RunOut { exit_ok: status.success(), csv, raw_head_ok: head_ok };
    CACHE.with(|c| c.borrow_mut().insert(key, o.clone()));
    o
}

#[derive(Clone, Debug, PartialEq)]
struct CsvRow {
    board: u8,
    channel: u8,
    leading: bool,
    ticks: Option<u64>,
}

const FREQ: f64 = 10e6;

/// parse the CSV body; Err(text) when it is not what the serializer of `Row` can have written
fn parse_csv(body: &[u8]) -> Result<Vec<CsvRow>, String> {
    let text = std::str::from_utf8(body).map_err(|_| "csv-not-utf8".to_string())?;
    if text.is_empty() {
        return Ok(vec![]); // no row: the header is written with the first row
    }
    if !text.ends_with('\n') {
        return Err("csv-no-final-newline".into());
    }
    let mut lines = text[..text.len() - 1].split('\n');
    if lines.next() != Some("board,channel,leading_edge,chronobox_time") {
        return Err("csv-bad-header".into());
    }
    let mut rows = Vec::new();
    for l in lines {
        let f: Vec<&str> = l.split(',').collect();
        if f.len() != 4 {
            return Err(format!("csv-bad-row[{l}]"));
        }
        let board = match f[0] {
            "cb01" => 1,
            "cb02" => 2,
            "cb03" => 3,
            "cb04" => 4,
            _ => return Err(format!("csv-bad-board[{l}]")),
        };
        let channel: u8 = f[1].parse().map_err(|_| format!("csv-bad-channel[{l}]"))?;
        let leading = match f[2] {
            "true" => true,
            "false" => false,
            _ => return Err(format!("csv-bad-edge[{l}]")),
        };
        let ticks = if f[3].is_empty() {
            None
        } else {
            let x: f64 = f[3].parse().map_err(|_| format!("csv-bad-time[{l}]"))?;
            let t = (x * FREQ).round();
            if !(t >= 0.0 && t < 9.0e15) {
                return Err(format!("csv-time-out-of-range[{l}]"));
            }
            let t = t as u64;
            // the printed text must be exactly the shortest representation of `ticks as f64 / 10e6`
            // (ryu and `{:?}` agree for 1e-5 <= x < 1e16, and 0.0)
            let expect = format!("{:?}", t as f64 / FREQ);
            if expect != f[3] || (t as f64 / FREQ).to_bits() != x.to_bits() {
                return Err(format!("csv-time-not-ticks/10e6[{l}]"));
            }
            Some(t)
        };
        rows.push(CsvRow { board, channel, leading, ticks });
    }
    Ok(rows)
}

fn outcome(o: &RunOut) -> Result<Option<Vec<CsvRow>>, String> {
    match (o.exit_ok, &o.csv) {
        (false, None) => Ok(None),
        (false, Some(_)) => Err("fail-but-csv-written".into()),
        (true, None) => Err("exit0-without-csv".into()),
        (true, Some(body)) => {
            if !o.raw_head_ok {
                return Err("csv-bad-comment-lines".into());
            }
            parse_csv(body).map(Some)
        }
    }
}

fn observation(o: &RunOut) -> String {
    match outcome(o) {
        Err(e) => e,
        Ok(None) => "fail".into(),
        Ok(Some(rows)) => {
            let mut s = format!("ok {}", rows.len());
            for r in rows {
                s.push_str(&format!(
                    " {}.{}.{}.{}",
                    r.board,
                    r.channel,
                    r.leading as u8,
                    r.ticks.map(|t| t.to_string()).unwrap_or_else(|| "-".into())
                ));
            }
            s
        }
    }
}

// ---------------------------------------------------------------------------------------------
// hardware model (coq/Apps/CbHardware.v re-stated) and its generator
// ---------------------------------------------------------------------------------------------
const HALF: u64 = 1 << 23;
const TURN: u64 = 1 << 24;

#[derive(Clone, Debug, PartialEq)]
enum Hw {
    Edge { t: u64, ch: u8, trailing: bool },
    Marker(u64),
    Scalers(u8),
}

fn scalers_body(fill: u8) -> Vec<u8> {
    (0..240u32).map(|i| ((fill as u32 + 7 * i) & 255) as u8).collect()
}

fn hw_stream(evs: &[Hw]) -> Vec<u8> {
    let mut v = Vec::new();
    for e in evs {
        match e {
            Hw::Edge { t, ch, trailing } => {
                let w = ((128 + *ch as u64) << 24) | ((t % TURN) & !1) | (*trailing as u64);
                v.extend_from_slice(&(w as u32).to_le_bytes());
            }
            Hw::Marker(c) => {
                let w = (255u64 << 24) | ((c % 2) << 23) | (c % HALF);
                v.extend_from_slice(&(w as u32).to_le_bytes());
            }
            Hw::Scalers(f) => {
                v.extend_from_slice(&[0x3C, 0, 0, 0xFE]);
                v.extend(scalers_body(*f));
            }
        }
    }
    v
}

fn hw_fmt(evs: &[Hw]) -> String {
    let v: Vec<String> = evs
        .iter()
        .map(|e| match e {
            Hw::Edge { t, ch, trailing } => format!("E{}.{}.{}", t, ch, *trailing as u8),
            Hw::Marker(c) => format!("M{c}"),
            Hw::Scalers(f) => format!("S{f}"),
        })
        .collect();
    v.join(";")
}

fn hw_parse(s: &str) -> Vec<Hw> {
    if s.is_empty() {
        return vec![];
    }
    s.split(';')
        .map(|e| match e.as_bytes()[0] {
            b'E' => {
                let f: Vec<&str> = e[1..].split('.').collect();
                Hw::Edge { t: f[0].parse().unwrap(), ch: f[1].parse().unwrap(), trailing: f[2] == "1" }
            }
            b'M' => Hw::Marker(e[1..].parse().unwrap()),
            _ => Hw::Scalers(e[1..].parse().unwrap()),
        })
        .collect()
}

type HwBoards = Vec<(u8, Vec<Hw>)>;

fn hw_items(boards: &HwBoards) -> String {
    if boards.is_empty() {
        return "-".into();
    }
    let v: Vec<String> = boards.iter().map(|(b, e)| format!("{}:{}", b, hw_fmt(e))).collect();
    v.join(",")
}
fn hw_items_parse(s: &str) -> HwBoards {
    if s == "-" {
        return vec![];
    }
    s.split(',')
        .map(|it| {
            let (b, e) = it.split_once(':').unwrap();
            (b.parse().unwrap(), hw_parse(e))
        })
        .collect()
}
fn hw_pieces(boards: &HwBoards) -> Vec<Piece> {
    boards.iter().map(|(b, e)| (*b, hw_stream(e))).collect()
}

/// what the generator knows: for every edge after the first marker of the sequence (in FIFO order) the channel, edge,
/// and the true time when the edge lies in the window of its neighbours and a later marker exists.
/// `k` counts the markers seen so far; the windows are those of a fault-free marker sequence 0, 1, 2, …
fn hw_truth(board: u8, evs: &[Hw]) -> Vec<(CsvRow, u64)> {
    let mut k = 0u64;
    let mut out = Vec::new();
    for (i, e) in evs.iter().enumerate() {
        match e {
            Hw::Marker(_) => k += 1,
            Hw::Scalers(_) => {}
            Hw::Edge { t, ch, trailing } => {
                if k == 0 {
                    continue;
                }
                let later = evs[i + 1..].iter().any(|x| matches!(x, Hw::Marker(_)));
                let inside = k * HALF <= *t && *t < (k + 1) * HALF;
                let truth = *t & !1;
                out.push((
                    CsvRow { board, channel: *ch, leading: !*trailing, ticks: if later && inside { Some(truth) } else { None } },
                    truth,
                ));
            }
        }
    }
    out
}

fn gen_edge(r: &mut Rng, k: u64) -> Hw {
    let lo = k * HALF;
    let hi = (k + 1) * HALF;
    let d = r.below(7) as i64 - 3;
    let t: i64 = match r.below(12) {
        0 | 1 => lo as i64 + d,                                   // within 3 ticks of the previous marker
        2 | 3 => hi as i64 + d,                                   // within 3 ticks of the next marker
        4 => lo as i64 - HALF as i64,                             // extreme displacement (earliest)
        5 => hi as i64 + HALF as i64 - 1,                         // extreme displacement (latest)
        6 => lo as i64 - 1 - r.below(HALF) as i64,                // displaced: belongs before the previous marker
        7 => hi as i64 + r.below(HALF) as i64,                    // displaced: belongs after the next marker
        8 => (lo + HALF / 2) as i64 + d,
        _ => (lo + r.below(HALF)) as i64,
    };
    // keep the displacement hypothesis: lo - HALF <= t < hi + HALF, t >= 0
    let t = t.max(lo as i64 - HALF as i64).max(0).min(hi as i64 + HALF as i64 - 1) as u64;
    let ch = match r.below(5) {
        0 => 0,
        1 => 58,
        _ => r.below(59) as u8,
    };
    Hw::Edge { t, ch, trailing: r.chance(1, 2) }
}

/// a well-formed hardware sequence with `markers` markers (0..=markers-1)
fn gen_hw(r: &mut Rng, markers: u64, density: u64) -> Vec<Hw> {
    let mut v = Vec::new();
    for k in 0..=markers {
        let n = r.below(density + 1);
        for _ in 0..n {
            if r.chance(1, 6) {
                v.push(Hw::Scalers(r.next() as u8));
            }
            v.push(gen_edge(r, k));
        }
        if r.chance(1, 8) {
            v.push(Hw::Scalers(r.next() as u8));
        }
        if k < markers {
            v.push(Hw::Marker(k));
        }
    }
    v
}

// ---------------------------------------------------------------------------------------------
// case emitters
// ---------------------------------------------------------------------------------------------
fn parse_pieces(s: &str) -> Vec<Piece> {
    if s == "-" {
        return vec![];
    }
    s.split(',')
        .map(|it| {
            let (b, h) = it.split_once(':').unwrap();
            (b.parse().unwrap(), unhex(h))
        })
        .collect()
}

fn emit_bytes(s: &mut Sink, label: &str, seed: u64, pieces: &[Piece]) {
    let o = run_binary(seed, pieces);
    s.put(&format!("c20 {}", pieces_key(seed, pieces)), &observation(&o), label, !pieces.is_empty());
}

fn check_truth(seed: u64, boards: &HwBoards, full: bool) -> String {
    let o = run_binary(seed, &hw_pieces(boards));
    let rows = match outcome(&o) {
        Err(e) => return format!("fails {e}"),
        Ok(None) => {
            // refusing is never a wrong time; for fault-free sequences it is expected exactly when a board has no marker
            let expect_fail = boards.iter().any(|(_, e)| !e.iter().any(|x| matches!(x, Hw::Marker(_))));
            return if !full || expect_fail { "holds".into() } else { "fails unexpected-refusal".into() };
        }
        Ok(Some(rows)) => rows,
    };
    let mut truth = Vec::new();
    let mut bs = boards.clone();
    bs.sort_by_key(|(b, _)| *b);
    for (b, e) in &bs {
        truth.extend(hw_truth(*b, e));
    }
    if full {
        if rows.len() != truth.len() {
            return format!("fails rows {} expected {}", rows.len(), truth.len());
        }
        for (i, (r, (t, _))) in rows.iter().zip(truth.iter()).enumerate() {
            if r != t {
                return format!("fails row {i}: {:?} expected {:?}", r, t);
            }
        }
        "holds".into()
    } else {
        // faulted marker sequence: rows still correspond one-to-one to the edges after the first counter-0 marker;
        // the program may give fewer times, never a wrong one. Align from the end (rows before marker 0 are skipped).
        if rows.len() > truth.len() {
            return format!("fails rows {} > edges {}", rows.len(), truth.len());
        }
        let off = truth.len() - rows.len();
        if bs.len() != 1 {
            return "fails rel20some needs one board".into();
        }
        for (i, r) in rows.iter().enumerate() {
            let (t, true_time) = &truth[off + i];
            if r.channel != t.channel || r.leading != t.leading {
                return format!("fails row {i} is not edge {}", off + i);
            }
            if let Some(x) = r.ticks {
                if x != *true_time {
                    return format!("fails row {i}: time {x} but the edge was at {true_time}");
                }
            }
        }
        "holds".into()
    }
}

fn check_cuts(seeds: &[u64], pieces: &[Piece]) -> String {
    let first = run_binary(seeds[0], pieces);
    for &s in &seeds[1..] {
        let o = run_binary(s, pieces);
        if o.exit_ok != first.exit_ok || o.csv != first.csv {
            return format!("fails cut pattern {} differs from {}", s, seeds[0]);
        }
    }
    "holds".into()
}

fn emit_hw(s: &mut Sink, label: &str, seed: u64, boards: &HwBoards) {
    let o = run_binary(seed, &hw_pieces(boards));
    let items = hw_items(boards);
    s.put(&format!("c20hw {} {}", seed, items), &observation(&o), label, !boards.is_empty());
    s.put(&format!("rel20time {} {}", seed, items), &check_truth(seed, boards, true), "rel-true-time", !boards.is_empty());
}

fn emit_cut_rel(s: &mut Sink, seeds: &[u64], boards: &HwBoards) {
    let ss: Vec<String> = seeds.iter().map(|x| x.to_string()).collect();
    s.put(
        &format!("rel20cut {} {}", ss.join("/"), hw_items(boards)),
        &check_cuts(seeds, &hw_pieces(boards)),
        "rel-cut-invariance",
        !boards.is_empty(),
    );
}

fn ts_word(ch: u8, t: u32, trailing: bool) -> [u8; 4] {
    ((((0x80 | ch as u32) << 24) | (t & 0xFFFFFE)) | trailing as u32).to_le_bytes()
}
fn mk_word(top: bool, c: u32) -> [u8; 4] {
    ((0xFFu32 << 24) | ((top as u32) << 23) | (c & 0x7FFFFF)).to_le_bytes()
}

pub fn run(tier: &str, seed: u64, s: &mut Sink) {
    let mut r = Rng::new(seed ^ 0xC20);
    let thorough = tier == "thorough";
    let reps = if thorough { 12 } else { 1 };
    let mut cutseed = move |r: &mut Rng| 1 + r.below(1 << 40);

    // ---- A. hardware-model streams: 0..=8 wraps x 1..=4 boards, three cut patterns each
    for rep in 0..reps {
        for wraps in 0..=8u64 {
            for nb in 1..=4usize {
                // which boards take part: any subset of size nb, listed ascending
                let mut ids = vec![1u8, 2, 3, 4];
                while ids.len() > nb {
                    let i = r.below(ids.len() as u64) as usize;
                    ids.remove(i);
                }
                let density = if nb >= 3 || wraps >= 6 { 2 } else { 3 };
                let boards: HwBoards = ids
                    .iter()
                    .map(|&b| {
                        // `wraps` full turns: 2*wraps markers, or one more (stream ends in the first half of a turn)
                        let markers = 2 * wraps + r.below(2);
                        (b, gen_hw(&mut r, markers, density))
                    })
                    .collect();
                let seeds = [if rep == 0 && nb == 1 { 0 } else { cutseed(&mut r) }, cutseed(&mut r), cutseed(&mut r)];
                for &cs in &seeds {
                    emit_hw(s, "hw-stream", cs, &boards);
                }
                emit_cut_rel(s, &seeds, &boards);
            }
        }
    }

    // ---- A2. deterministic sweep over 8 full wraps: in every window, edges at every offset -3..=3 around both of
    //          its markers, at the two extreme displacements and mid-window; all in one stream per variant
    for variant in 0..2u64 {
        let markers = 17 + variant;
        let mut evs = Vec::new();
        let mut n = 0u64;
        for k in 0..=markers {
            let lo = (k * HALF) as i64;
            let hi = ((k + 1) * HALF) as i64;
            let mut ts: Vec<i64> = Vec::new();
            for d in -3..=3 {
                ts.push(lo + d);
                ts.push(hi + d);
            }
            ts.push(lo - HALF as i64);
            ts.push(hi + HALF as i64 - 1);
            ts.push(lo + (HALF / 2) as i64);
            if variant == 1 {
                ts.reverse();
                evs.push(Hw::Scalers(k as u8));
            }
            for t in ts {
                if t >= 0 {
                    n += 1;
                    evs.push(Hw::Edge { t: t as u64, ch: (n % 59) as u8, trailing: n % 3 == 0 });
                }
            }
            if k < markers {
                evs.push(Hw::Marker(k));
            }
        }
        let boards: HwBoards = vec![(1 + 2 * variant as u8, evs)];
        let seeds = [cutseed(&mut r), cutseed(&mut r)];
        for &cs in &seeds {
            emit_hw(s, "hw-boundary-sweep", cs, &boards);
        }
        emit_cut_rel(s, &seeds, &boards);
    }

    // ---- B. single faults on hardware streams (one board)
    let n_fault = if thorough { 600 } else { 56 };
    for i in 0..n_fault {
        let markers = r.range(1, 7);
        let evs = gen_hw(&mut r, markers, 2);
        let b = r.range(1, 4) as u8;
        let mpos: Vec<usize> = evs.iter().enumerate().filter(|(_, e)| matches!(e, Hw::Marker(_))).map(|(i, _)| i).collect();
        let cs = cutseed(&mut r);
        match i % 4 {
            0 => {
                // dropped marker
                let mut f = evs.clone();
                f.remove(r.pick(&mpos));
                let boards = vec![(b, f)];
                let o = run_binary(cs, &hw_pieces(&boards));
                s.put(&format!("c20hw {} {}", cs, hw_items(&boards)), &observation(&o), "fault-dropped-marker", true);
                s.put(&format!("rel20some {} {}", cs, hw_items(&boards)), &check_truth(cs, &boards, false), "rel-fault-no-wrong-time", true);
            }
            1 => {
                // duplicated marker (immediately, or re-inserted a little later)
                let mut f = evs.clone();
                let p = r.pick(&mpos);
                let at = (p + 1 + r.below(3) as usize).min(f.len());
                f.insert(at, evs[p].clone());
                let boards = vec![(b, f)];
                let o = run_binary(cs, &hw_pieces(&boards));
                s.put(&format!("c20hw {} {}", cs, hw_items(&boards)), &observation(&o), "fault-duplicated-marker", true);
                s.put(&format!("rel20some {} {}", cs, hw_items(&boards)), &check_truth(cs, &boards, false), "rel-fault-no-wrong-time", true);
            }
            2 => {
                // truncated tail
                let mut bytes = hw_stream(&evs);
                let cut = match r.below(4) {
                    0 => 1 + r.below(3) as usize,
                    1 => 4 * r.below(1 + bytes.len() as u64 / 4) as usize,
                    _ => r.below(bytes.len() as u64 + 1) as usize,
                };
                bytes.truncate(bytes.len().saturating_sub(cut));
                emit_bytes(s, "fault-truncated-tail", cs, &[(b, bytes)]);
            }
            _ => {
                // corrupted word: one byte replaced, one bit flipped, or a word overwritten by an invalid one
                let mut bytes = hw_stream(&evs);
                if bytes.is_empty() {
                    bytes = mk_word(false, 0).to_vec();
                }
                let p = r.below(bytes.len() as u64) as usize;
                match r.below(4) {
                    0 => bytes[p] = r.next() as u8,
                    1 => bytes[p] ^= 1 << r.below(8),
                    2 => bytes[p | 3] = r.pick(&[0x00u8, 0x7F, 0x80 + 59, 0xFE, 0xBB]),
                    _ => bytes[p | 3] ^= 0x80,
                }
                emit_bytes(s, "fault-corrupted-word", cs, &[(b, bytes)]);
            }
        }
    }

    // ---- C. structural cases
    let m0 = mk_word(false, 0);
    let base: Vec<u8> = [
        &ts_word(3, 0x100, false)[..],
        &m0,
        &ts_word(5, 0x800010, false),
        &ts_word(6, 0x800020, true),
        &mk_word(true, 1),
        &ts_word(7, 0x30, false),
        &mk_word(false, 2),
        &ts_word(8, 0x800040, false),
        &ts_word(9, 0x800050, false), // F4: the last timestamp of the stream
    ]
    .concat();
    for cs in [0, 1, 2, 3] {
        emit_bytes(s, "struct-no-chronobox-bank", cs, &[]);
        emit_bytes(s, "struct-f4-last-timestamp", cs, &[(1, base.clone())]);
    }
    emit_bytes(s, "struct-empty-board", 0, &[(2, vec![])]);
    emit_bytes(s, "struct-empty-board", 5, &[(1, base.clone()), (3, vec![])]);
    emit_bytes(s, "struct-pieces", 0, &[(2, base[..10].to_vec()), (1, base.clone()), (2, base[10..].to_vec())]);
    emit_bytes(s, "struct-pieces", 7, &[(4, base[..3].to_vec()), (4, base[3..9].to_vec()), (1, m0.to_vec()), (4, base[9..].to_vec())]);
    // only scaler blocks; scaler block only; no marker at all
    emit_bytes(s, "struct-no-marker", 0, &[(1, hw_stream(&[Hw::Scalers(1)]))]);
    emit_bytes(s, "struct-no-marker", 9, &[(1, ts_word(1, 2, false).to_vec())]);
    // first marker is not counter 0 / counter 0 later / counter 0 twice / counter 0 with the top bit set
    let t1 = ts_word(11, 0x800100, true);
    let t2 = ts_word(12, 0x000200, false);
    for (label, words) in [
        ("struct-starts-at-marker-1", vec![&mk_word(true, 1)[..], &t2, &mk_word(false, 2), &t1, &mk_word(true, 3)]),
        ("struct-marker0-later", vec![&mk_word(true, 5), &t2, &mk_word(false, 6), &t1, &m0, &t1, &mk_word(true, 1), &t2, &mk_word(false, 2)]),
        ("struct-marker0-twice", vec![&m0, &t1, &mk_word(true, 1), &t2, &m0, &t1, &mk_word(true, 1), &t2, &mk_word(false, 2)]),
        ("struct-bad-first-marker", vec![&mk_word(true, 0), &t2, &mk_word(false, 1), &t1, &mk_word(true, 2)]),
        ("struct-bad-first-marker", vec![&t1, &mk_word(true, 0), &m0, &t1, &mk_word(true, 1)]),
        ("struct-same-top-bit", vec![&m0, &t1, &mk_word(false, 1), &t1, &mk_word(true, 2), &t2, &mk_word(false, 3)]),
        ("struct-marker-only", vec![&m0]),
        ("struct-marker-only", vec![&m0, &mk_word(true, 1), &mk_word(false, 2)]),
        // 23-bit counter exhausted: 2^23-1 + 1 is never a counter value
        ("struct-counter-wrap", vec![&m0, &t1, &mk_word(true, 0x7FFFFF), &t2, &m0, &t1, &mk_word(true, 1)]),
        ("struct-counter-wrap", vec![&m0, &t1, &mk_word(true, 0x7FFFFD), &t2, &mk_word(false, 0x7FFFFE), &t1, &mk_word(true, 0x7FFFFF), &t2, &mk_word(false, 0)]),
    ] {
        let bytes: Vec<u8> = words.concat();
        let cs = cutseed(&mut r);
        emit_bytes(s, label, cs, &[(r.range(1, 4) as u8, bytes)]);
    }
    // one good board, one bad board: the whole run fails
    emit_bytes(s, "struct-one-bad-board", cutseed(&mut r), &[(1, base.clone()), (2, base[..base.len() - 1].to_vec())]);
    emit_bytes(s, "struct-one-bad-board", cutseed(&mut r), &[(3, base[4..].to_vec()), (4, base[8..].to_vec())]);
    // large epoch: counters near the top of the 23-bit range give times near 2^47 ticks
    for c in [0x7FFFFCu32, 0x3FFFFF, 0x100000, 1001] {
        let top = c % 2 == 1;
        let ts_in = if top { 0x000123 } else { 0xFFFFFE };
        let words = [&m0[..], &mk_word(top, c), &ts_word(58, ts_in, true), &ts_word(0, ts_in ^ 0x800000, false), &mk_word(!top, c + 1)];
        emit_bytes(s, "struct-large-epoch", cutseed(&mut r), &[(1, words.concat())]);
    }

    // ---- D. streams from a word grammar (any counters / top bits / invalid words), several boards
    let n_rand = if thorough { 800 } else { 50 };
    for _ in 0..n_rand {
        let nb = r.range(1, 3) as usize;
        let mut pieces: Vec<Piece> = Vec::new();
        for _ in 0..nb {
            let b = r.range(1, 4) as u8;
            let mut v = Vec::new();
            let mut c = if r.chance(3, 4) { 0 } else { r.below(4) as u32 };
            let mut top = r.chance(1, 8);
            for _ in 0..r.below(14) {
                match r.below(12) {
                    0..=5 => {
                        let t = match r.below(3) {
                            0 => r.below(8) as u32,
                            1 => 0x800000 + r.below(8) as u32 - 4,
                            _ => r.next() as u32 & 0xFFFFFF,
                        };
                        v.extend(ts_word(r.below(59) as u8, t, r.chance(1, 2)));
                    }
                    6..=9 => {
                        v.extend(mk_word(top, c));
                        if !r.chance(1, 10) {
                            c += 1;
                        }
                        if !r.chance(1, 10) {
                            top = !top;
                        }
                    }
                    10 => v.extend(hw_stream(&[Hw::Scalers(r.next() as u8)])),
                    _ => {
                        if r.chance(1, 4) {
                            v.extend([r.next() as u8, 0, 0, r.pick(&[0xFEu8, 0x7F, 0xBB, 0xC0])]);
                        }
                    }
                }
            }
            pieces.push((b, v));
        }
        emit_bytes(s, "word-grammar", cutseed(&mut r), &pieces);
    }
    let _ = std::fs::remove_dir_all(scratch_root());
}

/// implementation observation for a case line of this module (None: not one of mine)
pub fn observe_line(line: &str) -> Option<String> {
    let f: Vec<&str> = line.split(' ').collect();
    if f.len() != 3 {
        return None;
    }
    let r = match f[0] {
        "c20" => observation(&run_binary(f[1].parse().ok()?, &parse_pieces(f[2]))),
        "c20hw" => observation(&run_binary(f[1].parse().ok()?, &hw_pieces(&hw_items_parse(f[2])))),
        "rel20time" => check_truth(f[1].parse().ok()?, &hw_items_parse(f[2]), true),
        "rel20some" => check_truth(f[1].parse().ok()?, &hw_items_parse(f[2]), false),
        "rel20cut" => {
            let seeds: Vec<u64> = f[1].split('/').map(|x| x.parse().unwrap()).collect();
            check_cuts(&seeds, &hw_pieces(&hw_items_parse(f[2])))
        }
        _ => return None,
    };
    let _ = std::fs::remove_dir_all(scratch_root());
    Some(r)
}
