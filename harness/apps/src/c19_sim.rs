// C19, simulated-like main events with full wire + pad data (included by c19.rs).
//
// Minimal copies of the bank builders of harness/phys/src/c10.rs (ADC v3 packets, PWB v2 payloads cut into
// chunks with valid CRC-32C, bank names) and of `geometry` / `sim_event` of harness/phys/src/c11.rs: a few
// tracks of response-shaped wire and pad pulses over noise, which the library reconstructs (the "radial"
// variant, n straight tracks from one point on the axis, gives `vertex()` = Some in about half of the
// events).  Everything is derived from one seed, so an event is rebuilt from (run, seed, ntracks) alone.
// Needs the hooks of `alpha_g_physics::verif` (the apps harness is compiled with `--cfg alpha_g_verif`).
use crate::util::*;
use alpha_g_detector::alpha16::aw_map::TpcWirePosition;
use alpha_g_detector::alpha16::{self, Adc32ChannelId};
use alpha_g_detector::padwing::map::TpcPadPosition;
use alpha_g_detector::padwing::{self, AfterId, PadChannelId};
use std::collections::HashMap;

#[derive(Clone, Debug)]
pub struct Bank {
    pub name: String,
    pub data: Vec<u8>,
}

// ---------------------------------------------------------------------------------------------
// boards known to the detector crate (discovered through its public API)
// ---------------------------------------------------------------------------------------------
pub struct A16Board {
    pub name: String,
    pub mac: [u8; 6],
}
pub struct PwbBoard {
    pub name: String,
    pub mac: [u8; 6],
    pub dev: u32,
}
pub struct World {
    pub a16: Vec<A16Board>,
    pub pwb: Vec<PwbBoard>,
}
pub fn world() -> World {
    let mut a16 = Vec::new();
    let mut pwb = Vec::new();
    for i in 0..100u32 {
        let n = format!("{:02}", i);
        if let Ok(b) = alpha16::BoardId::try_from(&n[..]) {
            a16.push(A16Board { name: n.clone(), mac: b.mac_address() });
        }
        if let Ok(b) = padwing::BoardId::try_from(&n[..]) {
            pwb.push(PwbBoard { name: n.clone(), mac: b.mac_address(), dev: b.device_id() });
        }
    }
    World { a16, pwb }
}

// ---------------------------------------------------------------------------------------------
// packet builders (documented layouts)
// ---------------------------------------------------------------------------------------------
/// floor of the mean of the first 64 samples (the suppression baseline the decoder recomputes)
fn adc_baseline(samples: &[i16]) -> i16 {
    let sum: i32 = samples.iter().take(64).map(|&x| x as i32).sum();
    sum.div_euclid(64) as i16
}
/// ADC v3 long packet, suppression disabled
fn adc_long(mac: [u8; 6], chan_byte: u8, samples: &[i16]) -> Vec<u8> {
    let req = (samples.len() + 2) as u16;
    let mut b = vec![1u8, 3, 0, 4, 5, chan_byte];
    b.extend_from_slice(&req.to_be_bytes());
    b.extend_from_slice(&[0, 0, 0, 7, 0, 0]);
    b.extend_from_slice(&mac);
    b.extend_from_slice(&[0; 12]);
    for s in samples {
        b.extend_from_slice(&s.to_be_bytes());
    }
    b.extend_from_slice(&0u16.to_be_bytes());
    b.extend_from_slice(&adc_baseline(samples).to_be_bytes());
    b
}
fn chunk(device_id: u32, after: u8, flags: u8, id: u16, payload: &[u8]) -> Vec<u8> {
    let mut b = Vec::new();
    b.extend_from_slice(&device_id.to_le_bytes());
    b.extend_from_slice(&1u32.to_le_bytes());
    b.extend_from_slice(&1u16.to_le_bytes());
    b.push(after);
    b.push(flags);
    b.extend_from_slice(&id.to_le_bytes());
    b.extend_from_slice(&(payload.len() as u16).to_le_bytes());
    let c = !crc32c::crc32c(&b[..16]);
    b.extend_from_slice(&c.to_le_bytes());
    b.extend_from_slice(payload);
    while b.len() % 4 != 0 {
        b.push(0);
    }
    let c = !crc32c::crc32c(&b[20..]);
    b.extend_from_slice(&c.to_le_bytes());
    b
}
/// PWB v2 payload; `chans` = (readout index 1..=79, samples of length nsamp), ascending readout index
fn pwb_payload(mac: [u8; 6], chip_letter: u8, nsamp: u16, chans: &[(u16, Vec<i16>)]) -> Vec<u8> {
    let mut b = vec![2u8, chip_letter, 0, 0];
    b.extend_from_slice(&mac);
    b.extend_from_slice(&[0, 0]);
    b.extend_from_slice(&[1, 0, 0, 0, 0, 0, 0, 0]);
    b.extend_from_slice(&[0, 0]);
    b.extend_from_slice(&nsamp.to_le_bytes());
    let mut mask: u128 = 0;
    for (c, _) in chans {
        mask |= 1u128 << (c - 1);
    }
    b.extend_from_slice(&mask.to_le_bytes()[..10]);
    b.extend_from_slice(&mask.to_le_bytes()[..10]);
    b.extend_from_slice(&[0; 8]);
    for (c, w) in chans {
        b.extend_from_slice(&c.to_le_bytes());
        b.extend_from_slice(&nsamp.to_le_bytes());
        for s in w {
            b.extend_from_slice(&s.to_le_bytes());
        }
        if nsamp % 2 == 1 {
            b.extend_from_slice(&[0, 0]);
        }
    }
    b.extend_from_slice(&[0xCC; 4]);
    b
}
/// split a payload into `n` chunks (all but the last of equal length), ids 0.., last one flagged
fn split_chunks(dev: u32, after: u8, payload: &[u8], n: usize) -> Vec<Vec<u8>> {
    let n = n.max(1).min(payload.len().max(1));
    let per = ((payload.len() + n - 1) / n).max(1);
    let parts: Vec<&[u8]> = payload.chunks(per).collect();
    let k = parts.len();
    parts.iter().enumerate().map(|(i, p)| chunk(dev, after, (i + 1 == k) as u8, i as u16, p)).collect()
}
fn wire_name(board: &str, chan: u8) -> String {
    let d = std::char::from_digit(chan as u32, 32).unwrap().to_ascii_uppercase();
    format!("C{}{}", board, d)
}

// ---------------------------------------------------------------------------------------------
// geometry of a run: which board / channel reads which wire and pad
// ---------------------------------------------------------------------------------------------
pub struct Geometry {
    /// wire index -> (a16 board index, channel)
    pub wire: HashMap<usize, (usize, u8)>,
    /// (column, row) -> (pwb board index, chip, readout index)
    pub pad: HashMap<(usize, usize), (usize, u8, u16)>,
}
pub fn geometry(w: &World, run: u32) -> Geometry {
    let mut wire = HashMap::new();
    for (bi, b) in w.a16.iter().enumerate() {
        let id = alpha16::BoardId::try_from(&b.name[..]).unwrap();
        for c in 0..32u8 {
            if let Ok(p) = TpcWirePosition::try_new(run, id, Adc32ChannelId::try_from(c).unwrap()) {
                wire.insert(usize::from(p), (bi, c));
            }
        }
    }
    // readout index of each pad channel
    let mut readout = HashMap::new();
    for ro in 1..=79u16 {
        if let Ok(padwing::ChannelId::Pad(pc)) = padwing::ChannelId::try_from(ro) {
            readout.insert((1..=72u16).find(|&i| PadChannelId::try_from(i).unwrap() == pc).unwrap(), ro);
        }
    }
    let mut pad = HashMap::new();
    for (bi, b) in w.pwb.iter().enumerate() {
        let id = padwing::BoardId::try_from(&b.name[..]).unwrap();
        for (ci, chip) in [AfterId::A, AfterId::B, AfterId::C, AfterId::D].into_iter().enumerate() {
            for pc in 1..=72u16 {
                if let Ok(p) = TpcPadPosition::try_new(run, id, chip, PadChannelId::try_from(pc).unwrap()) {
                    pad.insert((usize::from(p.column), usize::from(p.row)), (bi, ci as u8, readout[&pc]));
                }
            }
        }
    }
    Geometry { wire, pad }
}

fn add_pulse(sig: &mut [f64], t0: usize, amp: f64, resp: &[f64]) {
    for (k, v) in resp.iter().enumerate() {
        if t0 + k < sig.len() {
            sig[t0 + k] += amp * v;
        }
    }
}

/// wire and pad banks (no TRG bank) of an event with tracks of hits.  `ntracks` >= 10: `ntracks - 10`
/// straight tracks from one point on the axis; otherwise `ntracks` runs of consecutive wires with growing
/// drift time and pad rows moving along z.  The caller adds the TRG bank and shuffles.
pub fn sim_banks(w: &World, g: &Geometry, r: &mut Rng, run: u32, ntracks: usize, noise: i64) -> Vec<Bank> {
    let wresp = alpha_g_physics::verif::wire_response();
    let presp = alpha_g_physics::verif::pad_response();
    let wmax = wresp.iter().fold(0f64, |a, b| a.max(b.abs())).max(1e-9);
    let pmax = presp.iter().fold(0f64, |a, b| a.max(b.abs())).max(1e-9);
    let nw = 400usize; // ADC samples
    let np = 400usize; // PWB samples
    let mut wires: HashMap<usize, Vec<f64>> = HashMap::new();
    let mut pads: HashMap<(usize, usize), Vec<f64>> = HashMap::new();
    let radial = ntracks >= 10;
    let ntracks = if radial { ntracks - 10 } else { ntracks };
    let tables = alpha_g_physics::verif::drift_tables();
    let zv = (r.below(1600) as f64 - 800.0) / 1000.0;
    for _ in 0..ntracks {
        if radial {
            let phi0 = r.below(6283) as f64 / 1000.0;
            let slope = (r.below(2000) as f64 - 1000.0) / 1000.0;
            let amp = r.range(900, 2500) as f64;
            for k in 0..22 {
                let rad = 0.181 - 0.0032 * k as f64;
                let z = zv + slope * rad;
                if z.abs() > 1.14 {
                    continue;
                }
                let Some((table, _)) = tables.iter().find(|(_, zu)| *zu >= z.abs()) else { continue };
                let Some(&(t, _, corr)) =
                    table.iter().min_by(|a, b| (a.1 - rad).abs().partial_cmp(&(b.1 - rad).abs()).unwrap())
                else {
                    continue;
                };
                let phi = (phi0 + corr).rem_euclid(2.0 * std::f64::consts::PI);
                let shifted = (phi / (2.0 * std::f64::consts::PI / 256.0)).floor() as usize % 256;
                let wi = (shifted + 8) & 0xff;
                let bin = 3 + (t / 16e-9).round() as usize;
                let row = (((z + 1.152) / 0.004).floor() as i64).clamp(0, 575);
                add_pulse(wires.entry(wi).or_insert_with(|| vec![0.0; nw]), bin, amp / wmax, &wresp);
                let col = alpha_g_physics::verif::wire_to_pad_column(wi);
                for (dr, f) in [(-1i64, 0.35), (0, 1.0), (1, 0.45)] {
                    let rr = row + dr;
                    if (0..576).contains(&rr) {
                        let p = pads.entry((col, rr as usize)).or_insert_with(|| vec![0.0; np]);
                        add_pulse(p, bin.saturating_sub(1), 0.6 * f * amp / pmax, &presp);
                    }
                }
            }
            continue;
        }
        let w0 = r.below(256) as usize;
        let len = r.range(14, 26) as usize;
        let dir: i64 = if r.chance(1, 2) { 1 } else { -1 };
        let row0 = r.range(100, 470) as i64;
        let drow = r.range(0, 4) as i64 - 2;
        let dt = r.range(2, 9) as usize;
        let amp = r.range(600, 2500) as f64;
        for j in 0..len {
            let wi = ((w0 as i64 + dir * j as i64).rem_euclid(256)) as usize;
            let t = 5 + dt * j;
            add_pulse(wires.entry(wi).or_insert_with(|| vec![0.0; nw]), t, amp / wmax, &wresp);
            let col = alpha_g_physics::verif::wire_to_pad_column(wi);
            let row = row0 + drow * j as i64;
            for (dr, f) in [(-1i64, 0.35), (0, 1.0), (1, 0.45)] {
                let rr = row + dr;
                if (0..576).contains(&rr) {
                    let p = pads.entry((col, rr as usize)).or_insert_with(|| vec![0.0; np]);
                    add_pulse(p, t.saturating_sub(1), 0.6 * f * amp / pmax, &presp);
                }
            }
        }
    }
    let mut banks = Vec::new();
    let mut keys: Vec<usize> = wires.keys().copied().collect();
    keys.sort();
    for wi in keys {
        let Some(&(bi, c)) = g.wire.get(&wi) else { continue };
        let Ok((bl, gain, delay)) = alpha_g_physics::verif::wire_calibration(run, wi) else { continue };
        let sig = &wires[&wi];
        let n = delay + sig.len();
        let raw: Vec<i16> = (0..n)
            .map(|i| {
                let s = if i >= delay { sig[i - delay] / gain } else { 0.0 };
                let nz = r.below(2 * noise as u64 + 1) as i64 - noise;
                (bl as f64 + s).round().clamp(-32000.0, 32000.0) as i16 + nz as i16
            })
            .collect();
        banks.push(Bank { name: wire_name(&w.a16[bi].name, c), data: adc_long(w.a16[bi].mac, 128 + c, &raw) });
    }
    // pads grouped by (board, chip)
    let mut groups: HashMap<(usize, u8), Vec<(u16, Vec<i16>)>> = HashMap::new();
    let mut nsamp = 0usize;
    let mut pkeys: Vec<(usize, usize)> = pads.keys().copied().collect();
    pkeys.sort();
    for key in pkeys {
        let Some(&(bi, chip, ro)) = g.pad.get(&key) else { continue };
        let Ok((bl, gain, delay)) = alpha_g_physics::verif::pad_calibration(run, key.0, key.1) else { continue };
        let sig = &pads[&key];
        nsamp = (delay + sig.len()).min(511);
        let raw: Vec<i16> = (0..nsamp)
            .map(|i| {
                let s = if i >= delay { sig[i - delay] / gain } else { 0.0 };
                let nz = r.below(2 * noise as u64 + 1) as i64 - noise;
                (bl as f64 + s).round().clamp(-2040.0, 2040.0) as i16 + nz as i16
            })
            .collect();
        groups.entry((bi, chip)).or_default().push((ro, raw));
    }
    let mut gk: Vec<(usize, u8)> = groups.keys().copied().collect();
    gk.sort();
    for (bi, chip) in gk {
        let mut chans = groups[&(bi, chip)].clone();
        chans.sort_by_key(|c| c.0);
        let payload = pwb_payload(w.pwb[bi].mac, b'A' + chip, nsamp as u16, &chans);
        let k = r.range(1, 3) as usize;
        for d in split_chunks(w.pwb[bi].dev, chip, &payload, k) {
            banks.push(Bank { name: format!("PC{}", w.pwb[bi].name), data: d });
        }
    }
    banks
}
