// Harness for the properties decided on the analysis binaries (C19, C20).
//   vapps gen <property> <tier> <seed> <outdir>   writes cases.txt / impl.txt / meta.txt
//   vapps obs < cases                             prints the implementation's observation per case line
// One module per property; each exports `run(tier, seed, &mut Sink)` and `observe_line(&str) -> Option<String>`.
#[path = "../../det/src/util.rs"]
mod util;

macro_rules! properties {
    ($($m:ident => $id:literal),* $(,)?) => {
        $(mod $m;)*
        fn run_property(prop: &str, tier: &str, seed: u64, sink: &mut util::Sink) -> bool {
            match prop {
                $($id => { $m::run(tier, seed, sink); true })*
                _ => false,
            }
        }
        fn observe_line(line: &str) -> String {
            $(if let Some(o) = $m::observe_line(line) { return o; })*
            "unknown-case".to_string()
        }
    };
}

properties! { c19 => "C19", c20 => "C20" }

fn main() {
    util::harness_main(run_property, observe_line);
}
