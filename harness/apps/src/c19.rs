// C19: vertex / trg-scaler CSVs — one row per main event, in run order, with unwrapped time.
//
// The harness writes whole MIDAS runs (1..=4 files, `.mid` and `.mid.lz4`), runs the REAL binaries
// `alpha-g-vertices` and `alpha-g-trg-scalers` (from $VERIF_ANALYSIS_BIN) on them under every order of the
// file arguments and RAYON_NUM_THREADS in {1,2,5,16}, parses the CSV they write and prints one observation
// per (run, argument order).  The case line carries the abstract description of the run from which the files
// are rebuilt deterministically (so a case line replays without the PRNG) and from which the Coq model
// (coq/Apps/Rows.v, coq/Apps/FileOrder.v) computes the same observation.
//
// case lines
//   c19 <perm> <run>        observation  V=<rows|fail> S=<rows|fail>
//   relc19t <perm> <run>    vertices CSV byte-identical for RAYON_NUM_THREADS 1,2,5,16 (comment lines stripped)
//   relc19p <perms> <run>   both CSVs byte-identical for every listed argument order
//   relc19l <perm> <run>    CSV rows = the scan re-stated here over what the library returns in-process
// <perm>  = file indices in command-line order, e.g. 2013 (an index may repeat: same file given twice)
// <run>   = <file>/<file>/...      <file> = run,t0,t1,ext:<ev>;<ev>;...   (ext `-` = no extension)
// <ev>    = id.kind.vs.serial.ts.in.drift.sd.pulser.out     (decimal; kind = one letter, see `banks`;
//           vs = two flags: decodable by vertices / by scalers, see `decodable`)
//           kind `w` (full simulated wire + pad data, see c19_sim.rs) has three more fields: .seed.ntracks.x_y_z
//           seed (hex) and ntracks rebuild the banks; x_y_z = the vertex columns the library returns in-process
//           for these banks (`vertex()`; 16 hex digits each = f64 bits, or `-_-_-` for no vertex).  The model
//           carries them as the opaque payload of the row, so that the row of the real binary must show exactly
//           these three numbers (printed decimal -> same f64 bits), in this order, on the row of this event.
#[path = "c19_sim.rs"]
mod sim;
use crate::util::*;
use alpha_g_detector::trigger::TrgPacket;
use alpha_g_physics::MainEvent;
use std::io::Write;
use std::path::{Path, PathBuf};
use std::process::{Command, Stdio};

pub const THREADS: [u32; 4] = [1, 2, 5, 16];
const KINDS_OK: [char; 8] = ['g', 'g', 'g', 'g', 'j', 'j', 'j', 'J'];
const KINDS_BAD: [char; 10] = ['u', 'a', 'c', 'h', 'r', 'm', 't', 'd', 'b', 'c'];

#[derive(Clone, Debug, PartialEq)]
pub struct Ev {
    pub id: u16,
    pub kind: char,
    pub serial: u32,
    pub ts: u32,
    pub inp: u32,
    pub drift: u32,
    pub sd: u32,
    pub pulser: u32,
    pub out: u32,
    /// kind `w` only
    pub sim: Option<Sim>,
}

/// a simulated-like event with wire and pad data: how to rebuild it, and what the library makes of it
#[derive(Clone, Debug, PartialEq)]
pub struct Sim {
    pub seed: u64,
    pub nt: u32,
    /// MainEvent::try_from_banks = Ok (in-process)
    pub dec: bool,
    /// bits of vertex().{x,y,z} (in-process)
    pub vtx: Option<[u64; 3]>,
}

#[derive(Clone, Debug, PartialEq)]
pub struct FileD {
    pub run: u32,
    pub t0: u32,
    pub t1: u32,
    pub ext: String,
    pub evs: Vec<Ev>,
}

// ---------------------------------------------------------------------------------------------
// case-line syntax
// ---------------------------------------------------------------------------------------------
pub fn show_run(fs: &[FileD]) -> String {
    fs.iter()
        .map(|f| {
            let evs: Vec<String> = f
                .evs
                .iter()
                .map(|e| {
                    // the two flags say whether the vertices / the scalers binary can decode the event:
                    // they follow from the kind by construction (see `banks`) and are what the model reads
                    let (dv, ds) = decodable(e);
                    let base = format!(
                        "{}.{}.{}{}.{}.{}.{}.{}.{}.{}.{}",
                        e.id, e.kind, dv as u8, ds as u8, e.serial, e.ts, e.inp, e.drift, e.sd, e.pulser, e.out
                    );
                    match &e.sim {
                        Some(m) => format!("{base}.{:x}.{}.{}", m.seed, m.nt, show_vtx(&m.vtx)),
                        None => base,
                    }
                })
                .collect();
            let ext = if f.ext.is_empty() { "-" } else { &f.ext };
            format!("{},{},{},{}:{}", f.run, f.t0, f.t1, ext, evs.join(";"))
        })
        .collect::<Vec<_>>()
        .join("/")
}

pub fn parse_run(s: &str) -> Option<Vec<FileD>> {
    let mut out = Vec::new();
    for f in s.split('/') {
        let (head, evs) = f.split_once(':')?;
        let h: Vec<&str> = head.split(',').collect();
        if h.len() != 4 {
            return None;
        }
        let mut v = Vec::new();
        for e in evs.split(';').filter(|x| !x.is_empty()) {
            let p: Vec<&str> = e.split('.').collect();
            if p.len() != 10 && p.len() != 13 {
                return None;
            }
            let kind = p[1].chars().next()?;
            if (kind == 'w') != (p.len() == 13) {
                return None;
            }
            let sim = if p.len() == 13 {
                Some(Sim {
                    seed: u64::from_str_radix(p[10], 16).ok()?,
                    nt: p[11].parse().ok()?,
                    dec: p[2].starts_with('1'),
                    vtx: parse_vtx(p[12])?,
                })
            } else {
                None
            };
            v.push(Ev {
                id: p[0].parse().ok()?,
                kind,
                serial: p[3].parse().ok()?,
                ts: p[4].parse().ok()?,
                inp: p[5].parse().ok()?,
                drift: p[6].parse().ok()?,
                sd: p[7].parse().ok()?,
                pulser: p[8].parse().ok()?,
                out: p[9].parse().ok()?,
                sim,
            });
        }
        out.push(FileD {
            run: h[0].parse().ok()?,
            t0: h[1].parse().ok()?,
            t1: h[2].parse().ok()?,
            ext: if h[3] == "-" { String::new() } else { h[3].to_string() },
            evs: v,
        });
    }
    Some(out)
}

fn show_vtx(v: &Option<[u64; 3]>) -> String {
    match v {
        Some(b) => format!("{:016x}_{:016x}_{:016x}", b[0], b[1], b[2]),
        None => "-_-_-".to_string(),
    }
}
fn parse_vtx(s: &str) -> Option<Option<[u64; 3]>> {
    if s == "-_-_-" {
        return Some(None);
    }
    let c: Vec<&str> = s.split('_').collect();
    if c.len() != 3 || c.iter().any(|x| x.len() != 16) {
        return None;
    }
    Some(Some([
        u64::from_str_radix(c[0], 16).ok()?,
        u64::from_str_radix(c[1], 16).ok()?,
        u64::from_str_radix(c[2], 16).ok()?,
    ]))
}

fn show_perm(p: &[usize]) -> String {
    p.iter().map(|i| i.to_string()).collect()
}
fn parse_perm(s: &str, n: usize) -> Option<Vec<usize>> {
    let p: Vec<usize> = s.chars().map(|c| c.to_digit(10).map(|d| d as usize)).collect::<Option<_>>()?;
    if p.is_empty() || p.iter().any(|&i| i >= n) {
        return None;
    }
    Some(p)
}

// ---------------------------------------------------------------------------------------------
// MIDAS writer (midasio 0.5.3 layout: little endian, BANK32 = flags 17, data type 6 = u32 words)
// ---------------------------------------------------------------------------------------------
fn trg_words(e: &Ev) -> [u32; 20] {
    let mut w = [0u32; 20];
    w[0] = e.serial & 0x7FFF_FFFF;
    w[1] = 0x8000_0000 | (e.out & 0x0FFF_FFFF);
    w[2] = e.ts;
    w[3] = e.out;
    w[4] = e.inp;
    w[5] = e.pulser;
    w[6] = 0x11;
    w[7] = 0x22;
    w[8] = 0x33;
    w[9] = 0x8000_0005;
    w[10] = e.drift;
    w[11] = e.sd;
    w[12] = 0;
    w[13] = 0x0007_0009;
    w[14] = 1;
    w[15] = 2;
    w[16] = 3;
    w[17] = 4;
    w[18] = 0xABCD;
    w[19] = 0xE000_0000 | (e.out & 0x0FFF_FFFF);
    w
}
fn words_bytes(w: &[u32]) -> Vec<u8> {
    w.iter().flat_map(|x| x.to_le_bytes()).collect()
}

/// the banks of an event of the given kind: (name, data)
///   g  valid TRG bank only                         j  TRBA junk, valid TRG, MCVX junk (both ignored by the library)
///   J  70 000-byte TRBA bank + valid TRG (spans LZ4 blocks)
///   u  valid TRG + bank `XYZW` (unknown name)      a  bank `AAAA` (bad trigger name) + valid TRG
///   c  TRG bank of 76 bytes                        h  TRG bank with a wrong header mark
///   r  TRG bank with a reserved word set           m  no bank at all
///   t  only a TRBA bank (TRG missing)              d  two valid TRG banks
///   b  only a `CBF1` bank
/// (decodable by alpha-g-vertices, decodable by alpha-g-trg-scalers) for an event built by `banks`:
/// vertices needs every bank name known and exactly one valid TRG bank; scalers looks at `ATAT` banks only
///   w  wire (ADC v3) and pad (PWB chunks) banks of a simulated-like event + valid TRG, shuffled (c19_sim.rs)
pub fn decodable(e: &Ev) -> (bool, bool) {
    match e.kind {
        'g' | 'j' | 'J' => (true, true),
        // whether the library accepts the wire and pad banks is measured in-process when the event is generated
        'w' => (e.sim.as_ref().map_or(false, |m| m.dec), true),
        'u' | 'a' => (false, true),
        _ => (false, false),
    }
}

pub fn banks(run: u32, e: &Ev) -> Vec<(String, Vec<u8>)> {
    if e.kind == 'w' {
        return sim_event_banks(run, e);
    }
    banks_plain(e).into_iter().map(|(n, d)| (n.to_string(), d)).collect()
}

fn banks_plain(e: &Ev) -> Vec<(&'static str, Vec<u8>)> {
    let good = words_bytes(&trg_words(e));
    let junk = |n: usize| -> Vec<u8> { (0..n).map(|i| (i as u8).wrapping_mul(37).wrapping_add(e.serial as u8)).collect() };
    match e.kind {
        'g' => vec![("ATAT", good)],
        'j' => vec![("TRBA", junk(8)), ("ATAT", good), ("MCVX", junk(12))],
        // a bank larger than an LZ4 block (64 KiB) and than the decoder's buffer
        'J' => vec![("TRBA", junk(70_000)), ("ATAT", good)],
        'u' => vec![("ATAT", good), ("XYZW", junk(4))],
        'a' => vec![("AAAA", junk(4)), ("ATAT", good)],
        'c' => vec![("ATAT", good[..76].to_vec())],
        'h' => {
            let mut w = trg_words(e);
            w[1] = 0x9000_0000 | (w[1] & 0x0FFF_FFFF);
            vec![("ATAT", words_bytes(&w))]
        }
        'r' => {
            let mut w = trg_words(e);
            w[12] = 1;
            vec![("ATAT", words_bytes(&w))]
        }
        'm' => vec![],
        't' => vec![("TRBA", junk(16))],
        'd' => vec![("ATAT", good.clone()), ("ATAT", good)],
        'b' => vec![("CBF1", junk(8))],
        _ => vec![],
    }
}

// ---------------------------------------------------------------------------------------------
// kind `w`: simulated-like events with wire and pad data
// ---------------------------------------------------------------------------------------------
/// run numbers for which the maps and the calibration exist and the simulated-like events reconstruct
pub const SIM_RUNS: [u32; 2] = [u32::MAX, 11192];
const SIM_NOISE: i64 = 3;

fn with_geometry<T>(run: u32, f: impl FnOnce(&sim::World, &sim::Geometry) -> T) -> T {
    use std::collections::HashMap;
    use std::sync::{Mutex, OnceLock};
    static WORLD: OnceLock<sim::World> = OnceLock::new();
    static GEO: OnceLock<Mutex<HashMap<u32, std::sync::Arc<sim::Geometry>>>> = OnceLock::new();
    let w = WORLD.get_or_init(sim::world);
    let g = {
        let mut m = GEO.get_or_init(|| Mutex::new(HashMap::new())).lock().unwrap();
        m.entry(run).or_insert_with(|| std::sync::Arc::new(sim::geometry(w, run))).clone()
    };
    f(w, &g)
}

/// the banks of a `w` event, rebuilt from (run, seed, ntracks) and the TRG fields: wire and pad banks, the
/// TRG bank of the event, in an order shuffled as a MIDAS event may deliver it
fn sim_event_banks(run: u32, e: &Ev) -> Vec<(String, Vec<u8>)> {
    let Some(m) = &e.sim else { return vec![] };
    let mut r = Rng::new(m.seed);
    let mut bs: Vec<(String, Vec<u8>)> =
        with_geometry(run, |w, g| sim::sim_banks(w, g, &mut r, run, m.nt as usize, SIM_NOISE))
            .into_iter()
            .map(|b| (b.name, b.data))
            .collect();
    bs.push(("ATAT".to_string(), words_bytes(&trg_words(e))));
    for i in (1..bs.len()).rev() {
        let j = r.below(i as u64 + 1) as usize;
        bs.swap(i, j);
    }
    bs
}

/// what the library makes of a main event in this process: None = try_from_banks fails, otherwise the
/// timestamp and the bits of vertex().  Cached for `w` events (reconstruction costs 50..200 ms).
fn lib_vertex(run: u32, e: &Ev) -> Option<(u32, Option<[u64; 3]>)> {
    use std::collections::HashMap;
    use std::sync::{Mutex, OnceLock};
    type Key = (u32, u64, u32, u32);
    static CACHE: OnceLock<Mutex<HashMap<Key, Option<(u32, Option<[u64; 3]>)>>>> = OnceLock::new();
    let key = e.sim.as_ref().map(|m| (run, m.seed, m.nt, e.ts));
    if let Some(k) = &key {
        if let Some(v) = CACHE.get_or_init(|| Mutex::new(HashMap::new())).lock().unwrap().get(k) {
            return *v;
        }
    }
    let bs = banks(run, e);
    let v = match MainEvent::try_from_banks(run, bs.iter().map(|(n, d)| (&n[..], &d[..]))) {
        Ok(m) => Some((m.timestamp(), m.vertex().map(|p| [p.x.value.to_bits(), p.y.value.to_bits(), p.z.value.to_bits()]))),
        Err(_) => None,
    };
    if let Some(k) = key {
        CACHE.get_or_init(|| Mutex::new(HashMap::new())).lock().unwrap().insert(k, v);
    }
    v
}

/// a `w` event with the in-process result of the library filled in
fn sim_ev(run: u32, serial: u32, ts: u32, c: [u32; 5], seed: u64, nt: u32) -> Ev {
    let mut e = Ev {
        id: 1,
        kind: 'w',
        serial,
        ts,
        inp: c[0],
        drift: c[1],
        sd: c[2],
        pulser: c[3],
        out: c[4],
        sim: Some(Sim { seed, nt, dec: false, vtx: None }),
    };
    let v = lib_vertex(run, &e);
    e.sim = Some(Sim { seed, nt, dec: v.is_some(), vtx: v.and_then(|x| x.1) });
    e
}

fn event_bytes(run: u32, e: &Ev, unix: u32) -> Vec<u8> {
    let mut body = Vec::new();
    for (name, data) in banks(run, e) {
        body.extend_from_slice(name.as_bytes());
        // data type 6 = u32 words; packets whose length is not a multiple of 4 are byte banks (type 1), because
        // midasio wants the data length to be a multiple of the item size
        let ty: u32 = if data.len() % 4 == 0 { 6 } else { 1 };
        body.extend_from_slice(&ty.to_le_bytes());
        body.extend_from_slice(&(data.len() as u32).to_le_bytes());
        body.extend_from_slice(&data);
        // midasio pads the DATA area of a bank to a multiple of 8 bytes (the 12-byte header is not counted)
        for _ in 0..(8 - data.len() % 8) % 8 {
            body.push(0);
        }
    }
    let mut v = Vec::new();
    v.extend_from_slice(&e.id.to_le_bytes());
    v.extend_from_slice(&0u16.to_le_bytes()); // trigger mask
    v.extend_from_slice(&e.serial.to_le_bytes());
    v.extend_from_slice(&unix.to_le_bytes());
    v.extend_from_slice(&((body.len() + 8) as u32).to_le_bytes());
    v.extend_from_slice(&(body.len() as u32).to_le_bytes());
    v.extend_from_slice(&17u32.to_le_bytes());
    v.extend_from_slice(&body);
    v
}

pub fn midas_bytes(f: &FileD) -> Vec<u8> {
    let mut v = Vec::new();
    let bor = b"begin of run odb dump";
    v.extend_from_slice(&0x8000u16.to_le_bytes());
    v.extend_from_slice(&0x494Du16.to_le_bytes());
    v.extend_from_slice(&f.run.to_le_bytes());
    v.extend_from_slice(&f.t0.to_le_bytes());
    v.extend_from_slice(&(bor.len() as u32).to_le_bytes());
    v.extend_from_slice(bor);
    for e in &f.evs {
        v.extend_from_slice(&event_bytes(f.run, e, f.t0));
    }
    // the final dump is shorter than 8 bytes so that the end-of-run header can never parse as an event
    let eor = b"eor";
    v.extend_from_slice(&0x8001u16.to_le_bytes());
    v.extend_from_slice(&0x494Du16.to_le_bytes());
    v.extend_from_slice(&f.run.to_le_bytes());
    v.extend_from_slice(&f.t1.to_le_bytes());
    v.extend_from_slice(&(eor.len() as u32).to_le_bytes());
    v.extend_from_slice(eor);
    v
}

fn file_name(i: usize, f: &FileD) -> String {
    // `.mid.lz4` as at the experiment; any other extension replaces the `mid`
    match f.ext.as_str() {
        "" => format!("f{i}"),
        "lz4" => format!("f{i}.mid.lz4"),
        x => format!("f{i}.{x}"),
    }
}

/// write the files of a run into `dir`; returns the file names (relative to dir)
pub fn write_run(dir: &Path, fs: &[FileD]) -> Vec<String> {
    std::fs::create_dir_all(dir).unwrap();
    let mut names = Vec::new();
    for (i, f) in fs.iter().enumerate() {
        let name = file_name(i, f);
        let raw = midas_bytes(f);
        let bytes = if f.ext == "lz4" {
            // LZ4 frame format, which is what lz4::Decoder reads
            let mut enc = lz4::EncoderBuilder::new().level(1).build(Vec::new()).unwrap();
            enc.write_all(&raw).unwrap();
            let (out, r) = enc.finish();
            r.unwrap();
            out
        } else {
            raw
        };
        std::fs::write(dir.join(&name), bytes).unwrap();
        names.push(name);
    }
    names
}

// ---------------------------------------------------------------------------------------------
// running the binaries, reading their CSV
// ---------------------------------------------------------------------------------------------
fn bin_dir() -> PathBuf {
    if let Ok(d) = std::env::var("VERIF_ANALYSIS_BIN") {
        return PathBuf::from(d);
    }
    // .build/cargo-apps/release/vapps -> .build/cargo-analysis/release
    let exe = std::env::current_exe().unwrap();
    exe.parent().unwrap().parent().unwrap().parent().unwrap().join("cargo-analysis").join("release")
}

#[derive(Clone, Copy, PartialEq)]
pub enum Bin {
    Vertices,
    Scalers,
}
impl Bin {
    fn exe(self) -> &'static str {
        match self {
            Bin::Vertices => "alpha-g-vertices",
            Bin::Scalers => "alpha-g-trg-scalers",
        }
    }
}

static COUNTER: std::sync::atomic::AtomicU64 = std::sync::atomic::AtomicU64::new(0);
pub static INVOCATIONS: std::sync::atomic::AtomicU64 = std::sync::atomic::AtomicU64::new(0);

/// run one binary; None = non-zero exit status (or killed), Some(csv bytes) otherwise
pub fn invoke(bin: Bin, dir: &Path, args: &[String], threads: u32) -> Option<Vec<u8>> {
    let k = COUNTER.fetch_add(1, std::sync::atomic::Ordering::SeqCst);
    INVOCATIONS.fetch_add(1, std::sync::atomic::Ordering::SeqCst);
    let stem = format!("out{k}");
    let csv = dir.join(format!("{stem}.csv"));
    let _ = std::fs::remove_file(&csv);
    let st = Command::new(bin_dir().join(bin.exe()))
        .current_dir(dir)
        .args(args)
        .arg("-o")
        .arg(&stem)
        .env("RAYON_NUM_THREADS", threads.to_string())
        .stdin(Stdio::null())
        .stdout(Stdio::null())
        .stderr(Stdio::null())
        .status()
        .expect("cannot start the analysis binary (VERIF_ANALYSIS_BIN?)");
    let out = if st.success() { std::fs::read(&csv).ok() } else { None };
    let _ = std::fs::remove_file(&csv);
    out
}

/// the CSV without its `#` comment lines (the second one echoes the command line)
pub fn strip_comments(csv: &[u8]) -> Vec<u8> {
    let mut out = Vec::new();
    for line in csv.split_inclusive(|&b| b == b'\n') {
        if !line.starts_with(b"#") {
            out.extend_from_slice(line);
        }
    }
    out
}

const TRG_CLOCK: f64 = 62.5e6;

/// `trg_time` column -> cumulative ticks; the printed decimal must denote exactly `ticks as f64 / 62.5e6`
fn ticks_of(s: &str) -> String {
    match s.parse::<f64>() {
        Ok(t) if t.is_finite() && t >= 0.0 => {
            let ticks = (t * TRG_CLOCK).round() as u64;
            if (ticks as f64 / TRG_CLOCK).to_bits() == t.to_bits() {
                ticks.to_string()
            } else {
                format!("badtime({s})")
            }
        }
        _ => format!("badtime({s})"),
    }
}

fn f64_bits(s: &str) -> String {
    if s.is_empty() {
        return "-".to_string();
    }
    match s.parse::<f64>() {
        Ok(x) => format!("{:016x}", x.to_bits()),
        Err(_) => format!("badfloat({s})"),
    }
}

fn dash(s: &str) -> String {
    if s.is_empty() {
        "-".to_string()
    } else {
        s.to_string()
    }
}

/// rows of a CSV in canonical form; columns: serial, ticks|-, then the payload columns (`-` when empty)
pub fn rows_obs(bin: Bin, csv: &Option<Vec<u8>>) -> String {
    let Some(csv) = csv else {
        return "fail".to_string();
    };
    let text = String::from_utf8_lossy(&strip_comments(csv)).to_string();
    let mut lines = text.lines();
    let header = match bin {
        Bin::Vertices => "serial_number,trg_time,reconstructed_x,reconstructed_y,reconstructed_z",
        Bin::Scalers => "serial_number,trg_time,input,drift_veto,scaledown,pulser,output",
    };
    let mut rows = Vec::new();
    // the csv writer emits the header with the first row: a run without main events gives no header
    if let Some(h) = lines.next() {
        if h != header {
            return format!("badheader({h})");
        }
    }
    for l in lines {
        let c: Vec<&str> = l.split(',').collect();
        if c.len() != header.split(',').count() {
            return format!("badrow({l})");
        }
        let time = if c[1].is_empty() { "-".to_string() } else { ticks_of(c[1]) };
        let mut r = vec![c[0].to_string(), time];
        for x in &c[2..] {
            r.push(match bin {
                Bin::Vertices => f64_bits(x),
                Bin::Scalers => dash(x),
            });
        }
        rows.push(r.join(","));
    }
    format!("ok {}:{}", rows.len(), rows.join(";"))
}

// ---------------------------------------------------------------------------------------------
// the row model re-stated over what the library returns in-process (oracle of `relc19l`)
// ---------------------------------------------------------------------------------------------
fn scan(items: Vec<(u32, Option<(u32, Vec<String>)>)>, ncols: usize) -> String {
    let mut previous: Option<u32> = None;
    let mut cumulative: u64 = 0;
    let mut rows = Vec::new();
    for (serial, d) in items {
        match d {
            Some((ts, cols)) => {
                if let Some(p) = previous {
                    cumulative += u64::from(ts.wrapping_sub(p));
                }
                previous = Some(ts);
                rows.push(format!("{serial},{cumulative},{}", cols.join(",")));
            }
            None => {
                // an undecodable event before any decodable one makes 0 the reference timestamp
                if previous.is_none() {
                    previous = Some(0);
                }
                rows.push(format!("{serial},-,{}", vec!["-"; ncols].join(",")));
            }
        }
    }
    format!("ok {}:{}", rows.len(), rows.join(";"))
}

/// expected observations (vertices, scalers) computed from the library in this process; None = refused
fn library_rows(fs: &[FileD], perm: &[usize]) -> (String, String) {
    let args: Vec<&FileD> = perm.iter().map(|&i| &fs[i]).collect();
    let known = |x: &str| x == "mid" || x == "lz4";
    let mut sorted = args.clone();
    sorted.sort_by_key(|f| f.t0);
    let refused = args.iter().any(|f| !known(&f.ext))
        || args.iter().any(|f| f.run != args[0].run)
        || sorted.windows(2).any(|w| w[0].t0 == w[1].t0)
        || sorted.windows(2).any(|w| w[1].t0.wrapping_sub(w[0].t1) > 1);
    if refused {
        return ("fail".to_string(), "fail".to_string());
    }
    let run = args[0].run;
    let mut v_items = Vec::new();
    let mut s_items = Vec::new();
    for f in sorted {
        for e in f.evs.iter().filter(|e| e.id == 1) {
            let bs = banks(run, e);
            let v = lib_vertex(run, e).map(|(ts, vx)| {
                let col = |i: usize| vx.map_or("-".to_string(), |b| format!("{:016x}", b[i]));
                (ts, vec![col(0), col(1), col(2)])
            });
            v_items.push((e.serial, v));
            let trg: Vec<&(String, Vec<u8>)> = bs.iter().filter(|(n, _)| n == "ATAT").collect();
            let s = if trg.len() == 1 {
                TrgPacket::try_from(&trg[0].1[..]).ok().map(|p| {
                    let o = |x: Option<u32>| x.map_or("-".to_string(), |x| x.to_string());
                    (
                        p.timestamp(),
                        vec![
                            p.input_counter().to_string(),
                            o(p.drift_veto_counter()),
                            o(p.scaledown_counter()),
                            p.pulser_counter().to_string(),
                            p.output_counter().to_string(),
                        ],
                    )
                })
            } else {
                None
            };
            s_items.push((e.serial, s));
        }
    }
    (scan(v_items, 3), scan(s_items, 5))
}

// ---------------------------------------------------------------------------------------------
// observations
// ---------------------------------------------------------------------------------------------
fn scratch_root() -> PathBuf {
    // `gen <property> <tier> <seed> <outdir>`: scratch under the output directory; `obs`: under the temp dir
    let a: Vec<String> = std::env::args().collect();
    let base = if a.len() >= 6 && a[1] == "gen" { PathBuf::from(&a[5]) } else { std::env::temp_dir() };
    base.join(format!("c19-scratch-{}", std::process::id()))
}

struct Scratch {
    dir: PathBuf,
    names: Vec<String>,
}
impl Scratch {
    fn new(fs: &[FileD]) -> Scratch {
        let k = COUNTER.fetch_add(1, std::sync::atomic::Ordering::SeqCst);
        let dir = scratch_root().join(format!("run{k}"));
        let names = write_run(&dir, fs);
        Scratch { dir, names }
    }
    fn args(&self, perm: &[usize]) -> Vec<String> {
        perm.iter().map(|&i| self.names[i].clone()).collect()
    }
    fn run(&self, bin: Bin, perm: &[usize], threads: u32) -> Option<Vec<u8>> {
        invoke(bin, &self.dir, &self.args(perm), threads)
    }
}
impl Drop for Scratch {
    fn drop(&mut self) {
        let _ = std::fs::remove_dir_all(&self.dir);
        let _ = std::fs::remove_dir(scratch_root());
    }
}

fn obs_main(v: &Option<Vec<u8>>, s: &Option<Vec<u8>>) -> String {
    format!("V={} S={}", rows_obs(Bin::Vertices, v), rows_obs(Bin::Scalers, s))
}

fn same(a: &Option<Vec<u8>>, b: &Option<Vec<u8>>) -> bool {
    match (a, b) {
        (None, None) => true,
        (Some(x), Some(y)) => strip_comments(x) == strip_comments(y),
        _ => false,
    }
}

fn holds(ok: bool, detail: String) -> String {
    if ok {
        "holds".to_string()
    } else {
        format!("fails {detail}")
    }
}

pub fn observe_line(line: &str) -> Option<String> {
    let mut it = line.splitn(3, ' ');
    let tag = it.next()?;
    if !matches!(tag, "c19" | "relc19t" | "relc19p" | "relc19l") {
        return None;
    }
    let (Some(perm_s), Some(run_s)) = (it.next(), it.next()) else {
        return Some("bad-case".to_string());
    };
    let Some(fs) = parse_run(run_s) else {
        return Some("bad-case".to_string());
    };
    let sc = Scratch::new(&fs);
    match tag {
        "relc19p" => {
            let perms: Option<Vec<Vec<usize>>> = perm_s.split(',').map(|p| parse_perm(p, fs.len())).collect();
            let Some(perms) = perms else {
                return Some("bad-case".to_string());
            };
            let mut first: Option<(Option<Vec<u8>>, Option<Vec<u8>>)> = None;
            for p in &perms {
                let v = sc.run(Bin::Vertices, p, 1);
                let s = sc.run(Bin::Scalers, p, 1);
                match &first {
                    None => first = Some((v, s)),
                    Some((v0, s0)) => {
                        if !same(v0, &v) || !same(s0, &s) {
                            return Some(format!("fails order {}", show_perm(p)));
                        }
                    }
                }
            }
            Some("holds".to_string())
        }
        _ => {
            let Some(perm) = parse_perm(perm_s, fs.len()) else {
                return Some("bad-case".to_string());
            };
            match tag {
                "c19" => {
                    let v = sc.run(Bin::Vertices, &perm, 1);
                    let s = sc.run(Bin::Scalers, &perm, 1);
                    Some(obs_main(&v, &s))
                }
                "relc19t" => {
                    let v1 = sc.run(Bin::Vertices, &perm, THREADS[0]);
                    for &t in &THREADS[1..] {
                        if !same(&v1, &sc.run(Bin::Vertices, &perm, t)) {
                            return Some(format!("fails threads {t}"));
                        }
                    }
                    Some("holds".to_string())
                }
                _ => {
                    let v = sc.run(Bin::Vertices, &perm, 1);
                    let s = sc.run(Bin::Scalers, &perm, 1);
                    let (lv, ls) = library_rows(&fs, &perm);
                    let (ov, os) = (rows_obs(Bin::Vertices, &v), rows_obs(Bin::Scalers, &s));
                    Some(holds(
                        lv == ov && ls == os,
                        format!("library V={lv} S={ls} csv V={ov} S={os}"),
                    ))
                }
            }
        }
    }
}

// ---------------------------------------------------------------------------------------------
// generators
// ---------------------------------------------------------------------------------------------
fn permutations(n: usize) -> Vec<Vec<usize>> {
    fn go(cur: &mut Vec<usize>, used: &mut Vec<bool>, n: usize, out: &mut Vec<Vec<usize>>) {
        if cur.len() == n {
            out.push(cur.clone());
            return;
        }
        for i in 0..n {
            if !used[i] {
                used[i] = true;
                cur.push(i);
                go(cur, used, n, out);
                cur.pop();
                used[i] = false;
            }
        }
    }
    let mut out = Vec::new();
    go(&mut Vec::new(), &mut vec![false; n], n, &mut out);
    out
}

/// timestamp stream of a run: how the 32-bit counter moves from one main event to the next
struct Clock {
    mode: u64,
    ts: u32,
}
impl Clock {
    fn next(&mut self, r: &mut Rng) -> u32 {
        let step: u32 = match self.mode {
            0 => r.range(1, 1000) as u32,                               // dense triggers
            1 => 0x7FFF_FF00u32.wrapping_add(r.below(0x200) as u32),    // about half a period: wraps every other event
            2 => r.next() as u32,                                        // anything
            3 => r.pick(&[0u32, 1, 2, 0x7FFF_FFFF, 0x8000_0000, 0x8000_0001, u32::MAX - 1, u32::MAX]),
            4 => 0,                                                      // counter stands still
            _ => 0xFFFF_FF00u32.wrapping_add(r.below(0x100) as u32),    // just short of a full period
        };
        let v = self.ts;
        self.ts = self.ts.wrapping_add(step);
        if self.mode == 3 && r.chance(1, 4) {
            self.ts = r.pick(&[0u32, 1, u32::MAX, u32::MAX - 1, 0x8000_0000]);
        }
        v
    }
}

fn gen_event(r: &mut Rng, clock: &mut Clock, serial: &mut u32, force: Option<char>) -> Ev {
    let class = r.below(10);
    let id: u16 = if force.is_some() || class < 6 {
        1
    } else if class < 8 {
        4
    } else if class < 9 {
        8
    } else {
        r.pick(&[0u16, 2, 3, 5, 9, 0x7FFF, 0xFFFF, 0x0101])
    };
    let kind = match force {
        Some(k) => k,
        None if id == 1 => {
            if r.chance(3, 4) {
                r.pick(&KINDS_OK)
            } else {
                r.pick(&KINDS_BAD)
            }
        }
        // other event types: a chronobox-like bank, nothing, or even a valid TRG bank (must not give a row)
        None => r.pick(&['b', 'm', 'g', 'j', 'c']),
    };
    let mut c = [
        r.boundary(u32::MAX as u64) as u32,
        r.boundary(u32::MAX as u64) as u32,
        r.boundary(u32::MAX as u64) as u32,
        r.boundary(u32::MAX as u64) as u32,
    ];
    c.sort();
    let s = if r.chance(1, 12) { r.pick(&[0u32, 1, u32::MAX, u32::MAX - 1, 0x8000_0000]) } else { *serial };
    *serial = serial.wrapping_add(1 + r.below(2) as u32);
    let ts = if id == 1 { clock.next(r) } else { r.next() as u32 };
    Ev { id, kind, serial: s, ts, inp: c[3], drift: c[2], sd: c[1], pulser: r.boundary(u32::MAX as u64) as u32, out: c[0], sim: None }
}

/// a run of `nf` contiguous files (initial timestamps distinct, final = next initial or next initial - 1)
fn gen_run(r: &mut Rng, nf: usize, variant: u64) -> Vec<FileD> {
    let run = r.pick(&[0u32, 1, 4418, 9277, 11084, u32::MAX]);
    let mut clock = Clock { mode: variant % 6, ts: r.pick(&[0u32, 1, 0xFFFF_FF00, 0x8000_0000, 12345]) };
    if r.chance(1, 2) {
        clock.ts = r.next() as u32;
    }
    let mut serial = r.pick(&[0u32, 1, 1000, u32::MAX - 20]);
    // initial timestamps, ascending, boundary-biased
    let mut t0s: Vec<u32> = Vec::new();
    while t0s.len() < nf {
        let t = match r.below(6) {
            0 => r.pick(&[0u32, 1, u32::MAX, u32::MAX - 1]),
            1 => 1_700_000_000 + r.below(5) as u32,
            _ => 1_600_000_000 + r.below(100_000_000) as u32,
        };
        if !t0s.contains(&t) {
            t0s.push(t);
        }
    }
    t0s.sort();
    let mut fs = Vec::new();
    for i in 0..nf {
        let n_ev = match r.below(8) {
            0 => 0,
            1 => 1,
            2 => 2,
            3 => 60,
            4 => 59,
            _ => r.range(3, 58) as usize,
        };
        let mut evs = Vec::new();
        for k in 0..n_ev {
            // undecodable main events at the start, in the middle and at the end of files, by plan
            let force = match (variant % 4, k) {
                (1, 0) => Some(r.pick(&KINDS_BAD)),
                (2, k) if k + 1 == n_ev => Some(r.pick(&KINDS_BAD)),
                (3, k) if k == 0 || k + 1 == n_ev || k == n_ev / 2 => Some(r.pick(&KINDS_BAD)),
                _ => None,
            };
            evs.push(gen_event(r, &mut clock, &mut serial, force));
        }
        let t1 = if i + 1 < nf { t0s[i + 1] - r.below(2) as u32 } else { t0s[i].wrapping_add(r.below(500) as u32) };
        let ext = if r.chance(1, 2) { "mid" } else { "lz4" };
        fs.push(FileD { run, t0: t0s[i], t1, ext: ext.to_string(), evs });
    }
    if variant % 7 == 6 && nf > 0 {
        // every main event of the run undecodable
        for f in fs.iter_mut() {
            for e in f.evs.iter_mut() {
                if e.id == 1 && KINDS_OK.contains(&e.kind) {
                    e.kind = 'c';
                }
            }
        }
    }
    fs
}

/// a run like those of `gen_run` (timestamp regimes, undecodable events by plan, other event types, both
/// extensions) on a run number with maps and calibration, in which `n_w` of the decodable main events carry
/// full simulated-like wire and pad data (kind `w`), some of them next to each other.  Up to four seeds are
/// tried per event to get the wanted outcome (vertex / no vertex).
fn gen_run_sim(r: &mut Rng, nf: usize, variant: u64, n_w: usize) -> Vec<FileD> {
    let mut fs = gen_run(r, nf, variant);
    let run = if variant % 3 == 2 { SIM_RUNS[1] } else { SIM_RUNS[0] };
    for f in fs.iter_mut() {
        f.run = run;
        // keep the files short: every invocation of the binary reconstructs every `w` event again
        f.evs.truncate(20);
    }
    let good = |e: &Ev| e.id == 1 && KINDS_OK.contains(&e.kind);
    let mut pos: Vec<(usize, usize)> = Vec::new();
    for (i, f) in fs.iter().enumerate() {
        for (k, e) in f.evs.iter().enumerate() {
            if good(e) {
                pos.push((i, k));
            }
        }
    }
    let mut serial = 5000u32;
    while pos.len() < n_w {
        let i = r.below(nf as u64) as usize;
        let mut clock = Clock { mode: 2, ts: r.next() as u32 };
        let e = gen_event(r, &mut clock, &mut serial, Some('g'));
        fs[i].evs.push(e);
        pos.push((i, fs[i].evs.len() - 1));
    }
    pos.sort();
    // a random start, then alternately the next position (neighbours) and a jump
    let mut chosen: Vec<(usize, usize)> = Vec::new();
    let mut at = r.below(pos.len() as u64) as usize;
    while chosen.len() < n_w {
        if !chosen.contains(&pos[at]) {
            chosen.push(pos[at]);
        }
        at = if chosen.len() % 2 == 1 { (at + 1) % pos.len() } else { r.below(pos.len() as u64) as usize };
    }
    for (i, k) in chosen {
        let old = fs[i].evs[k].clone();
        let c = [old.inp, old.drift, old.sd, old.pulser, old.out];
        // wanted: a vertex (two in four), wire and pad data without a vertex (one in four: a single track),
        // whatever comes (one in four)
        let want = r.below(4);
        let nt = |r: &mut Rng| match want {
            0 => r.pick(&[11u32, 11, 1]),
            1 | 2 => 12 + r.below(3) as u32,
            _ => r.pick(&[1u32, 2, 3, 11, 12, 13, 14]),
        };
        let n = nt(r);
        let mut e = sim_ev(run, old.serial, old.ts, c, r.next(), n);
        for _ in 0..3 {
            let has = e.sim.as_ref().map_or(false, |m| m.vtx.is_some());
            if want == 3 || has == (want != 0) {
                break;
            }
            let n = nt(r);
            e = sim_ev(run, old.serial, old.ts, c, r.next(), n);
        }
        fs[i].evs[k] = e;
    }
    fs
}

/// (number of `w` events, number of them the library decodes, number of them with a vertex)
fn sim_counts(fs: &[FileD]) -> (usize, usize, usize) {
    let ms: Vec<&Sim> = fs.iter().flat_map(|f| f.evs.iter()).filter_map(|e| e.sim.as_ref()).collect();
    (ms.len(), ms.iter().filter(|m| m.dec).count(), ms.iter().filter(|m| m.vtx.is_some()).count())
}

fn label_of(fs: &[FileD]) -> String {
    format!("run-{}-files", fs.len())
}

fn has_main(fs: &[FileD]) -> bool {
    fs.iter().any(|f| f.evs.iter().any(|e| e.id == 1))
}

/// all lines of one run: per argument order the observation and the thread relation, then the order relation
/// and the library relation.  Each binary invocation is done once and shared between the lines.
fn emit_run(s: &mut Sink, fs: &[FileD], perms: &[Vec<usize>], label: &str, with_threads: bool) {
    let sc = Scratch::new(fs);
    let text = show_run(fs);
    let mut first: Option<(Option<Vec<u8>>, Option<Vec<u8>>)> = None;
    let mut order_ok = true;
    let mut order_detail = String::new();
    for p in perms {
        let v1 = sc.run(Bin::Vertices, p, 1);
        let sv = sc.run(Bin::Scalers, p, 1);
        let nontrivial = v1.is_some() && has_main(fs);
        s.put(&format!("c19 {} {}", show_perm(p), text), &obs_main(&v1, &sv), label, nontrivial);
        if with_threads {
            let mut bad = None;
            for &t in &THREADS[1..] {
                if !same(&v1, &sc.run(Bin::Vertices, p, t)) {
                    bad = Some(t);
                }
            }
            s.put(
                &format!("relc19t {} {}", show_perm(p), text),
                &holds(bad.is_none(), format!("threads {}", bad.unwrap_or(0))),
                &format!("rel-threads-{}{}", if label.starts_with("sim-") { "sim-" } else { "" }, fs.len()),
                nontrivial,
            );
        }
        match &first {
            None => {
                let (lv, ls) = library_rows(fs, p);
                let (ov, os) = (rows_obs(Bin::Vertices, &v1), rows_obs(Bin::Scalers, &sv));
                s.put(
                    &format!("relc19l {} {}", show_perm(p), text),
                    &holds(lv == ov && ls == os, format!("library V={lv} S={ls} csv V={ov} S={os}")),
                    if label.starts_with("sim-") { "rel-library-sim" } else { "rel-library" },
                    nontrivial,
                );
                first = Some((v1, sv));
            }
            Some((v0, s0)) => {
                if !same(v0, &v1) || !same(s0, &sv) {
                    order_ok = false;
                    order_detail = format!("order {}", show_perm(p));
                }
            }
        }
    }
    if perms.len() > 1 {
        let ps: Vec<String> = perms.iter().map(|p| show_perm(p)).collect();
        s.put(
            &format!("relc19p {} {}", ps.join(","), text),
            &holds(order_ok, order_detail),
            &format!("rel-orders-{}", fs.len()),
            first.as_ref().map_or(false, |f| f.0.is_some()) && has_main(fs),
        );
    }
}

/// refusal variants of a good run (the model must say `fail` too)
fn refusals(r: &mut Rng, base: &[FileD]) -> Vec<(String, Vec<FileD>, Vec<Vec<usize>>)> {
    let n = base.len();
    let ident: Vec<usize> = (0..n).collect();
    let rev: Vec<usize> = (0..n).rev().collect();
    let mut out = Vec::new();
    // a file of another run (first, last or any position)
    if n >= 2 {
        let mut fs = base.to_vec();
        let any = r.below(n as u64) as usize;
        let i = r.pick(&[0, n - 1, any]);
        fs[i].run = fs[i].run.wrapping_add(r.pick(&[1u32, u32::MAX, 0x8000_0000]));
        out.push(("refuse-two-runs".to_string(), fs, vec![ident.clone(), rev.clone()]));
        // two files with the same initial timestamp
        let mut fs = base.to_vec();
        let i = r.below(n as u64 - 1) as usize;
        fs[i + 1].t0 = fs[i].t0;
        out.push(("refuse-duplicate-t0".to_string(), fs, vec![ident.clone(), rev.clone()]));
        // a file missing in the middle: the next initial timestamp is not the previous final one (+1)
        let mut fs = base.to_vec();
        let i = r.below(n as u64 - 1) as usize;
        fs[i].t1 = r.pick(&[fs[i + 1].t0.wrapping_sub(2), fs[i + 1].t0.wrapping_add(1), fs[i].t0]);
        if fs[i + 1].t0.wrapping_sub(fs[i].t1) > 1 {
            out.push(("refuse-gap".to_string(), fs, vec![ident.clone(), rev.clone()]));
        }
    }
    // the same file given twice
    {
        let mut p = ident.clone();
        p.push(r.below(n as u64) as usize);
        out.push(("refuse-same-file-twice".to_string(), base.to_vec(), vec![p]));
    }
    // unknown extension
    {
        let mut fs = base.to_vec();
        let i = r.below(n as u64) as usize;
        fs[i].ext = r.pick(&["gz", "MID", "", "mid4", "lz", "midlz4", "Lz4", "txt"]).to_string();
        out.push(("refuse-extension".to_string(), fs, vec![ident.clone(), rev]));
    }
    out
}

pub fn run(tier: &str, seed: u64, s: &mut Sink) {
    let mut r = Rng::new(seed ^ 0xC19);
    let thorough = tier == "thorough";
    // fixed boundary runs first
    let e = |id: u16, kind: char, serial: u32, ts: u32| Ev { id, kind, serial, ts, inp: 9, drift: 7, sd: 5, pulser: 3, out: 2, sim: None };
    let f = |t0: u32, t1: u32, ext: &str, evs: Vec<Ev>| FileD { run: 9277, t0, t1, ext: ext.to_string(), evs };
    let fixed: Vec<Vec<FileD>> = vec![
        // the wrap of DESIGN.md A.11: 0xFFFFFF00 -> 0x100 is 0x200 ticks
        vec![f(100, 200, "mid", vec![e(1, 'g', 0, 0xFFFF_FF00), e(1, 'g', 1, 0x100)])],
        // no event at all; no main event
        vec![f(100, 200, "lz4", vec![])],
        vec![f(100, 200, "mid", vec![e(4, 'b', 0, 5), e(8, 'm', 0, 6), e(2, 'g', 7, 7)])],
        // undecodable first event: the first decodable event does not start at 0
        vec![f(0, 0, "mid", vec![e(1, 'c', 0, 1), e(1, 'g', 1, 1000), e(1, 'm', 2, 0), e(1, 'g', 3, 999)])],
        // an event the vertices binary cannot decode but the scalers binary can
        vec![
            f(u32::MAX, 7, "lz4", vec![e(1, 'g', 5, 10), e(1, 'u', 6, 20)]),
            f(5, u32::MAX, "mid", vec![e(1, 'a', 3, 4_000_000_000), e(1, 'j', 4, 5)]),
        ],
    ];
    for fs in &fixed {
        let perms = permutations(fs.len());
        emit_run(s, fs, &perms, "fixed", true);
    }
    // duplicate initial timestamps under EVERY argument order (the duplicates are adjacent only after sorting):
    // files whose final timestamp equals their initial one and that follow each other within 1 s, so that the
    // duplicate check is the only refusal that applies
    for n in [3usize, 4] {
        for dup in 1..n {
            let mut fs: Vec<FileD> = (0..n)
                .map(|i| f(500 + i as u32, 500 + i as u32, if i % 2 == 0 { "mid" } else { "lz4" }, vec![e(1, 'g', i as u32, 1000 * i as u32)]))
                .collect();
            fs[dup].t0 = fs[0].t0;
            fs[dup].t1 = fs[0].t1;
            let perms = permutations(n);
            emit_run(s, &fs, &perms, "refuse-duplicate-t0-all-orders", false);
        }
    }
    // two runs under every argument order of three files
    {
        let mut fs: Vec<FileD> = (0..3).map(|i| f(700 + i as u32, 700 + i as u32, "mid", vec![e(1, 'g', i as u32, 5)])).collect();
        fs[1].run = 9278;
        let perms = permutations(3);
        emit_run(s, &fs, &perms, "refuse-two-runs-all-orders", false);
    }
    // (number of files, number of runs)
    let plan: &[(usize, usize)] = if thorough { &[(1, 40), (2, 30), (3, 20), (4, 12)] } else { &[(1, 2), (2, 2), (3, 2), (4, 1)] };
    let mut variant = r.below(1000);
    let mut last_good: Vec<Vec<FileD>> = Vec::new();
    for &(nf, count) in plan {
        for _ in 0..count {
            variant += 1;
            let fs = gen_run(&mut r, nf, variant);
            let perms = permutations(nf);
            emit_run(s, &fs, &perms, &label_of(&fs), true);
            last_good.push(fs);
        }
    }
    // runs in which some main events carry full wire and pad data that the library reconstructs to a vertex:
    // (number of files, number of runs, number of such events per run)
    let plan_sim: &[(usize, usize, usize)] =
        if thorough { &[(1, 6, 12), (2, 5, 10), (3, 3, 6), (4, 1, 6)] } else { &[(1, 1, 10), (2, 1, 6), (3, 1, 5)] };
    let (mut n_w, mut n_dec, mut n_vtx, mut n_rows) = (0, 0, 0, 0);
    for &(nf, count, nw) in plan_sim {
        for _ in 0..count {
            variant += 1;
            let fs = gen_run_sim(&mut r, nf, variant, nw);
            let (a, b, c) = sim_counts(&fs);
            let perms = permutations(nf);
            n_w += a;
            n_dec += b;
            n_vtx += c;
            n_rows += c * perms.len();
            emit_run(s, &fs, &perms, &format!("sim-run-{nf}-files-{c}-of-{a}-with-vertex"), true);
        }
    }
    eprintln!(
        "c19: {n_w} events with wire and pad data, {n_dec} decoded, {n_vtx} with a vertex ({n_rows} CSV rows with vertex columns compared)"
    );
    // refusals, derived from good runs of each size
    let picks: Vec<Vec<FileD>> = if thorough {
        last_good.clone()
    } else {
        vec![last_good[0].clone(), last_good[3].clone(), last_good[5].clone()]
    };
    for base in &picks {
        for (label, fs, perms) in refusals(&mut r, base) {
            emit_run(s, &fs, &perms, &label, false);
        }
    }
    eprintln!("c19: {} binary invocations", INVOCATIONS.load(std::sync::atomic::Ordering::SeqCst));
}
