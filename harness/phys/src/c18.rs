// C18: drift-time lookup — case generation and implementation observations.
//
// Case lines (floats are 16-hex-digit bit patterns):
//   drift <t> <phi> <z>          SpacePoint::try_from(Avalanche{t, phi, z, ..}) through the public API
//                                -> ok <r> <phi> <z> | err-time | err-z | panic
//   drift-ntab                   number of tables of verif::drift_tables()
//   drift-tab <i>                <knots> <z bound> <FNV-1a-64 of all bit patterns>  (tie of coq/Gen/Drift.v)
//   drift-dump                   all tables as bit patterns (read by the translator plugin tools/genx_drift.py; not a case)
//   rel-drift-mono <z> <t1> <t2> implementation only: t1 <= t2 both in range  =>  r(t1) >= r(t2)
//   rel-drift-sym <t> <phi> <z>  lookup at z and -z: same outcome, r and phi bit-identical, z negated
//   rel-drift-range <t> <z>      r within [min,max] radius of the slice, 0 <= correction <= slice max
//   rel-drift-knots <i>          every tabulated time of table i reproduces the tabulated radius to 1e-12 m (z = +-bound_i)
//   rel-drift-steps <i>          every tabulated 8 ns step of table i OUTSIDE the known class is < 0.5 mm
//   rel-drift-step8 <z> <t>      |r(t) - r(t + 8 ns)| <= largest tabulated step of the segments touched (+1e-12),
//                                and < 0.5 mm when no touched segment is in the known class
//   relkf-drift-step <i> <j>     known class `drift_step_ge_half_mm` (F8): step of segment j of table i, looked up at the
//                                two knots through the public API; `fails ...` while the data still has the step
use crate::util::*;
use alpha_g_physics::{Avalanche, SpacePoint, TryDriftLookupError};
use std::marker::PhantomData;
use std::sync::OnceLock;
use uom::si::f64::{Angle, Length, Time};

/// Known finding F8, class `drift_step_ge_half_mm`: (table, left knot) of the segments of the shipped table whose
/// radius step is >= 0.5 mm (the same list is `known_steps` in coq/Recon/Drift.v).
pub const KNOWN_STEPS: &[(usize, usize)] = &[
    (0, 17), (1, 17), (2, 17), (3, 17), (4, 17), (5, 17), (6, 17), (7, 17), (8, 17), (9, 17), (10, 17), (11, 17),
    (12, 17), (13, 17), (14, 17), (15, 17), (16, 17), (17, 17), (18, 17), (19, 17), (24, 17), (25, 17), (26, 17),
    (27, 17), (28, 17), (29, 17), (30, 17), (31, 17), (32, 17), (33, 17), (34, 17), (35, 17), (36, 17), (37, 17),
    (38, 17), (39, 17), (40, 17), (41, 17), (42, 17), (43, 17), (44, 17), (45, 17), (46, 17), (47, 17), (48, 17),
    (49, 17), (50, 17), (51, 17), (52, 17), (53, 17), (54, 17), (55, 17), (72, 17), (75, 17), (80, 17), (81, 1),
    (81, 2), (81, 4), (81, 6), (81, 8), (81, 10), (81, 12), (81, 13), (81, 15), (83, 17), (87, 1), (87, 11), (88,
    0), (88, 1), (88, 2), (88, 3), (88, 4), (88, 5), (88, 6), (88, 7), (88, 8), (88, 9), (88, 10), (88, 11), (88,
    12), (88, 13), (88, 14), (88, 15), (88, 16), (89, 0), (89, 1), (89, 2), (89, 3), (89, 4), (89, 5), (89, 6),
    (89, 7), (89, 8), (89, 9), (89, 10), (89, 11), (89, 12), (89, 13), (89, 14), (89, 15), (89, 16), (90, 0), (90,
    1), (90, 2), (90, 3), (90, 4), (90, 5), (90, 6), (90, 7), (90, 8), (90, 9), (90, 10), (90, 11), (90, 12), (90,
    13), (90, 14), (90, 15), (90, 16), (91, 0), (91, 1), (91, 2), (91, 3), (91, 4), (91, 5), (91, 6), (91, 7),
    (91, 8), (91, 9), (91, 10), (91, 11), (91, 12), (91, 13), (91, 14), (91, 15), (91, 16)
];

const HALF_MM: f64 = 0.0005;
const EIGHT_NS: f64 = 8e-9;

type Tables = Vec<(Vec<(f64, f64, f64)>, f64)>;
fn tables() -> &'static Tables {
    static T: OnceLock<Tables> = OnceLock::new();
    T.get_or_init(alpha_g_physics::verif::drift_tables)
}

// quantities with exactly the given value (the uom constructors add a 0.0 constant, which would turn -0.0 into +0.0)
fn time(v: f64) -> Time {
    Time { dimension: PhantomData, units: PhantomData, value: v }
}
fn length(v: f64) -> Length {
    Length { dimension: PhantomData, units: PhantomData, value: v }
}
fn angle(v: f64) -> Angle {
    Angle { dimension: PhantomData, units: PhantomData, value: v }
}

#[derive(Clone, Copy, PartialEq, Debug)]
pub enum Out {
    Ok(f64, f64, f64),
    ErrTime,
    ErrZ,
    Panic,
}

pub fn lookup(t: f64, phi: f64, z: f64) -> Out {
    let r = catch(move || {
        SpacePoint::try_from(Avalanche {
            t: time(t),
            phi: angle(phi),
            z: length(z),
            wire_amplitude: 1.0,
            pad_amplitude: 1.0,
        })
    });
    match r {
        None => Out::Panic,
        Some(Ok(p)) => Out::Ok(p.r.value, p.phi.value, p.z.value),
        Some(Err(TryDriftLookupError::DriftTimeOutOfRange(_))) => Out::ErrTime,
        Some(Err(TryDriftLookupError::AxialPositionOutOfRange(_))) => Out::ErrZ,
    }
}

fn show(x: f64) -> String {
    if x.is_nan() {
        "nan".to_string()
    } else {
        format!("{:016x}", x.to_bits())
    }
}
fn parse(s: &str) -> Option<f64> {
    u64::from_str_radix(s, 16).ok().map(f64::from_bits)
}

pub fn observe(t: f64, phi: f64, z: f64) -> String {
    match lookup(t, phi, z) {
        Out::Ok(r, p, z) => format!("ok {} {} {}", show(r), show(p), show(z)),
        Out::ErrTime => "err-time".to_string(),
        Out::ErrZ => "err-z".to_string(),
        Out::Panic => "panic".to_string(),
    }
}

fn fnv_u64(mut h: u64, x: u64) -> u64 {
    for b in x.to_le_bytes() {
        h = (h ^ b as u64).wrapping_mul(0x100000001b3);
    }
    h
}
fn table_obs(i: usize) -> String {
    match tables().get(i) {
        None => "no-such-table".to_string(),
        Some((t, b)) => {
            let mut h = 0xcbf29ce484222325u64;
            for &(x, y, z) in t {
                h = fnv_u64(fnv_u64(fnv_u64(h, x.to_bits()), y.to_bits()), z.to_bits());
            }
            format!("{} {} {:016x}", t.len(), show(*b), h)
        }
    }
}

// ---- bracket recomputed in the harness from the implementation's own tables (oracle side only) ----
fn slice_of(z: f64) -> Option<usize> {
    let za = z.abs();
    tables().iter().position(|(_, b)| *b >= za)
}
/// index of the left knot of the segment used for t (None when out of range)
fn segment_of(tab: &[(f64, f64, f64)], t: f64) -> Option<usize> {
    if !(t >= tab[0].0 && t <= tab[tab.len() - 1].0) {
        return None;
    }
    let rhs = tab.iter().position(|k| k.0 > t).unwrap_or(tab.len() - 1);
    Some(rhs - 1)
}
fn is_known(i: usize, j: usize) -> bool {
    KNOWN_STEPS.contains(&(i, j))
}

fn rel_mono(z: f64, t1: f64, t2: f64) -> String {
    match (lookup(t1, 0.0, z), lookup(t2, 0.0, z)) {
        (Out::Ok(r1, _, _), Out::Ok(r2, _, _)) => {
            if t1 <= t2 && r1 < r2 {
                format!("fails r({})={} < r({})={}", show(t1), show(r1), show(t2), show(r2))
            } else {
                "holds".to_string()
            }
        }
        (Out::Panic, _) | (_, Out::Panic) => "fails panic".to_string(),
        _ => "holds".to_string(),
    }
}
fn rel_sym(t: f64, phi: f64, z: f64) -> String {
    let (a, b) = (lookup(t, phi, z), lookup(t, phi, -z));
    let same = match (a, b) {
        (Out::Ok(r1, p1, z1), Out::Ok(r2, p2, z2)) => {
            r1.to_bits() == r2.to_bits() && p1.to_bits() == p2.to_bits() && z1.to_bits() == (-z2).to_bits()
        }
        (Out::ErrTime, Out::ErrTime) | (Out::ErrZ, Out::ErrZ) => true,
        _ => false,
    };
    if same {
        "holds".to_string()
    } else {
        format!("fails {:?} vs {:?}", a, b)
    }
}
fn rel_range(t: f64, z: f64) -> String {
    match lookup(t, 0.0, z) {
        Out::Ok(r, p, _) => {
            let Some(i) = slice_of(z) else { return "fails ok-outside-every-slice".to_string() };
            let tab = &tables()[i].0;
            let rmax = tab.iter().map(|k| k.1).fold(f64::MIN, f64::max);
            let rmin = tab.iter().map(|k| k.1).fold(f64::MAX, f64::min);
            let cmax = tab.iter().map(|k| k.2).fold(f64::MIN, f64::max);
            let c = -p; // phi = 0, so phi_out = 0 - correction exactly
            if !(r >= rmin && r <= rmax) {
                format!("fails radius {} outside [{}, {}]", r, rmin, rmax)
            } else if !(c >= 0.0 && c <= cmax) {
                format!("fails correction {} outside [0, {}]", c, cmax)
            } else {
                "holds".to_string()
            }
        }
        Out::Panic => "fails panic".to_string(),
        _ => "holds".to_string(),
    }
}
fn rel_knots(i: usize) -> String {
    let Some((tab, b)) = tables().get(i) else { return "fails no-such-table".to_string() };
    for z in [*b, -*b] {
        for (j, k) in tab.iter().enumerate() {
            match lookup(k.0, 0.0, z) {
                Out::Ok(r, _, _) if (r - k.1).abs() <= 1e-12 => {}
                o => return format!("fails knot {} z={} tabulated {} got {:?}", j, z, k.1, o),
            }
        }
    }
    "holds".to_string()
}
/// radius step of segment j of table i, looked up through the public API at the two knots
fn api_step(i: usize, j: usize) -> Option<(f64, f64)> {
    let (tab, b) = tables().get(i)?;
    if j + 1 >= tab.len() {
        return None;
    }
    match (lookup(tab[j].0, 0.0, *b), lookup(tab[j + 1].0, 0.0, *b)) {
        (Out::Ok(r1, _, _), Out::Ok(r2, _, _)) => Some((r1, r2)),
        _ => None,
    }
}
fn rel_steps(i: usize) -> String {
    let Some((tab, _)) = tables().get(i) else { return "fails no-such-table".to_string() };
    for j in 0..tab.len() - 1 {
        if is_known(i, j) {
            continue;
        }
        match api_step(i, j) {
            Some((r1, r2)) if (r1 - r2).abs() < HALF_MM => {}
            Some((r1, r2)) => {
                return format!("fails segment {} step={:.6}mm r={}->{} not in the known class", j, (r1 - r2) * 1e3, show(r1), show(r2))
            }
            None => return format!("fails segment {} lookup at a knot failed", j),
        }
    }
    "holds".to_string()
}
fn relkf_step(i: usize, j: usize) -> String {
    match api_step(i, j) {
        Some((r1, r2)) if (r1 - r2).abs() < HALF_MM => "holds".to_string(),
        Some((r1, r2)) => format!("fails step={:.6}mm r={}->{} between lookups 8 ns apart", (r1 - r2) * 1e3, show(r1), show(r2)),
        None => "holds".to_string(),
    }
}
fn rel_step8(z: f64, t: f64) -> String {
    let t2 = t + EIGHT_NS;
    match (lookup(t, 0.0, z), lookup(t2, 0.0, z)) {
        (Out::Ok(r1, _, _), Out::Ok(r2, _, _)) => {
            let Some(i) = slice_of(z) else { return "fails ok-outside-every-slice".to_string() };
            let tab = &tables()[i].0;
            let (Some(a), Some(b)) = (segment_of(tab, t), segment_of(tab, t2)) else {
                return "fails ok-outside-table-range".to_string();
            };
            let mut max_step = 0.0f64;
            let mut known = false;
            for j in a..=b {
                max_step = max_step.max(tab[j].1 - tab[j + 1].1);
                known |= is_known(i, j);
            }
            let d = (r1 - r2).abs();
            if d > max_step + 1e-12 {
                format!("fails jump {:e} exceeds the largest touched tabulated step {:e} (table {} segments {}..={})", d, max_step, i, a, b)
            } else if !known && d >= HALF_MM {
                format!("fails jump {:e} >= 0.5 mm, no touched segment in the known class (table {} segments {}..={})", d, i, a, b)
            } else {
                "holds".to_string()
            }
        }
        (Out::Panic, _) | (_, Out::Panic) => "fails panic".to_string(),
        _ => "holds".to_string(),
    }
}

/// implementation observation for a case line of this module (None: not one of mine)
pub fn observe_line(line: &str) -> Option<String> {
    let f: Vec<&str> = line.split(' ').collect();
    let p = |k: usize| f.get(k).and_then(|s| parse(s));
    let n = |k: usize| f.get(k).and_then(|s| s.parse::<usize>().ok());
    let bad = || Some("bad-case".to_string());
    match f[0] {
        "drift" => match (p(1), p(2), p(3)) {
            (Some(t), Some(phi), Some(z)) => Some(observe(t, phi, z)),
            _ => bad(),
        },
        "drift-ntab" => Some(tables().len().to_string()),
        // used by tools/genx_drift.py: the tables exactly as the library parsed them (serde_json's float parser is
        // not correctly rounded, so they cannot be re-derived from the JSON text by another parser)
        "drift-dump" => {
            let mut o = String::with_capacity(3 << 20);
            o.push_str(&tables().len().to_string());
            for (t, b) in tables() {
                o.push_str(&format!(" | {} {}", t.len(), show_raw(*b)));
                for &(x, y, z) in t {
                    o.push_str(&format!(" {} {} {}", show_raw(x), show_raw(y), show_raw(z)));
                }
            }
            Some(o)
        }
        "drift-tab" => n(1).map(table_obs).or_else(bad),
        "rel-drift-mono" => match (p(1), p(2), p(3)) {
            (Some(z), Some(t1), Some(t2)) => Some(rel_mono(z, t1, t2)),
            _ => bad(),
        },
        "rel-drift-sym" => match (p(1), p(2), p(3)) {
            (Some(t), Some(phi), Some(z)) => Some(rel_sym(t, phi, z)),
            _ => bad(),
        },
        "rel-drift-range" => match (p(1), p(2)) {
            (Some(t), Some(z)) => Some(rel_range(t, z)),
            _ => bad(),
        },
        "rel-drift-knots" => n(1).map(rel_knots).or_else(bad),
        "rel-drift-steps" => n(1).map(rel_steps).or_else(bad),
        "rel-drift-step8" => match (p(1), p(2)) {
            (Some(z), Some(t)) => Some(rel_step8(z, t)),
            _ => bad(),
        },
        "relkf-drift-step" => match (n(1), n(2)) {
            (Some(i), Some(j)) => Some(relkf_step(i, j)),
            _ => bad(),
        },
        _ => None,
    }
}

// ---------------------------------------------------------------------------------------------------------------
// generators
// ---------------------------------------------------------------------------------------------------------------
fn up(x: f64) -> f64 {
    // next representable value towards +inf (finite x)
    if x == 0.0 {
        return f64::from_bits(1);
    }
    let b = x.to_bits();
    f64::from_bits(if x > 0.0 { b + 1 } else { b - 1 })
}
fn down(x: f64) -> f64 {
    -up(-x)
}
/// uniform in [lo, hi]
fn uniform(r: &mut Rng, lo: f64, hi: f64) -> f64 {
    let u = (r.next() >> 11) as f64 / (1u64 << 53) as f64;
    lo + u * (hi - lo)
}
fn rand_phi(r: &mut Rng) -> f64 {
    match r.below(6) {
        0 => 0.0,
        1 => -0.0,
        _ => uniform(r, -3.2, 3.2),
    }
}
/// a z inside slice i (bound itself, interior, just above the previous bound), random sign
fn z_in_slice(r: &mut Rng, i: usize) -> f64 {
    let t = tables();
    let hi = t[i].1;
    let lo = if i == 0 { 0.0 } else { up(t[i - 1].1) };
    let z = match r.below(4) {
        0 => hi,
        1 => lo,
        _ => uniform(r, lo, hi),
    };
    if r.chance(1, 2) {
        -z
    } else {
        z
    }
}

struct Gen<'a> {
    s: &'a mut Sink,
}
impl Gen<'_> {
    fn point(&mut self, label: &str, t: f64, phi: f64, z: f64) {
        let o = observe(t, phi, z);
        let nontrivial = o != "err-z" && o != "panic";
        self.s.put(&format!("drift {} {} {}", show_raw(t), show_raw(phi), show_raw(z)), &o, label, nontrivial);
    }
    fn line(&mut self, label: &str, case: String) {
        let o = observe_line(&case).unwrap_or_else(|| "unknown-case".to_string());
        self.s.put(&case, &o, label, true);
    }
}
// case lines carry the raw bit pattern (NaN inputs included)
fn show_raw(x: f64) -> String {
    format!("{:016x}", x.to_bits())
}

pub fn run(tier: &str, seed: u64, s: &mut Sink) {
    let mut r = Rng::new(seed ^ 0xC18);
    let thorough = tier == "thorough";
    let tabs = tables();
    let nt = tabs.len();
    let mut g = Gen { s };

    // 1. tie of the generated tables
    g.line("tables", "drift-ntab".to_string());
    for i in 0..nt + 1 {
        // one past the end: both sides must say no-such-table
        g.line("tables", format!("drift-tab {}", i));
    }

    // 2. the witness of known finding F8 (DESIGN.md section 9): z = 0, t = 136 ns / 144 ns; and +-0
    for &(t, z) in &[(1.36e-7, 0.0), (1.44e-7, 0.0), (0.0, 0.0), (-0.0, 0.0), (0.0, -0.0), (-0.0, -0.0), (1e-6, -0.0)] {
        g.point("zero", t, 0.5, z);
    }

    // 3. every slice bound, exact and +-1 ulp, both signs, at first / interior / last time of the selected table
    for i in 0..nt {
        let b = tabs[i].1;
        for z0 in [b, up(b), down(b)] {
            for z in [z0, -z0] {
                // the table the implementation will select for this z (or the last one when out of range)
                let sel = slice_of(z).unwrap_or(nt - 1);
                let tab = &tabs[sel].0;
                let first = tab[0].0;
                let last = tab[tab.len() - 1].0;
                let mid = tab[r.below(tab.len() as u64) as usize].0;
                let ts: Vec<f64> = if thorough {
                    vec![first, down(first), last, up(last), mid, up(mid), uniform(&mut r, first, last)]
                } else {
                    vec![first, last, up(last), uniform(&mut r, first, last)]
                };
                for t in ts {
                    let phi = rand_phi(&mut r);
                    g.point("slice-bound", t, phi, z);
                }
            }
        }
    }

    // 4. tabulated times exact and +-1 ulp: first/last entries of all tables; thorough: every knot
    for i in 0..nt {
        let tab = &tabs[i].0;
        let n = tab.len();
        let mut js: Vec<usize> = if thorough {
            (0..n).collect()
        } else {
            let mut v = vec![0, 1, 2, n - 3, n - 2, n - 1];
            for _ in 0..6 {
                v.push(r.below(n as u64) as usize);
            }
            v
        };
        js.dedup();
        for j in js {
            let t0 = tab[j].0;
            for t in [t0, up(t0), down(t0)] {
                let z = z_in_slice(&mut r, i);
                let phi = rand_phi(&mut r);
                g.point("knot", t, phi, z);
            }
        }
    }

    // 5. random points of the property domain
    let n_rand = if thorough { 60_000 } else { 4_000 };
    for _ in 0..n_rand {
        let z = uniform(&mut r, -1.3, 1.3);
        let t = uniform(&mut r, -1e-6, 5e-6);
        let phi = rand_phi(&mut r);
        g.point("random", t, phi, z);
    }
    // random points inside a slice and inside its time range (all succeed)
    for _ in 0..n_rand / 2 {
        let i = r.below(nt as u64) as usize;
        let z = z_in_slice(&mut r, i);
        let tab = &tabs[i].0;
        let t = uniform(&mut r, tab[0].0, tab[tab.len() - 1].0);
        let phi = rand_phi(&mut r);
        g.point("random-in-range", t, phi, z);
    }

    // 6. outside the property domain (NaN, infinities, huge): still compared, the model covers them
    let specials = [f64::NAN, f64::INFINITY, f64::NEG_INFINITY, 1e300, -1e300, f64::MIN_POSITIVE, 5e-324, -5e-324];
    for &x in &specials {
        g.point("outside-domain", x, 0.25, 0.1);
        g.point("outside-domain", 1e-6, 0.25, x);
        g.point("outside-domain", 1e-6, x, 0.1);
        g.point("outside-domain", x, x, x);
    }

    // 7. implementation-only relations
    for i in 0..nt {
        g.line("rel-knots", format!("rel-drift-knots {}", i));
        g.line("rel-steps", format!("rel-drift-steps {}", i));
    }
    let n_rel = if thorough { 20_000 } else { 1_500 };
    for _ in 0..n_rel {
        let i = r.below(nt as u64) as usize;
        let tab = &tabs[i].0;
        let n = tab.len();
        let z = z_in_slice(&mut r, i);
        let (first, last) = (tab[0].0, tab[n - 1].0);
        // monotone: two times, often in the same or adjacent segments, often at knots +-1 ulp
        let j = r.below(n as u64 - 1) as usize;
        let (a, b) = match r.below(4) {
            0 => (uniform(&mut r, first, last), uniform(&mut r, first, last)),
            1 => (uniform(&mut r, tab[j].0, tab[j + 1].0), uniform(&mut r, tab[j].0, tab[j + 1].0)),
            2 => (down(tab[j + 1].0), tab[j + 1].0),
            _ => (tab[j + 1].0, up(tab[j + 1].0).min(last)),
        };
        let (t1, t2) = if a <= b { (a, b) } else { (b, a) };
        g.line("rel-mono", format!("rel-drift-mono {} {} {}", show_raw(z), show_raw(t1), show_raw(t2)));
        let t = uniform(&mut r, first, last);
        g.line("rel-range", format!("rel-drift-range {} {}", show_raw(t), show_raw(z)));
        let zz = uniform(&mut r, -1.3, 1.3);
        let tt = uniform(&mut r, -1e-6, 5e-6);
        let (zs, tsym) = if r.chance(1, 2) { (z, t) } else { (zz, tt) };
        g.line("rel-sym", format!("rel-drift-sym {} {} {}", show_raw(tsym), show_raw(rand_phi(&mut r)), show_raw(zs)));
        let t8 = uniform(&mut r, first, last - EIGHT_NS);
        g.line("rel-step8", format!("rel-drift-step8 {} {}", show_raw(z), show_raw(t8)));
    }
    // lookups 8 ns apart that touch a segment of the known class (the jump must be explained by it)
    for &(i, j) in KNOWN_STEPS {
        if i < nt && j + 1 < tabs[i].0.len() {
            let tab = &tabs[i].0;
            let z = z_in_slice(&mut r, i);
            let t8 = uniform(&mut r, tab[j.saturating_sub(1)].0, tab[j + 1].0);
            g.line("rel-step8-known", format!("rel-drift-step8 {} {}", show_raw(z), show_raw(t8)));
        }
    }

    // 8. the known class itself (F8): one line per listed segment
    for &(i, j) in KNOWN_STEPS {
        g.line("known-class-F8", format!("relkf-drift-step {} {}", i, j));
    }
}
