// E2E: the end-to-end tie of C09/C10/C11.  The same bank lists as c10.rs / c09.rs / c11.rs generate,
// but the case line carries ONLY the arguments of MainEvent::try_from_banks (run number, raw bank names
// and raw data bytes); the model (coq/Event/E2E.v) parses the names, decodes the bytes, looks up the maps
// and the calibration by itself.
//   e2e <run> <namehex>:<datahex>*          observation: outcome, every occupied slot, timestamp (as evt10)
//   calw <run>                               observation: the 256 wire calibration triples of the run (count, hash)
//   calp <run> <column>                      observation: the 576 pad calibration triples of the column
//   calib-scan <upto>                        (generator and translator) the runs in 1..=upto where the calibration changes
//   calib-dump <run>                         (translator only, tools/genx_calib.py) every triple of the run in full
// The calibration lines compare every entry of coq/Gen/Calib.v with alpha_g_physics::verif::{wire,pad}_calibration.
use crate::c10::{self, Bank};
use crate::util::*;
use crate::{c09, c11};
use std::cell::RefCell;
use std::io::Write;
use std::rc::Rc;

const N_WIRES: usize = 256;
const N_COLS: usize = 32;
const N_ROWS: usize = 576;

fn cal_tok(r: Result<(i16, f64, usize), String>) -> String {
    match r {
        Ok((bl, g, dl)) => format!("{}:{:016x}:{}", bl, g.to_bits(), dl),
        Err(_) => "E".to_string(),
    }
}
fn fnv_str(h: &mut u64, s: &str) {
    for b in s.bytes() {
        *h = (*h ^ b as u64).wrapping_mul(0x100000001b3);
    }
    *h = (*h ^ 0x2c).wrapping_mul(0x100000001b3);
}
/// (number of Ok entries, FNV-64 over the comma-terminated tokens, first and last token)
fn summarise(toks: &[String]) -> String {
    let mut h: u64 = 0xcbf29ce484222325;
    let mut ok = 0;
    for t in toks {
        fnv_str(&mut h, t);
        if t != "E" {
            ok += 1;
        }
    }
    format!("{} {:016x} {} {}", ok, h, toks.first().map(|s| &s[..]).unwrap_or("-"), toks.last().map(|s| &s[..]).unwrap_or("-"))
}
/// cheap fingerprint of the complete calibration of a run: every wire and every 13th pad (baseline, gain bits, delay /
/// "no entry"); two runs with different fingerprints are dispatched differently
pub fn calib_fingerprint(run: u32) -> u64 {
    let mut h: u64 = 0xcbf29ce484222325;
    let mut mix = |r: Result<(i16, f64, usize), String>| {
        let (a, b, c) = match r {
            Ok((bl, g, dl)) => (bl as u16 as u64 | 0x10000, g.to_bits(), dl as u64),
            Err(_) => (0, 0, u64::MAX),
        };
        for x in [a, b, c] {
            h = (h ^ x).wrapping_mul(0x100000001b3);
        }
    };
    for w in 0..N_WIRES {
        mix(alpha_g_physics::verif::wire_calibration(run, w));
    }
    let mut k = 0;
    while k < N_COLS * N_ROWS {
        mix(alpha_g_physics::verif::pad_calibration(run, k / N_ROWS, k % N_ROWS));
        k += 13;
    }
    h
}
/// the run numbers in 1..=upto at which the calibration fingerprint differs from the previous run's
pub fn calib_boundaries(upto: u32) -> Vec<u32> {
    let mut out = Vec::new();
    let mut last = calib_fingerprint(0);
    for run in 1..=upto {
        let f = calib_fingerprint(run);
        if f != last {
            out.push(run);
            last = f;
        }
    }
    out
}
fn wire_toks(run: u32) -> Vec<String> {
    (0..N_WIRES).map(|w| cal_tok(alpha_g_physics::verif::wire_calibration(run, w))).collect()
}
fn pad_toks(run: u32, col: usize) -> Vec<String> {
    (0..N_ROWS).map(|r| cal_tok(alpha_g_physics::verif::pad_calibration(run, col, r))).collect()
}

pub fn observe_line(line: &str) -> Option<String> {
    let toks: Vec<&str> = line.split(' ').collect();
    match toks.first() {
        Some(&"e2e") => {
            let (run, banks) = c10::parse_raw(&toks[1..])?;
            Some(c10::observe(run, &banks))
        }
        Some(&"calw") => {
            let run = toks.get(1)?.parse::<u32>().ok()?;
            Some(summarise(&wire_toks(run)))
        }
        Some(&"calp") => {
            let run = toks.get(1)?.parse::<u32>().ok()?;
            let col = toks.get(2)?.parse::<usize>().ok()?;
            Some(summarise(&pad_toks(run, col)))
        }
        Some(&"amat") => {
            // (translator only, tools/genx_crosstalk.py) the cross-talk matrix of a block of n wires, row by row, as bits
            let n = toks.get(1)?.parse::<usize>().ok()?;
            let m = alpha_g_physics::verif::crosstalk_matrix(n);
            let t: Vec<String> = m.iter().map(|x| format!("{:016x}", x.to_bits())).collect();
            Some(format!("{} {}", n, t.join(" ")))
        }
        Some(&"calib-scan") => {
            let upto = toks.get(1)?.parse::<u32>().ok()?;
            let b: Vec<String> = calib_boundaries(upto).iter().map(|r| r.to_string()).collect();
            Some(format!("boundaries {}", b.join(" ")))
        }
        Some(&"calib-dump") => {
            let run = toks.get(1)?.parse::<u32>().ok()?;
            let mut out = vec![format!("{} {} {}", N_WIRES, N_COLS, N_ROWS)];
            out.push(wire_toks(run).join(" "));
            for c in 0..N_COLS {
                out.push(pad_toks(run, c).join(" "));
            }
            Some(out.join(" | "))
        }
        _ => None,
    }
}

// ---------------------------------------------------------------------------------------------
// a Sink that keeps its three streams in memory, to re-use the generators of c10 / c09 / c11
// ---------------------------------------------------------------------------------------------
#[derive(Clone, Default)]
struct Buf(Rc<RefCell<Vec<u8>>>);
impl Write for Buf {
    fn write(&mut self, b: &[u8]) -> std::io::Result<usize> {
        self.0.borrow_mut().extend_from_slice(b);
        Ok(b.len())
    }
    fn flush(&mut self) -> std::io::Result<()> {
        Ok(())
    }
}
fn capture(f: impl FnOnce(&mut Sink)) -> Vec<(String, String, String)> {
    let (c, o, m) = (Buf::default(), Buf::default(), Buf::default());
    let mut s = Sink { cases: Box::new(c.clone()), obs: Box::new(o.clone()), meta: Box::new(m.clone()), n: 0 };
    f(&mut s);
    drop(s);
    let text = |b: &Buf| String::from_utf8(b.0.borrow().clone()).unwrap();
    let (c, o, m) = (text(&c), text(&o), text(&m));
    c.lines().zip(o.lines()).zip(m.lines()).map(|((a, b), c)| (a.to_string(), b.to_string(), c.to_string())).collect()
}

/// `evt10 <raw> | <view>` / `tot09 <raw> | <view>`  ->  `e2e <raw>`
fn convert(case: &str) -> Option<(u32, Vec<Bank>, String)> {
    let toks: Vec<&str> = case.split(' ').collect();
    match toks.first() {
        Some(&"evt10") | Some(&"tot09") => {}
        _ => return None,
    }
    let (run, banks) = c10::parse_raw(&toks[1..])?;
    let line = format!("e2e {}", c10::raw_str(run, &banks));
    Some((run, banks, line))
}

/// keep every `keep_small`-th case of at most BIG characters and every `keep_big`-th larger one (the end-to-end
/// model decodes every byte itself, CRCs included: about 35 microseconds per byte)
const BIG: usize = 40_000;
fn reemit(s: &mut Sink, seen: &mut std::collections::HashSet<String>, origin: &str, cases: Vec<(String, String, String)>, keep_small: usize, keep_big: usize) {
    let (mut ks, mut kb) = (0usize, 0usize);
    for (case, obs, meta) in cases {
        let Some((run, banks, line)) = convert(&case) else { continue };
        if line.len() > BIG {
            kb += 1;
            if kb % keep_big != 0 {
                continue;
            }
        } else {
            ks += 1;
            if ks % keep_small != 0 {
                continue;
            }
        }
        if !seen.insert(line.clone()) {
            continue;
        }
        // evt10 lines carry the full observation already; tot09 lines only the class
        let obs = if case.starts_with("evt10") { obs } else { c10::observe(run, &banks) };
        let (label, nt) = match meta.rsplit_once(' ') {
            Some((l, f)) => (l.to_string(), f == "1"),
            None => (meta.clone(), true),
        };
        s.put(&line, &obs, &format!("{}/{}", origin, label), nt);
    }
}

pub fn run(tier: &str, seed: u64, s: &mut Sink) {
    let thorough = tier == "thorough";
    // 1. every entry of the calibration tables, on every run class and arm boundary
    let mut runs: Vec<u32> = c10::RUNS_MAIN.iter().chain(c10::RUNS_EDGE.iter()).copied().collect();
    runs.extend_from_slice(&[11184, 11188, 11190, 11194, 9275, 9279, 7024, 7028, 6998, 7002, 3_000_000_000]);
    // every run in 1..=20000 at which the implementation's calibration changes (found by scanning the implementation,
    // not read from the source), +-1; a stride of runs in between; a few beyond
    for b in calib_boundaries(20000) {
        runs.extend_from_slice(&[b - 1, b, b + 1]);
    }
    runs.extend((0..=20000u32).step_by(if thorough { 499 } else { 2503 }));
    runs.extend_from_slice(&[20001, 50000, 65535, 65536, 1 << 31]);
    runs.sort();
    runs.dedup();
    for &run in &runs {
        let line = format!("calw {}", run);
        let obs = observe_line(&line).unwrap();
        s.put(&line, &obs, "calibration-table-wires", !obs.starts_with("0 "));
        for col in 0..N_COLS {
            if !thorough && !c10::RUNS_MAIN.contains(&run) && col % 8 != (run as usize) % 8 {
                continue;
            }
            let line = format!("calp {} {}", run, col);
            let obs = observe_line(&line).unwrap();
            s.put(&line, &obs, "calibration-table-pad-column", !obs.starts_with("0 "));
        }
    }
    // 2. the bank lists of the C10, C09 and C11 generators, as raw (name, bytes) lists
    let mut seen = std::collections::HashSet::new();
    let t = tier.to_string();
    // every C10 case; of the C09 / C11 cases (large simulated events) a sample
    reemit(s, &mut seen, "c10", capture(|x| c10::run(&t, seed, x)), 1, 1);
    let (s9, b9, s11, b11) = if thorough { (1, 10, 1, 4) } else { (4, 8, 3, 6) };
    reemit(s, &mut seen, "c09", capture(|x| c09::run(&t, seed, x)), s9, b9);
    reemit(s, &mut seen, "c11", capture(|x| c11::run(&t, seed, x)), s11, b11);
}
