// C11: results do not depend on bank order; reproducible across threads and processes.
//   evt10 ...   (format of c10.rs) permuted bank lists through implementation AND model
//   rel11 <flags> <nperm> <seed> <run> <namehex>:<datahex>*
//               implementation-only relation: every adjacent transposition, the reversal and <nperm>
//               random permutations succeed/fail alike and, on success, give the same timestamp,
//               signal arrays, avalanches() and vertex() bit for bit; flag `t`: also in a spawned
//               thread; flag `p`: also in a fresh child process (this binary, `obs` mode).
//   full11 <run> <namehex>:<datahex>*    (used by the child process) prints the full observation
// The thread/process part is runtime behaviour that no Gallina model exhibits: it is exercised here,
// not proved (see coq/Props/C11.v).
use crate::c10::*;
use crate::util::*;
use alpha_g_detector::alpha16::aw_map::TpcWirePosition;
use alpha_g_detector::alpha16::{self, Adc32ChannelId};
use alpha_g_detector::padwing::map::TpcPadPosition;
use alpha_g_detector::padwing::{self, AfterId, PadChannelId};
use std::collections::HashMap;
use std::io::Write;

/// outcome + timestamp + every occupied slot + avalanches() + vertex(), floats as bit patterns
pub fn full_obs(run: u32, banks: &[Bank]) -> String {
    match build_real(run, banks) {
        None => "panic".into(),
        Some(Err(_)) => "err".into(),
        Some(Ok(ev)) => {
            let mut s = event_obs(&ev);
            let e2 = ev.clone();
            match catch(move || e2.avalanches()) {
                None => s.push_str(" | av panic"),
                Some(av) => {
                    s.push_str(&format!(" | av {}", av.len()));
                    for a in av {
                        s.push_str(&format!(
                            " {:016x}.{:016x}.{:016x}.{:016x}.{:016x}",
                            a.t.value.to_bits(),
                            a.phi.value.to_bits(),
                            a.z.value.to_bits(),
                            a.wire_amplitude.to_bits(),
                            a.pad_amplitude.to_bits()
                        ));
                    }
                }
            }
            match catch(move || ev.vertex()) {
                None => s.push_str(" | vx panic"),
                Some(None) => s.push_str(" | vx none"),
                Some(Some(c)) => s.push_str(&format!(
                    " | vx {:016x}.{:016x}.{:016x}",
                    c.x.value.to_bits(),
                    c.y.value.to_bits(),
                    c.z.value.to_bits()
                )),
            }
            s
        }
    }
}
fn class(o: &str) -> &str {
    o.split(' ').next().unwrap_or("")
}

pub fn permutation(r: &mut Rng, n: usize) -> Vec<usize> {
    let mut p: Vec<usize> = (0..n).collect();
    for i in (1..n).rev() {
        let j = r.below(i as u64 + 1) as usize;
        p.swap(i, j);
    }
    p
}
fn apply(p: &[usize], banks: &[Bank]) -> Vec<Bank> {
    p.iter().map(|&i| banks[i].clone()).collect()
}

fn child_obs(run: u32, banks: &[Bank]) -> Result<String, String> {
    let exe = std::env::current_exe().map_err(|e| e.to_string())?;
    let mut ch = std::process::Command::new(exe)
        .arg("obs")
        .stdin(std::process::Stdio::piped())
        .stdout(std::process::Stdio::piped())
        .spawn()
        .map_err(|e| e.to_string())?;
    {
        let mut si = ch.stdin.take().ok_or("no stdin")?;
        writeln!(si, "full11 {}", raw_str(run, banks)).map_err(|e| e.to_string())?;
    }
    let out = ch.wait_with_output().map_err(|e| e.to_string())?;
    Ok(String::from_utf8_lossy(&out.stdout).trim_end().to_string())
}

/// the pairwise relation of C11 on the implementation
pub fn relation(flags: &str, nperm: usize, seed: u64, run: u32, banks: &[Bank]) -> String {
    let reference = full_obs(run, banks);
    let n = banks.len();
    let check = |what: &str, o: &str| -> Option<String> {
        if class(o) != class(&reference) {
            return Some(format!("fails {} outcome {} vs {}", what, class(o), class(&reference)));
        }
        if class(o) == "ok" && o != reference {
            return Some(format!("fails {} results differ", what));
        }
        if class(o) == "panic" {
            return Some(format!("fails {} panic", what));
        }
        None
    };
    // same input again in this thread
    if let Some(f) = check("repeat", &full_obs(run, banks)) {
        return f;
    }
    for i in 0..n.saturating_sub(1) {
        let mut b = banks.to_vec();
        b.swap(i, i + 1);
        if let Some(f) = check(&format!("transposition-{}", i), &full_obs(run, &b)) {
            return f;
        }
    }
    let mut rev = banks.to_vec();
    rev.reverse();
    if let Some(f) = check("reversal", &full_obs(run, &rev)) {
        return f;
    }
    let mut r = Rng::new(seed);
    for k in 0..nperm {
        let p = permutation(&mut r, n);
        if let Some(f) = check(&format!("permutation-{}", k), &full_obs(run, &apply(&p, banks))) {
            return f;
        }
    }
    if flags.contains('t') {
        let b = banks.to_vec();
        // MainEvent is ~0.5 MB by value; the vertices binary gives its workers 4 MiB stacks, std's
        // default of 2 MiB is not enough for this harness' extra copies
        let h = std::thread::Builder::new().stack_size(32 << 20).spawn(move || full_obs(run, &b)).unwrap();
        match h.join() {
            Ok(o) => {
                if o != reference {
                    return "fails thread results differ".into();
                }
            }
            Err(_) => return "fails thread panicked".into(),
        }
    }
    if flags.contains('p') {
        match child_obs(run, banks) {
            Ok(o) => {
                if o != reference {
                    return "fails process results differ".into();
                }
            }
            Err(e) => return format!("fails process {}", e),
        }
    }
    "holds".into()
}

pub fn observe_line(line: &str) -> Option<String> {
    let toks: Vec<&str> = line.split(' ').collect();
    match toks.first() {
        Some(&"full11") => {
            let (run, banks) = parse_raw(&toks[1..])?;
            Some(full_obs(run, &banks))
        }
        Some(&"rel11") => {
            let flags = toks.get(1)?;
            let nperm = toks.get(2)?.parse::<usize>().ok()?;
            let seed = toks.get(3)?.parse::<u64>().ok()?;
            let (run, banks) = parse_raw(&toks[4..])?;
            Some(relation(flags, nperm, seed, run, &banks))
        }
        _ => None,
    }
}

// ---------------------------------------------------------------------------------------------
// simulated-like events: a few tracks of response-shaped wire and pad pulses over noise
// ---------------------------------------------------------------------------------------------
pub struct Geometry {
    /// wire index -> (a16 board index, channel)
    pub wire: HashMap<usize, (usize, u8)>,
    /// (column, row) -> (pwb board index, chip, readout index)
    pub pad: HashMap<(usize, usize), (usize, u8, u16)>,
}
pub fn geometry(w: &World, run: u32) -> Geometry {
    let mut wire = HashMap::new();
    for (bi, b) in w.a16.iter().enumerate() {
        let id = alpha16::BoardId::try_from(&b.name[..]).unwrap();
        for c in 0..32u8 {
            if let Ok(p) = TpcWirePosition::try_new(run, id, Adc32ChannelId::try_from(c).unwrap()) {
                wire.insert(usize::from(p), (bi, c));
            }
        }
    }
    // readout index of each pad channel
    let mut readout = HashMap::new();
    for ro in 1..=79u16 {
        if let Ok(padwing::ChannelId::Pad(pc)) = padwing::ChannelId::try_from(ro) {
            readout.insert((1..=72u16).find(|&i| PadChannelId::try_from(i).unwrap() == pc).unwrap(), ro);
        }
    }
    let mut pad = HashMap::new();
    for (bi, b) in w.pwb.iter().enumerate() {
        let id = padwing::BoardId::try_from(&b.name[..]).unwrap();
        for (ci, chip) in [AfterId::A, AfterId::B, AfterId::C, AfterId::D].into_iter().enumerate() {
            for pc in 1..=72u16 {
                if let Ok(p) = TpcPadPosition::try_new(run, id, chip, PadChannelId::try_from(pc).unwrap()) {
                    pad.insert((usize::from(p.column), usize::from(p.row)), (bi, ci as u8, readout[&pc]));
                }
            }
        }
    }
    Geometry { wire, pad }
}

fn add_pulse(sig: &mut [f64], t0: usize, amp: f64, resp: &[f64]) {
    for (k, v) in resp.iter().enumerate() {
        if t0 + k < sig.len() {
            sig[t0 + k] += amp * v;
        }
    }
}

/// tracks of hits: consecutive wires with growing drift time, pad rows moving along z
pub fn sim_event(w: &World, g: &Geometry, r: &mut Rng, run: u32, ntracks: usize, noise: i64) -> Ev {
    let wresp = alpha_g_physics::verif::wire_response();
    let presp = alpha_g_physics::verif::pad_response();
    let wmax = wresp.iter().fold(0f64, |a, b| a.max(b.abs())).max(1e-9);
    let pmax = presp.iter().fold(0f64, |a, b| a.max(b.abs())).max(1e-9);
    let nw = 400usize; // ADC samples
    let np = 400usize; // PWB samples
    let mut wires: HashMap<usize, Vec<f64>> = HashMap::new();
    let mut pads: HashMap<(usize, usize), Vec<f64>> = HashMap::new();
    let radial = ntracks >= 10; // 10 + n: n straight tracks from one point on the axis
    let ntracks = if radial { ntracks - 10 } else { ntracks };
    let tables = alpha_g_physics::verif::drift_tables();
    let zv = (r.below(1600) as f64 - 800.0) / 1000.0;
    for _ in 0..ntracks {
        if radial {
            let phi0 = r.below(6283) as f64 / 1000.0;
            let slope = (r.below(2000) as f64 - 1000.0) / 1000.0;
            let amp = r.range(900, 2500) as f64;
            for k in 0..22 {
                let rad = 0.181 - 0.0032 * k as f64;
                let z = zv + slope * rad;
                if z.abs() > 1.14 {
                    continue;
                }
                let Some((table, _)) = tables.iter().find(|(_, zu)| *zu >= z.abs()) else { continue };
                let Some(&(t, _, corr)) = table
                    .iter()
                    .min_by(|a, b| (a.1 - rad).abs().partial_cmp(&(b.1 - rad).abs()).unwrap())
                else {
                    continue;
                };
                let phi = (phi0 + corr).rem_euclid(2.0 * std::f64::consts::PI);
                let shifted = (phi / (2.0 * std::f64::consts::PI / 256.0)).floor() as usize % 256;
                let wi = (shifted + 8) & 0xff;
                let bin = 3 + (t / 16e-9).round() as usize;
                let row = (((z + 1.152) / 0.004).floor() as i64).clamp(0, 575);
                if wires.get(&wi).is_none() {
                    wires.insert(wi, vec![0.0; nw]);
                }
                add_pulse(wires.get_mut(&wi).unwrap(), bin, amp / wmax, &wresp);
                let col = alpha_g_physics::verif::wire_to_pad_column(wi);
                for (dr, f) in [(-1i64, 0.35), (0, 1.0), (1, 0.45)] {
                    let rr = row + dr;
                    if (0..576).contains(&rr) {
                        let key = (col, rr as usize);
                        if pads.get(&key).is_none() {
                            pads.insert(key, vec![0.0; np]);
                        }
                        add_pulse(pads.get_mut(&key).unwrap(), bin.saturating_sub(1), 0.6 * f * amp / pmax, &presp);
                    }
                }
            }
            continue;
        }
        let w0 = r.below(256) as usize;
        let len = r.range(14, 26) as usize;
        let dir: i64 = if r.chance(1, 2) { 1 } else { -1 };
        let row0 = r.range(100, 470) as i64;
        let drow = r.range(0, 4) as i64 - 2;
        let dt = r.range(2, 9) as usize;
        let amp = r.range(600, 2500) as f64;
        for j in 0..len {
            let wi = ((w0 as i64 + dir * j as i64).rem_euclid(256)) as usize;
            let t = 5 + dt * j;
            if wires.get(&wi).is_none() {
                wires.insert(wi, vec![0.0; nw]);
            }
            // raw sample index = delay + bin; pulses are added in calibrated time, shifted below
            add_pulse(wires.get_mut(&wi).unwrap(), t, amp / wmax, &wresp);
            let col = alpha_g_physics::verif::wire_to_pad_column(wi);
            let row = row0 + drow * j as i64;
            for (dr, f) in [(-1i64, 0.35), (0, 1.0), (1, 0.45)] {
                let rr = row + dr;
                if (0..576).contains(&rr) {
                    let key = (col, rr as usize);
                    if pads.get(&key).is_none() {
                        pads.insert(key, vec![0.0; np]);
                    }
                    add_pulse(pads.get_mut(&key).unwrap(), t.saturating_sub(1), 0.6 * f * amp / pmax, &presp);
                }
            }
        }
    }
    let mut banks = Vec::new();
    let mut kinds = Vec::new();
    let mut keys: Vec<usize> = wires.keys().copied().collect();
    keys.sort();
    for wi in keys {
        let Some(&(bi, c)) = g.wire.get(&wi) else { continue };
        let Ok((bl, gain, delay)) = alpha_g_physics::verif::wire_calibration(run, wi) else { continue };
        let sig = &wires[&wi];
        let n = delay + sig.len();
        let raw: Vec<i16> = (0..n)
            .map(|i| {
                let s = if i >= delay { sig[i - delay] / gain } else { 0.0 };
                let nz = r.below(2 * noise as u64 + 1) as i64 - noise;
                (bl as f64 + s).round().clamp(-32000.0, 32000.0) as i16 + nz as i16
            })
            .collect();
        banks.push(Bank { name: wire_name(&w.a16[bi].name, c), data: adc_long(w.a16[bi].mac, 128 + c, &raw, None, None) });
        kinds.push(Kind::Wire { board: bi, chan: c, short: false });
    }
    // pads grouped by (board, chip)
    let mut groups: HashMap<(usize, u8), Vec<(u16, Vec<i16>)>> = HashMap::new();
    let mut nsamp = 0usize;
    let mut pkeys: Vec<(usize, usize)> = pads.keys().copied().collect();
    pkeys.sort();
    for key in pkeys {
        let Some(&(bi, chip, ro)) = g.pad.get(&key) else { continue };
        let Ok((bl, gain, delay)) = alpha_g_physics::verif::pad_calibration(run, key.0, key.1) else { continue };
        let sig = &pads[&key];
        nsamp = (delay + sig.len()).min(511);
        let raw: Vec<i16> = (0..nsamp)
            .map(|i| {
                let s = if i >= delay { sig[i - delay] / gain } else { 0.0 };
                let nz = r.below(2 * noise as u64 + 1) as i64 - noise;
                (bl as f64 + s).round().clamp(-2040.0, 2040.0) as i16 + nz as i16
            })
            .collect();
        groups.entry((bi, chip)).or_default().push((ro, raw));
    }
    let mut gk: Vec<(usize, u8)> = groups.keys().copied().collect();
    gk.sort();
    for (bi, chip) in gk {
        let mut chans = groups[&(bi, chip)].clone();
        chans.sort_by_key(|c| c.0);
        let payload = pwb_payload(w.pwb[bi].mac, b'A' + chip, nsamp as u16, &chans);
        let k = r.range(1, 3) as usize;
        for d in split_chunks(w.pwb[bi].dev, chip, &payload, k) {
            banks.push(Bank { name: format!("PC{}", w.pwb[bi].name), data: d });
            kinds.push(Kind::Pad { board: bi, chip });
        }
    }
    banks.push(trg_bank(r));
    kinds.push(Kind::Trg);
    // bank order as shuffled as a MIDAS event may deliver it
    for i in (1..banks.len()).rev() {
        let j = r.below(i as u64 + 1) as usize;
        banks.swap(i, j);
        kinds.swap(i, j);
    }
    Ev { run, banks, kinds }
}

fn emit_rel(s: &mut Sink, label: &str, flags: &str, nperm: usize, seed: u64, run: u32, banks: &[Bank]) {
    let line = format!("rel11 {} {} {} {}", flags, nperm, seed, raw_str(run, banks));
    let obs = relation(flags, nperm, seed, run, banks);
    s.put(&line, &obs, label, banks.len() > 1);
}

/// the event itself, its reversal, random permutations and (small lists) every adjacent transposition
/// through implementation and model; then the implementation-only relation
fn emit_all(s: &mut Sink, r: &mut Rng, label: &str, flags: &str, nperm: usize, nmodel: usize, run: u32, banks: &[Bank]) {
    emit(s, "evt10", &format!("{}/as-generated", label), run, banks);
    let mut rev = banks.to_vec();
    rev.reverse();
    emit(s, "evt10", &format!("{}/reversed", label), run, &rev);
    for _ in 0..nmodel {
        let p = permutation(r, banks.len());
        emit(s, "evt10", &format!("{}/random-permutation", label), run, &apply(&p, banks));
    }
    if banks.len() <= 6 {
        for i in 0..banks.len().saturating_sub(1) {
            let mut b = banks.to_vec();
            b.swap(i, i + 1);
            emit(s, "evt10", &format!("{}/adjacent-transposition", label), run, &b);
        }
    }
    emit_rel(s, &format!("{}/relation", label), flags, nperm, r.next(), run, banks);
}

pub fn run(tier: &str, seed: u64, s: &mut Sink) {
    let w = world();
    let mut r = Rng::new(seed ^ 0xC11);
    let thorough = tier == "thorough";
    let flags = if thorough { "tp" } else { "t" };
    let nperm = if thorough { 50 } else { 6 };
    let nmodel = if thorough { 4 } else { 1 };
    // 1. simulated-like multi-track events with noise
    let g_sim = geometry(&w, u32::MAX);
    let g_real = geometry(&w, 11192);
    let n_sim = if thorough { 60 } else { 6 };
    for i in 0..n_sim {
        let (run, g) = if i % 3 == 2 { (11192u32, &g_real) } else { (u32::MAX, &g_sim) };
        let nt = if i % 2 == 0 { 12 + (i % 3) } else { 1 + (i % 3) };
        let ev = sim_event(&w, g, &mut r, run, nt, 3);
        // long lists: transpositions are sampled by the relation's nperm only through the driver's budget
        emit_all(s, &mut r, "simulated-tracks-with-noise", if i == 0 { "tp" } else { flags }, if thorough { 20 } else { 3 }, nmodel, ev.run, &ev.banks);
    }
    // 2. consistent events
    let n_ok = if thorough { 400 } else { 50 };
    for _ in 0..n_ok {
        let ev = clean_base(&w, &mut r, None);
        emit_all(s, &mut r, "consistent-event", flags, nperm, nmodel, ev.run, &ev.banks);
    }
    // 3. malformed events: every inconsistency class; only Ok/Err is compared across orders
    let n_bad = if thorough { 40 } else { 4 };
    for which in 0..N_PERTURB {
        let mut done = 0;
        let mut tries = 0;
        while done < n_bad && tries < 50 * n_bad {
            tries += 1;
            let mut ev = clean_base(&w, &mut r, None);
            if let Some(label) = perturb(&w, &mut r, &mut ev, which) {
                emit_all(s, &mut r, label, flags, nperm, nmodel, ev.run, &ev.banks);
                done += 1;
            }
        }
    }
    // 4. arbitrary runs (maps / calibration may be missing)
    let n_any = if thorough { 200 } else { 30 };
    for i in 0..n_any {
        let run = pick_run(&mut r);
        let ev = base_event(&w, &mut r, run, i % 5 == 0);
        emit_all(s, &mut r, "event-on-arbitrary-run", flags, nperm, nmodel, ev.run, &ev.banks);
    }
}
